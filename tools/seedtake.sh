#!/bin/bash
# tools/seedtake.sh <round-dir> <ID>: validate the changes a seeding sub-agent left in <round-dir>/<ID>/out/mN and, when confirmed
# (patch applies, 45 tests pass, demo passes without / fails with the patch), keep them as seeded/<ID>-mN; then drop the worktree.
set -u
V="$(cd "$(dirname "$0")/.." && pwd)"
R="$1"; ID="$2"
for d in "$R/$ID"/out/m*; do
  [ -f "$d/patch.diff" ] || continue
  m=$(basename "$d")
  out=$("$V/tools/seedvalidate.sh" "$d")
  echo "$out"
  if echo "$out" | grep -q "clean_demo_exit=0 " && ! echo "$out" | grep -q "mutant_demo_exit=0 " && echo "$out" | grep -q "45 passed"; then
    mkdir -p "$V/seeded/$ID-$m"
    cp "$d/patch.diff" "$d/demo.py" "$V/seeded/$ID-$m/"
    [ -f "$d/notes.md" ] && cp "$d/notes.md" "$V/seeded/$ID-$m/"
    echo "KEPT $ID-$m"
  else
    echo "REJECTED $ID-$m"
  fi
done
git -C /repo worktree remove --force "$R/$ID/wt" 2>/dev/null
