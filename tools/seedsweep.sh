#!/bin/bash
# tools/seedsweep.sh "<seeds>" <check ids...> : run checks on the unchanged tree under several VERIF_SEED values (evidence goes to a scratch dir)
seeds="$1"; shift
for c in "$@"; do for s in $seeds; do
  D=$(mktemp -d /tmp/seedsweep.XXXXXX)
  out=$(VERIF_SEED=$s VERIF_EVIDENCE_DIR=$D VERIF_OUT_DIR=$D/out bin/verif check $c 2>&1); rc=$?
  echo "$c seed=$s exit=$rc $(echo "$out" | grep "^\[$c" | tail -1)"
  [ $rc -ne 0 ] && echo "$out" | grep -v "^\[" | head -5
  rm -rf $D
done; done
