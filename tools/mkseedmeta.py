#!/usr/bin/env python3
"""Writes seeded/<id>/meta.json from notes.md + seeded/results.json, and prints the DESIGN table (markdown)."""
import json
import os
import re

V = os.path.dirname(os.path.dirname(os.path.abspath(__file__)))
S = os.path.join(V, 'seeded')
res = json.load(open(os.path.join(S, 'results.json')))
rows = []
for m in sorted((d for d in os.listdir(S) if os.path.isdir(os.path.join(S, d))), key=lambda d: (d.split('-m')[0], int(d.split('-m')[1]))):
    notes = open(os.path.join(S, m, 'notes.md')).read() if os.path.exists(os.path.join(S, m, 'notes.md')) else ''
    lines = [l.strip() for l in notes.splitlines() if l.strip()]
    title = re.sub(r'^#+\s*', '', lines[0]) if lines else ''
    title = re.sub(r'^(C\d\d\s*/\s*)?m\d\s*[-\u2014\u2013]+\s*', '', title).replace('|', '/')
    # the paragraph after a heading that mentions trigger / needed / manifest
    need = ''
    for i, l in enumerate(lines):
        if re.match(r'^#+', l) and re.search(r'trigger|needed|manifest|circumstance', l, re.I):
            need = ' '.join(x for x in lines[i + 1:i + 6] if not x.startswith('#'))[:600]
            break
    patch = open(os.path.join(S, m, 'patch.diff')).read()
    files = sorted(set(re.findall(r'^\+\+\+ b/(\S+)', patch, re.M)))
    r = res.get(m, {})
    caught = sorted(c for c, v in r.items() if v.get('detected'))
    missed = sorted(c for c, v in r.items() if not v.get('detected'))
    meta = dict(
        id=m, property=m.split('-')[0], round=(int(m.split('-m')[1]) + 1) // 2, title=title, files_changed=files,
        needs_to_manifest=need or title,
        origin='written by a fresh sub-agent that was given only the property text and a scratch git worktree of /repo (nothing from /verif)',
        confirmed=dict(how='tools/seedvalidate.sh: patch applies to /repo HEAD in a scratch worktree; the 45 pinned tests pass with it; demo.py exits 0 without and non-zero with the patch',
                       ok=True),
        checks_run={c: dict(exit=v.get('exit'), detected=v.get('detected'), summary=v.get('summary'), wall_s=v.get('wall_s')) for c, v in r.items()},
        caught_by=caught, not_caught_by=missed,
        how_run='tools/seedrun.py -> tools/mutrun.sh <patch> bin/verif check <ID> (scratch copy of /repo with the patch, HIDC_ROOT pointing at it; quick tier)',
    )
    json.dump(meta, open(os.path.join(S, m, 'meta.json'), 'w'), indent=1)
    rows.append((m, title[:90], ', '.join(caught) or '-', ', '.join(missed) or ''))
print('| change | what it does | caught by (quick tier) | run but not caught by |')
print('|---|---|---|---|')
for r in rows:
    print('| %s | %s | %s | %s |' % r)
