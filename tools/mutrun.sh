#!/bin/bash
# usage: tools/mutrun.sh <patch-file | "sed:<file>:<expr>"> <check command...>
# runs a check against a scratch copy of /repo with one change applied; evidence is redirected nowhere special,
# so re-run the real check afterwards.  The scratch copy is removed.
set -u
M="$1"; shift
D=$(mktemp -d /tmp/hidc_mut.XXXXXX)
cp -r /repo/hidc /repo/tests /repo/examples "$D"/ 2>/dev/null
if [[ "$M" == sed:* ]]; then
  IFS=: read -r _ f e <<<"$M"
  sed -i "$e" "$D/$f" || exit 9
  if diff -q "$D/$f" "/repo/$f" >/dev/null; then echo "MUTANT DID NOT CHANGE ANYTHING"; rm -rf "$D"; exit 9; fi
else
  (cd "$D" && patch -p1 -s < "$M") || { echo "PATCH FAILED"; rm -rf "$D"; exit 9; }
fi
(cd "$D" && /venv/bin/python -m pytest -q -p no:cacheprovider --timeout=900 --continue-on-collection-errors 2>&1 | tail -1)
HIDC_ROOT="$D" VERIF_EVIDENCE_DIR="$D/evidence" VERIF_OUT_DIR="${MUT_OUT_DIR:-$D/out}" "$@"
rc=$?
rm -rf "$D"
echo "mutrun exit=$rc"
exit $rc
