#!/bin/bash
# tools/runall.sh [quick|thorough] [ids...] : run checks sequentially, print one line each, validate evidence
tier=${1:-quick}; shift
ids=${@:-C01 C02 C03 C04 C05 C06 C07 C08 C09 C10 C11 C12 C13 C14 C15 C16 C17 C18}
for c in $ids; do
  s=$(date +%s)
  out=$(VERIF_TIER=$tier bin/verif check $c 2>&1); rc=$?
  e=$(date +%s)
  echo "$c exit=$rc $((e-s))s $(echo "$out" | grep "^\[$c" | tail -1)"
  [ $rc -ne 0 ] && echo "$out" | grep -v "^\[" | head -6
done
python3-vt - <<'PY'
import json, jsonschema, glob
sch=json.load(open('/root/.vp/EVIDENCE.schema.json'))
for f in sorted(glob.glob('/verif/evidence/*.json')):
    try:
        jsonschema.validate(json.load(open(f)), sch)
    except Exception as e: print(f, 'INVALID', str(e)[:300])
print('evidence validated')
PY
