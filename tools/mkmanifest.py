#!/usr/bin/env python3
"""Regenerates /verif/MANIFEST.json from the table below (kept in one place so it stays valid)."""
import json
import os

V = os.path.dirname(os.path.dirname(os.path.abspath(__file__)))
props = [json.loads(l) for l in open(os.path.join(V, 'properties.jsonl'))]
TB = ('Trusted base: the reconstructed Sphinx machine (hv/asm.py, hv/vm.py; DESIGN section 3, validated by running the repository\'s own '
      'tests/test_codegen.py 52/52 on the spasm shim in setup_cmd), the term library hv/terms.py, z3. div/mod are assumed to round towards '
      'minus infinity. The "programs" quantifier is met by finite, described program families; each member is decided for all inputs by the solver.')

CHECKS = {
    'C01': dict(cat='translation_validation', ref='5 C01', engine='SVM+RI',
                technique='symbolic execution of the emitted assembly on a z3 bit-vector Sphinx VM; per-path equivalence obligations against a source-level reference interpreter',
                text='For every template of the sequential families (hand-written T-seq, entry-point signature matrix, seeded random programs) the real hidc output is executed '
                     'symbolically with all command-line inputs symbolic; z3 decides that on every input the committed output/flag/sleep stream equals that of a reference '
                     'interpreter written from the README. Counterexamples are replayed concretely before being reported.',
                note=TB + ' Overload choice, inserted casts and folded constants are taken from the real front end (they are C07/C11/C14\'s subject).'),
    'C02': dict(cat='translation_validation', ref='5 C02', engine='SVM+RI',
                technique='symbolic execution with Turing-jump back-tracking (z3) vs reference interpreter with chronological choice back-tracking; independent max/sort specifications for the examples',
                text='Time-travel family (every construct, every ordered pair and sampled/all triples of try kinds in one activation, across calls, in loops, exits out of try, preempt and ?? varieties, '
                     'examples with symbolic arrays, random programs): VM events equal the reference interpreter\'s for all inputs; the examples also meet independent specifications.',
                note=TB + ' The reference interpreter\'s chronological back-tracking is the transcription of the README semantics (DESIGN 4.4).'),
    'C03': dict(cat='model_checking', ref='5 C03', engine='SVM',
                technique='reachability of a committed halt on the symbolic Sphinx VM; z3 decides feasibility of every halting path',
                text='No path of the symbolic VM ends in a committed halt: checked builds for all inputs, unchecked builds under the path conditions of the fault-free checked paths; flavour matrix '
                     '(ordinary/defeat/you function and try body x construct x handler kind) plus the time-travel, control-flow, fault and sequential families.',
                note=TB + ' Runs that exhaust the instruction budget are reported as inconclusive, never as passes.'),
    'C04': dict(cat='model_checking', ref='5 C04', engine='SVM',
                technique='symbolic execution at every stack size 0..G with access-region monitors (z3 decides path feasibility) and tight-vs-generous differential obligations',
                text='Each allocation-site template (and slices of the other families) is compiled at every stack size from 0 words upward and executed with all inputs symbolic under a monitor that '
                     'classifies every load/store/jump (frame traffic within [ap, fp), element accesses inside a live array extent or a global, computed jumps to labels). Every non-overflow path must '
                     'equal the generous-stack run (no silent corruption) and stack_overflow must be monotone in the size.',
                note=TB + ' Stack sizes above G (56 words) are not enumerated. Region classification: [fp]-based = frame traffic; library code may use [ap, fp) below its frame.'),
    'C05': dict(cat='translation_validation', ref='5 C05', engine='SVM+RI',
                technique='symbolic execution of emitted assembly (z3) vs reference-interpreter faults, plus explicit fault biconditionals decided by z3',
                text='Fault matrix (division/modulo, index read/write/compound for int/byte/bool arrays in stack/global/const/parameter/argument storage and strings, dynamic lengths per element type, '
                     'return from preemptive defeat functions): faults are raised exactly when the source-level predicate holds, before the faulting operation\'s effects (markers), and terminally.',
                note=TB),
    'C08': dict(cat='model_checking', ref='5 C08', engine='SVM',
                technique='symbolic execution of the emitted assembly (z3) with (fp, ap) equality monitors at loop heads/exits, call returns, stop-handler entry and function return',
                text='On every path of the scope family (arrays x nested blocks x exit routes x symbolic trip counts x calls) the monitors find ap at loop heads/exits equal to ap at loop entry, (fp, ap) after a call '
                     'equal to before it, the stop handler restoring (fp, ap) of try entry, and ap at return equal to ap at entry. "Never released early" is covered by C04\'s tight-stack differential.',
                note=TB + ' Scope boundaries are recognised through the generator\'s label vocabulary (loop_N, break_N, continue_N, end_call_N).'),
    'C09': dict(cat='translation_validation', ref='5 C09', engine='SVM',
                technique='symbolic execution of emitted assembly (z3 bit-vectors, both operands over the whole word) against bit-vector operator specifications written in the harness',
                text='One operator or cast per template, operands free bit-vectors in six storage kinds, result observed as value / branch / !truth_is_defeat / stored / compound assignment, at word sizes 2, 3, 4 (8 in thorough): '
                     'the emitted code yields the specified wrap-around / floor-division / signed-compare / zero-extension / truncation / 0-1 result for every operand value.',
                note=TB),
    'C15': dict(cat='translation_validation', ref='5 C15', engine='SVM',
                technique='differential symbolic execution: the unchecked build is run under the path condition of every fault-free checked path; z3 decides event equality',
                text='For every template, every fault-free path of the checked build is re-executed on the unchecked build under that path\'s condition; events must agree and no halt / unspecified behaviour may be reachable.',
                note=TB),
    'C16': dict(cat='model_checking', ref='5 C16', engine='SVM+RI',
                technique='symbolic execution (z3) with a function-extent fall-through monitor; VM vs reference interpreter for returned values; dropped-code reachability in the reference interpreter',
                text='Control-flow skeleton family: on no path (committed or speculative) does the pc move from one function\'s extent into the next without a taken jump; non-empty functions return the value the '
                     'reference interpreter computes; a block the compiler truncated never completes its last kept statement normally.',
                note=TB + ' Over-rejection ("Missing return statement") is allowed by the property and counted separately.'),
}

NA = {
}

checks = []
for p in props:
    pid = p['id']
    c = CHECKS.get(pid)
    if not c or not os.path.exists(os.path.join(V, 'checks', pid.lower() + '.py')):
        continue
    checks.append(dict(
        property_id=pid,
        quick_cmd='bin/verif check %s' % pid,
        thorough_cmd='VERIF_TIER=thorough bin/verif check %s' % pid,
        evidence_file='/verif/evidence/%s.json' % pid,
        replay_cmd_template='bin/verif replay {path}',
        engine=c['engine'],
        level_claimed=dict(category=c['cat'], text=c['text'], design_ref='DESIGN.md section ' + c['ref']),
        level_note=c['note'],
        technique=c['technique'],
    ))
claimed = {c['property_id'] for c in checks}
na = []
for p in props:
    if p['id'] not in claimed:
        na.append(dict(property_id=p['id'], reason=NA.get(p['id'], 'check under construction in this round (DESIGN.md section 5); not claimed until it runs clean')))
m = dict(
    version=1,
    setup_cmd='bin/verif selftest',
    hooks=dict(guard='HIDC_VERIF', enable='no guarded source hooks exist: every observation is made on the emitted text, on return values or on exceptions',
               baseline_off_cmd='cd /repo && /venv/bin/python -m pytest -ra -q -p no:cacheprovider --timeout=900 --continue-on-collection-errors',
               source_commits=[], add_only=True),
    engines=[
        dict(name='SVM', path='hv/vm.py', serves_properties=['C01', 'C02', 'C03', 'C04', 'C05', 'C08', 'C09', 'C13', 'C14', 'C15', 'C16', 'C17', 'C18'],
             kind_free_text='symbolic Sphinx VM over z3 executing the assembly text emitted by the real hidc'),
        dict(name='RI', path='hv/ri.py', serves_properties=['C01', 'C02', 'C05', 'C16'], kind_free_text='source-level reference interpreter over z3 values (oracle)'),
        dict(name='CH', path='ch/', serves_properties=['C04', 'C06', 'C07', 'C10', 'C11', 'C14'], kind_free_text='CrossHair symbolic execution of hidc Python functions'),
        dict(name='RX', path='hv/rx.py', serves_properties=['C12'], kind_free_text='z3 regular-expression / string theory over the lexer\'s own compiled patterns'),
    ],
    checks=checks,
    not_applicable=na,
    notes='Exit codes of every check: 0 all obligations discharged, 1 replayed violation (VIOLATION line), 2 inconclusive obligations, 3 harness/self-test failure. '
          'Known findings: /verif/known_findings.json. Seeded changes and which checks catch them: /verif/seeded/.',
)
json.dump(m, open(os.path.join(V, 'MANIFEST.json'), 'w'), indent=1)
try:
    import jsonschema
    jsonschema.validate(m, json.load(open('/root/.vp/MANIFEST.schema.json')))
    print('MANIFEST.json valid:', len(checks), 'checks,', len(na), 'not_applicable')
except ImportError:
    print('written (jsonschema not available to validate)')
