#!/usr/bin/env python3
"""Regenerates /verif/MANIFEST.json from the table below (kept in one place so it stays valid)."""
import json
import os

V = os.path.dirname(os.path.dirname(os.path.abspath(__file__)))
props = [json.loads(l) for l in open(os.path.join(V, 'properties.jsonl'))]
TB = ('Trusted base: the reconstructed Sphinx machine (hv/asm.py, hv/vm.py; DESIGN section 3, validated by running the repository\'s own '
      'tests/test_codegen.py 52/52 on the spasm shim in setup_cmd), the term library hv/terms.py, z3. div/mod are assumed to round towards '
      'minus infinity. The "programs" quantifier is met by finite, described program families; each member is decided for all inputs by the solver.')

CHECKS = {
    'C01': dict(cat='translation_validation', ref='5 C01', engine='SVM+RI',
                technique='symbolic execution of the emitted assembly on a z3 bit-vector Sphinx VM; per-path equivalence obligations against a source-level reference interpreter',
                text='For every template of the sequential families (hand-written T-seq, entry-point signature matrix, every operator in every position, the use-site matrix of expression kinds x consuming sites, string-source x index matrix, seeded random programs) the real hidc output is executed '
                     'symbolically with all command-line inputs symbolic; z3 decides that on every input the committed output/flag/sleep stream equals that of a reference '
                     'interpreter written from the README. Counterexamples are replayed concretely before being reported.',
                note=TB + ' Overload choice, inserted casts and folded constants are taken from the real front end (they are C07/C11/C14\'s subject).'),
    'C02': dict(cat='translation_validation', ref='5 C02', engine='SVM+RI',
                technique='symbolic execution with Turing-jump back-tracking (z3) vs reference interpreter with chronological choice back-tracking; independent max/sort specifications for the examples',
                text='Time-travel family (every construct, every ordered pair and sampled/all triples of try kinds in one activation, across calls, in loops, exits out of try, preempt and ?? varieties, '
                     'examples with symbolic arrays, random programs): VM events equal the reference interpreter\'s for all inputs; the examples also meet independent specifications.',
                note=TB + ' The reference interpreter\'s chronological back-tracking is the transcription of the README semantics (DESIGN 4.4).'),
    'C03': dict(cat='model_checking', ref='5 C03', engine='SVM',
                technique='reachability of a committed halt on the symbolic Sphinx VM; z3 decides feasibility of every halting path',
                text='No path of the symbolic VM ends in a committed halt: checked builds for all inputs, unchecked builds under the path conditions of the fault-free checked paths; flavour matrix '
                     '(ordinary/defeat/you function and try body x construct x handler kind) plus the time-travel, control-flow, fault, sequential, operator-position and use-site families.',
                note=TB + ' Runs that exhaust the instruction budget are reported as inconclusive, never as passes.'),
    'C04': dict(cat='model_checking', ref='5 C04', engine='SVM',
                technique='symbolic execution at every stack size 0..G with access-region monitors (z3 decides path feasibility) and tight-vs-generous differential obligations',
                text='Each allocation-site template (and slices of the other families) is compiled at every stack size from 0 words upward and executed with all inputs symbolic under a monitor that '
                     'classifies every load/store/jump (frame traffic within [ap, fp), element accesses inside a live array extent or a global, computed jumps to labels). Every non-overflow path must '
                     'equal the generous-stack run (no silent corruption) and stack_overflow must be monotone in the size.',
                note=TB + ' Above G (56 words) only 500 words and the largest sizes the compiler accepts (16375..16378 words at 16 bit, where state addresses cross the sign bit; 5000 at wider words) are run. Region classification: [fp]-based = frame traffic; library code may use [ap, fp) below its frame.'),
    'C05': dict(cat='translation_validation', ref='5 C05', engine='SVM+RI',
                technique='symbolic execution of emitted assembly (z3) vs reference-interpreter faults, plus explicit fault biconditionals decided by z3',
                text='Fault matrix (division/modulo, index read/write/compound for int/byte/bool arrays in stack/global/const/parameter/argument storage and strings, dynamic lengths per element type, '
                     'return from preemptive defeat functions, faulting operands beside constant logical operands, every kind of index / divisor expression of the use-site matrix): faults are raised exactly when the source-level predicate holds, before the faulting operation\'s effects (markers), and terminally.',
                note=TB),
    'C08': dict(cat='model_checking', ref='5 C08', engine='SVM',
                technique='symbolic execution of the emitted assembly (z3) with (fp, ap) equality monitors at loop heads/exits, call returns, stop-handler entry and function return; VM vs reference-interpreter equivalence (z3) on the scope family for early release',
                text='On every path of the scope family (arrays x nested blocks x exit routes x symbolic trip counts x calls) the monitors find ap at loop heads/exits equal to ap at loop entry, (fp, ap) after a call '
                     'equal to before it, the stop handler restoring (fp, ap) of try entry, and ap at return equal to ap at entry. "Never released early": the scope family (incl. return expressions that allocate while a local array is live) is also decided as VM = reference interpreter for all inputs, since an array released too soon is overwritten by the next allocation; C04\'s tight-stack differential covers the same from the other side.',
                note=TB + ' Scope boundaries are recognised through the generator\'s label vocabulary (loop_N, break_N, continue_N, end_call_N).'),
    'C09': dict(cat='translation_validation', ref='5 C09', engine='SVM',
                technique='symbolic execution of emitted assembly (z3 bit-vectors, both operands over the whole word) against bit-vector operator specifications written in the harness',
                text='One operator or cast per template, operands free bit-vectors in six storage kinds, result observed as value / branch / !truth_is_defeat / stored / compound assignment, at word sizes 2, 3, 4 (8 in thorough): '
                     'the emitted code yields the specified wrap-around / floor-division / signed-compare / zero-extension / truncation / 0-1 result for every operand value.',
                note=TB),
    'C15': dict(cat='translation_validation', ref='5 C15', engine='SVM',
                technique='differential symbolic execution: the unchecked build is run under the path condition of every fault-free checked path; z3 decides event equality',
                text='For every template, every fault-free path of the checked build is re-executed on the unchecked build under that path\'s condition; events must agree and no halt / unspecified behaviour may be reachable (a path that stops at an access with an unenumerable address is decided by replaying solver models of its inputs on both builds).',
                note=TB),
    'C16': dict(cat='model_checking', ref='5 C16', engine='SVM+RI',
                technique='symbolic execution (z3) with a function-extent fall-through monitor and a return-to-caller monitor; VM vs reference interpreter for returned values; dropped-code reachability in the reference interpreter',
                text='Control-flow skeleton family (incl. nested loops, constant-false loops, library routines with boundary arguments): on no path (committed or speculative) does the pc move from one function\'s extent into the next without a taken jump, and every jump through a register goes to the instruction after the call that created the activation (keyed by the callee frame pointer); non-empty functions return the value the '
                     'reference interpreter computes; a block the compiler truncated never completes its last kept statement normally.',
                note=TB + ' Over-rejection ("Missing return statement") is allowed by the property and counted separately.'),

    'C06': dict(cat='proof', ref='5 C06', engine='CH',
                technique='CrossHair symbolic execution (z3) of the real grammar rules on token lists: one nesting step from an arbitrary context, every lemma confirmed over all paths',
                text='For every valid BlockContext, every block construct / expression position and every probe leaf (ordinary, you and defeat calls, try, preempt, ??, break, continue) the real parser rule accepts '
                     'the one-step nesting iff the README table allows it; function-flavour, ??-operand and global-scope lemmas likewise. The lemmas compose by structural induction over nesting (argued in DESIGN.md); '
                     'a depth-3 composition guard through the real lexer and parser runs alongside.',
                note='Token lists stand for source text (lexing is C12). The induction over nesting depth is an argument in DESIGN.md, not a solver result. Trusted: CrossHair/z3, the README table as transcribed in ch/c06_ctx.py.'),
    'C07': dict(cat='proof', ref='5 C07', engine='CH',
                technique='CrossHair symbolic execution (z3) of the typechecker methods on AST objects built from symbolic selectors against a transcription of the README typing rules; rule x position tables enumerated through parse+evaluate',
                text='Coercion lattice, explicit-cast lattice, array-literal inference and const flexibility, nested arrays and overload resolution (exact match first, else first declared coercible; <= 3 overloads, arity <= 2; two calls in a row against one shared program environment: binding is independent of history) '
                     'are confirmed over all paths; every (type x expression kind) in declaration / assignment / cast / argument / return / condition / index position, ~90 rule cases and overload layouts with the caller before, '
                     'between and after the overloads, and ordered pairs of calls of one overloaded name, are compared with an independent transcription (hv/tcspec.py), the binding being read from the checked tree.',
                note='Unit level: one statement / one call per obligation; lifting to whole programs relies on the checker being compositional (argument). Trusted: CrossHair/z3; hv/tcspec.py as the reading of the README.'),
    'C10': dict(cat='other', ref='5 C10', engine='CH',
                technique='CrossHair (z3) on compiler options and on the parser over short token lists; complete enumeration of the typechecker-to-generator interface tables with the strict assembler as acceptance oracle',
                text='PARTIAL: the quantifier "all source strings" is not reachable (the regex lexer cannot be executed symbolically) and is not claimed. Claimed: option handling and parser totality on token lists are confirmed over all paths; '
                     'every program of the C07 rule tables, every operator over operands of every type (incl. calls of empty functions), 31 statement forms x 22 operand kinds (one probe per program) and a set of generator-assertion probes either fails with a located, renderable CompilerError or compiles to text the strict assembler accepts; random text / mutated programs and '
                     'the command-line tool (exit status, stderr, output file) are exercised as auxiliary concrete runs.',
                note='Auxiliary concrete parts are reported separately in the evidence. Trusted: CrossHair/z3, hv/asm.py as the assembler.'),
    'C11': dict(cat='proof', ref='5 C11', engine='CH',
                technique='CrossHair symbolic execution (z3) of the real ps_expr on token lists with symbolic operator selectors vs an independent precedence-climbing parser; exhaustive enumeration of all operator triples',
                text='All 14x14 operator pairs (plain, with unary prefixes, unary before a cast; postfix/cast variants and level-representative triples and round trips in the thorough tier), every kind of primary expression (identifier, int / char / string / bool literal, parenthesised, array literal, call) with every postfix form, and same-level chains of up to 14 operands (left-deep spine) parse to the tree of an independent '
                     'precedence-climbing parser written from the README table; all 14^3 triples x 5 parenthesisations x 5 tree shapes and all pair variants are enumerated completely; depth-6 trees are printed with minimal parentheses '
                     'and re-parsed through the real lexer.',
                note='Grouping decisions of an operator-precedence grammar involve two adjacent operators (argument), which is why pairs and triples are the relevant scope. Trusted: CrossHair/z3; the README table in ch/c11_prec.py.'),
    'C12': dict(cat='other', ref='5 C12', engine='RX+CH',
                technique='z3 regular-expression / string theory on the lexer\'s own compiled patterns (unbounded length); CrossHair on the scanner glue; concrete differentials against a reference tokenizer (auxiliary)',
                text='PARTIAL: decided by the solver for strings of any length: every pattern of readers.py equals the documented grammar; hex/octal/binary literals are never shadowed by the decimal reader; no symbol token prefixes an '
                     'identifier or literal; the symbol list realises longest match; keyword/symbol/escape tables equal the documentation; cursor and span bookkeeping of the scanner glue is confirmed over all paths. The composition of the '
                     'readers in lex() is NOT solver-decided; it is guarded by exhaustive short strings, targeted inputs and re-layout differentials against an independent reference tokenizer (auxiliary).',
                note='ASCII reading of \\d \\w \\s; non-ASCII letters/digits/white space are outside the claim. Trusted: z3 sequence theory, CPython re._parser, hv/lexref.py.'),
    'C13': dict(cat='translation_validation', ref='5 C13', engine='SVM+CH',
                technique='symbolic execution with the payload of every constant replaced by solver symbols (z3); CrossHair on _escape_bytes / pack_bools; every byte value through the real pipeline and the strict assembler',
                text='For strings (local, global, argument, converted) and constant byte/int/bool/string arrays of lengths 0..40 the payload in the assembled data section is replaced by fresh symbols: write emits exactly those symbols in order, '
                     'indexing with a symbolic index returns symbol i (bit i%8 of byte i/8 for bools), lengths are exact and control flow never depends on the contents. Escaping round-trips for every byte and both quote kinds (CrossHair); '
                     'all 256 values, boundary pairs and long strings pass through the real pipeline into the strict assembler and print unchanged; multi-constant programs agree with the reference interpreter.',
                note=TB),
    'C14': dict(cat='translation_validation', ref='5 C14', engine='CH+SVM',
                technique='CrossHair (z3) on the constant folder with symbolic integers; twin programs on the symbolic VM: constant form vs variable form with the literal substituted, decided for every value of the remaining inputs',
                text='Folding of + - * / % comparisons, logic, unary minus and casts equals machine arithmetic for in-range operands and results, is rejected exactly for zero divisors, and preserves byte-coercibility (CrossHair, all paths). '
                     'x OP c, c OP x, const variables, chains with a folded inner part, casts and boolean constants behave like their run-time twins for all x; fully constant expressions agree on a boundary grid. Known finding: folding never wraps '
                     'at the word size (operands/intermediates outside the signed word range), listed in known_findings.json and demonstrated on every run.',
                note=TB + ' The known finding fold-int-no-wrap is excluded by its predicate; every other disagreement is reported.'),
    'C17': dict(cat='translation_validation', ref='5 C17', engine='SVM',
                technique='symbolic execution of the emitted library routines (z3): whole-word decimal specification at 16 bit, per-iteration lemmas on the real routine from symbolic loop states at 24/32/64 bit, stack-size sweep for caller state',
                text='write(int) prints the signed decimal representation for all 65536 values at 16 bit incl. MIN and 0 (the whole-word query at 24 bit is beyond the solvers here: unknown after 40 minutes); at wider words the prologue, one digit-loop iteration and the epilogue of the real routine '
                     'are decided for the whole word from arbitrary symbolic states, plus boundary constants; write(bool/byte/string/byte arrays) and writeln emit exactly the symbolic contents for lengths 0..8 (0..64 thorough); caller locals and arrays '
                     'are unchanged around each call at every stack size.',
                note=TB + ' At 24/32/64 bit the composition of the three lemmas over the <= 20 iterations is an induction on paper.'),
    'C18': dict(cat='translation_validation', ref='5 C18', engine='SVM',
                technique='stack-size sweep and cross-word-size differential on the symbolic VM (z3 decides the equivalence obligations); hash-seed and lint clauses as auxiliary concrete differentials',
                text='PARTIAL: solver-decided: (b) every run that does not overflow equals the generous-stack run at every stack size and overflow is monotone; (c) with sign-extended inputs and under the recorded no-overflow conditions of the narrow run, '
                     'the w and w\' builds (2/3, 2/4; more pairs thorough) emit the same bytes and sign-extended words. Not solver-decidable: (a) byte-identical output across processes/hash seeds and (d) --lint leaves code unchanged are concrete '
                     'differentials in subprocesses, reported separately.',
                note=TB + ' Obligations needing products/quotients of two symbolic operands at two widths are excluded (each width is decided in C09).'),
}

NA = {
}

checks = []
for p in props:
    pid = p['id']
    c = CHECKS.get(pid)
    if not c or not os.path.exists(os.path.join(V, 'checks', pid.lower() + '.py')):
        continue
    checks.append(dict(
        property_id=pid,
        quick_cmd='bin/verif check %s' % pid,
        thorough_cmd='VERIF_TIER=thorough bin/verif check %s' % pid,
        evidence_file='/verif/evidence/%s.json' % pid,
        replay_cmd_template='bin/verif replay {path}',
        engine=c['engine'],
        level_claimed=dict(category=c['cat'], text=c['text'], design_ref='DESIGN.md section ' + c['ref']),
        level_note=c['note'],
        technique=c['technique'],
    ))
claimed = {c['property_id'] for c in checks}
na = []
for p in props:
    if p['id'] not in claimed:
        na.append(dict(property_id=p['id'], reason=NA.get(p['id'], 'check under construction in this round (DESIGN.md section 5); not claimed until it runs clean')))
m = dict(
    version=1,
    setup_cmd='bin/verif selftest',
    hooks=dict(guard='HIDC_VERIF', enable='no guarded source hooks exist: every observation is made on the emitted text, on return values or on exceptions',
               baseline_off_cmd='cd /repo && /venv/bin/python -m pytest -ra -q -p no:cacheprovider --timeout=900 --continue-on-collection-errors',
               source_commits=[], add_only=True),
    engines=[
        dict(name='SVM', path='hv/vm.py', serves_properties=['C01', 'C02', 'C03', 'C04', 'C05', 'C08', 'C09', 'C13', 'C14', 'C15', 'C16', 'C17', 'C18'],
             kind_free_text='symbolic Sphinx VM over z3 executing the assembly text emitted by the real hidc'),
        dict(name='RI', path='hv/ri.py', serves_properties=['C01', 'C02', 'C05', 'C16'], kind_free_text='source-level reference interpreter over z3 values (oracle)'),
        dict(name='CH', path='ch/', serves_properties=['C04', 'C06', 'C07', 'C10', 'C11', 'C14'], kind_free_text='CrossHair symbolic execution of hidc Python functions'),
        dict(name='RX', path='hv/rx.py', serves_properties=['C12'], kind_free_text='z3 regular-expression / string theory over the lexer\'s own compiled patterns'),
    ],
    checks=checks,
    not_applicable=na,
    notes='Exit codes of every check: 0 all obligations discharged, 1 replayed violation (VIOLATION line), 2 inconclusive obligations, 3 harness/self-test failure. '
          'Known findings: /verif/known_findings.json. Seeded changes and which checks catch them: /verif/seeded/.',
)
json.dump(m, open(os.path.join(V, 'MANIFEST.json'), 'w'), indent=1)
try:
    import jsonschema
    jsonschema.validate(m, json.load(open('/root/.vp/MANIFEST.schema.json')))
    print('MANIFEST.json valid:', len(checks), 'checks,', len(na), 'not_applicable')
except ImportError:
    print('written (jsonschema not available to validate)')
