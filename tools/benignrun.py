#!/usr/bin/env python3
"""run the checks of the affected area against behaviour-preserving changes (benign/<id>/patch.diff): every check must stay quiet (exit 0).
tools/benignrun.py [-j N] [ids...]   results are merged into benign/results.json"""
import json, os, subprocess, sys, time
from concurrent.futures import ThreadPoolExecutor
V = os.path.dirname(os.path.dirname(os.path.abspath(__file__)))
args = sys.argv[1:]
J = 4
if args and args[0] == '-j':
    J = int(args[1]); args = args[2:]
CHECKS = {'B1-b1': ['C10', 'C11', 'C06', 'C01'], 'B1-b2': ['C12', 'C10'], 'B1-b3': ['C11', 'C06', 'C10'],
          'B2-b1': ['C09', 'C01', 'C02', 'C14', 'C16', 'C05'], 'B2-b2': ['C07', 'C01'], 'B2-b3': ['C07', 'C09', 'C14'],
          'B3-b1': ['C01', 'C02', 'C08', 'C16'], 'B3-b2': ['C01', 'C02', 'C03', 'C16', 'C04', 'C15'], 'B3-b3': ['C04', 'C05', 'C15', 'C01', 'C18'],
          'B4-b1': ['C13', 'C10', 'C17'], 'B4-b2': ['C17', 'C04', 'C16', 'C03', 'C18'], 'B4-b3': ['C10', 'C18']}
ids = args or sorted(d for d in os.listdir(os.path.join(V, 'benign')) if os.path.isdir(os.path.join(V, 'benign', d)))
jobs = [(b, c) for b in ids for c in CHECKS[b]]
def run(job):
    b, c = job
    t = time.time()
    env = dict(os.environ, VERIF_PROCS=str(max(2, 16 // J)))
    r = subprocess.run([os.path.join(V, 'tools/mutrun.sh'), os.path.join(V, 'benign', b, 'patch.diff'), os.path.join(V, 'bin/verif'), 'check', c],
                       capture_output=True, text=True, env=env, cwd=V)
    out = r.stdout + r.stderr
    summ = [l for l in out.splitlines() if l.startswith('[' + c)]
    bad = [l for l in out.splitlines() if l.startswith(('VIOLATION', 'HARNESS-ERROR', 'INCONCLUSIVE'))][:5]
    return b, c, r.returncode, (summ[-1] if summ else out[-300:]), bad, round(time.time() - t, 1)
rp = os.path.join(V, 'benign', 'results.json')
try:
    res = json.load(open(rp))
except Exception:
    res = {}
with ThreadPoolExecutor(J) as ex:
    for b, c, rc, summ, bad, wall in ex.map(run, jobs):
        res.setdefault(b, {})[c] = dict(exit=rc, quiet=(rc == 0), summary=summ, wall_s=wall, lines=bad)
        print(b, c, 'exit', rc, 'quiet' if rc == 0 else 'ALARM', wall, 's', '|', summ[:140], bad[:2])
        sys.stdout.flush()
        json.dump(res, open(rp, 'w'), indent=1, sort_keys=True)
