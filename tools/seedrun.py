#!/usr/bin/env python3
"""run checks against seeded mutants: tools/seedrun.py [-j N] <check ids, comma separated | own> [mutant ids...]
'own' = the check of the property the mutant was seeded for.  Results are merged into seeded/results.json"""
import json, os, subprocess, sys, time
from concurrent.futures import ThreadPoolExecutor
V = os.path.dirname(os.path.dirname(os.path.abspath(__file__)))
args = sys.argv[1:]
J = 3
if args[0] == '-j':
    J = int(args[1]); args = args[2:]
checks = args[0]
muts = args[1:] or sorted(os.listdir(os.path.join(V, 'seeded')))
muts = [m for m in muts if os.path.isdir(os.path.join(V, 'seeded', m)) and os.path.exists(os.path.join(V, 'seeded', m, 'patch.diff'))]
jobs = []
for m in muts:
    cs = [m.split('-')[0]] if checks == 'own' else checks.split(',')
    for c in cs:
        if os.path.exists(os.path.join(V, 'checks', c.lower() + '.py')):
            jobs.append((m, c))
def run(job):
    m, c = job
    t = time.time()
    env = dict(os.environ, VERIF_PROCS=str(max(2, 16 // J)))
    r = subprocess.run([os.path.join(V, 'tools/mutrun.sh'), os.path.join(V, 'seeded', m, 'patch.diff'), os.path.join(V, 'bin/verif'), 'check', c],
                       capture_output=True, text=True, env=env, cwd=V)
    out = r.stdout + r.stderr
    viol = [l for l in out.splitlines() if l.startswith('VIOLATION')]
    summ = [l for l in out.splitlines() if l.startswith('[' + c)]
    return m, c, r.returncode, len(viol), (summ[-1] if summ else out[-300:]), round(time.time() - t, 1)
res_path = os.path.join(V, 'seeded', 'results.json')
try:
    res = json.load(open(res_path))
except Exception:
    res = {}
with ThreadPoolExecutor(J) as ex:
    for m, c, rc, nv, summ, wall in ex.map(run, jobs):
        res.setdefault(m, {})[c] = dict(exit=rc, detected=(rc == 1), summary=summ, wall_s=wall)
        print(m, c, 'exit', rc, 'DETECTED' if rc == 1 else 'missed' if rc == 0 else 'other', wall, 's', '|', summ[:160])
        sys.stdout.flush()
json.dump(res, open(res_path, 'w'), indent=1, sort_keys=True)
