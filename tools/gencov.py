#!/usr/bin/env python3
"""Which lines of the compiler do the program families reach?  (sys.settrace over one compile of every template)"""
import os, sys, dis, collections
sys.path.insert(0, os.path.dirname(os.path.dirname(os.path.abspath(__file__))))
from hv import hidc as H
from hv import families as F
ROOT = os.path.realpath(os.environ.get('HIDC_ROOT', '/repo'))
hits = collections.defaultdict(set)
def tracer(frame, event, arg):
    fn = frame.f_code.co_filename
    if not fn.startswith(ROOT):
        return None
    if event == 'line':
        hits[fn].add(frame.f_lineno)
    return tracer
sys.path.insert(0, os.path.join(os.path.dirname(os.path.dirname(os.path.abspath(__file__))), 'checks'))
cases = (F.seq_enumerated() + F.entry_matrix() + F.time_enumerated('thorough') + F.time_examples() + F.cf_enumerated() + F.fault_templates() + F.scope_templates()
         + F.alloc_templates() + F.seq_random(0, 100) + F.time_random(0, 60) + F.cf_random(0, 100))
import c03, c17
cases += c03.flavour_matrix() + c17.write_templates(2, [0, 1, 3], True)
sys.settrace(tracer)
n = 0
for c in cases:
    for unchecked in (False, True):
        try:
            H.compile_src(c.src, 2, 64, unchecked)
            n += 1
        except H.CompilerError:
            pass
sys.settrace(None)
print('compiled', n)
for rel in ('hidc/codegen/generator.py', 'hidc/codegen/asm.py', 'hidc/codegen/tracker.py', 'hidc/ast/expressions.py', 'hidc/ast/operators.py', 'hidc/ast/statements.py', 'hidc/ast/blocks.py', 'hidc/ast/program.py'):
    fn = os.path.join(ROOT, rel)
    import ast as pyast
    src = open(fn).read()
    # executable lines = lines that start a statement
    lines = set()
    for fn_node in pyast.walk(pyast.parse(src)):
        if isinstance(fn_node, (pyast.FunctionDef, pyast.AsyncFunctionDef)):
            for node in pyast.walk(fn_node):
                if isinstance(node, pyast.stmt) and node is not fn_node and not isinstance(node, (pyast.FunctionDef, pyast.ClassDef, pyast.Import, pyast.ImportFrom)):
                    lines.add(node.lineno)
    missed = sorted(l for l in lines if l not in hits[fn])
    text = src.splitlines()
    print('%s: %d/%d statement lines reached' % (rel, len(lines) - len(missed), len(lines)))
    for l in missed:
        t = text[l - 1].strip()
        if t.startswith(('raise ', 'assert ', 'pass', '"""', 'return NotImplemented')) or 'InternalCompilerError' in t:
            continue
        print('   %4d  %s' % (l, t[:110]))
