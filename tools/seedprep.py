#!/usr/bin/env python3
"""Prepares one seeding round for fresh sub-agents: tools/seedprep.py <round-dir> <first-index> [ids...]
For every property: <round-dir>/<ID>/{wt (git worktree of /repo HEAD), out/, property.txt, prompt.md}.  The prompt contains
only the property text, the machine description and the titles of the changes already seeded for that property -- nothing
else from /verif."""
import json
import os
import re
import subprocess
import sys

V = os.path.dirname(os.path.dirname(os.path.abspath(__file__)))
root, first = sys.argv[1], int(sys.argv[2])
ids = sys.argv[3:]
props = [json.loads(l) for l in open(os.path.join(V, 'properties.jsonl')) if l.strip()]
tmpl = open(os.path.join(V, 'tools', 'seedprompt.md')).read()
os.makedirs(root, exist_ok=True)
for p in props:
    pid = p['id']
    if ids and pid not in ids:
        continue
    d = os.path.join(root, pid)
    os.makedirs(os.path.join(d, 'out'), exist_ok=True)
    if not os.path.exists(os.path.join(d, 'wt')):
        subprocess.check_call(['git', '-C', '/repo', 'worktree', 'add', '-q', '--detach', os.path.join(d, 'wt'), 'HEAD'])
    text = 'Property %s — %s\n\nStatement: %s\n\nQuantified over: %s\n' % (pid, p.get('title', ''), p.get('statement', ''), (p.get('quantifier') or {}).get('text', ''))
    open(os.path.join(d, 'property.txt'), 'w').write(text)
    tried = []
    S = os.path.join(V, 'seeded')
    for m in sorted(os.listdir(S)):
        if m.startswith(pid + '-') and os.path.exists(os.path.join(S, m, 'notes.md')):
            lines = [l.strip() for l in open(os.path.join(S, m, 'notes.md')).read().splitlines() if l.strip()]
            tried.append('- ' + ' '.join(lines[:4])[:330])
    a, b = 'm%d' % first, 'm%d' % (first + 1)
    out = tmpl.replace('@DIR@', d).replace('@PID@', pid).replace('@PROPERTY@', text).replace('@TRIED@', '\n'.join(tried) or '(none)')
    out = out.replace('@MA@', a).replace('@MB@', b)
    open(os.path.join(d, 'prompt.md'), 'w').write(out)
    print(pid, d)
