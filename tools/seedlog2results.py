#!/usr/bin/env python3
"""merge seedrun log lines (printed by tools/seedrun.py) into seeded/results.json: tools/seedlog2results.py <log>..."""
import json, os, re, sys
V = os.path.dirname(os.path.dirname(os.path.abspath(__file__)))
rp = os.path.join(V, 'seeded', 'results.json')
res = json.load(open(rp))
n = 0
for f in sys.argv[1:]:
    for l in open(f):
        m = re.match(r'(C\d\d-m\d+) (C\d\d) exit (\d+) (DETECTED|missed|other) ([\d.]+) s \| (.*)', l.rstrip('\n'))
        if m:
            mu, c, rc, _, wall, summ = m.groups()
            res.setdefault(mu, {})[c] = dict(exit=int(rc), detected=(rc == '1'), summary=summ, wall_s=float(wall))
            n += 1
json.dump(res, open(rp, 'w'), indent=1, sort_keys=True)
print('merged', n)
