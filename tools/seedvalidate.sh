#!/bin/bash
# usage: tools/seedvalidate.sh <dir-with-patch.diff-and-demo.py>
# confirms: patch applies to /repo HEAD, 45 pinned tests pass with it, demo exits 0 without and non-zero with the patch
set -u
S="$1"
W=$(mktemp -d /tmp/seedv.XXXXXX)
git -C /repo worktree add -q --detach "$W/wt" HEAD || exit 9
cd "$W/wt"
/venv/bin/python "$S/demo.py" >/dev/null 2>&1; clean=$?
if ! git apply "$S/patch.diff" 2>/dev/null; then echo "RESULT $S patch-does-not-apply"; cd /; git -C /repo worktree remove --force "$W/wt"; rm -rf "$W"; exit 1; fi
tests=$(/venv/bin/python -m pytest -q -p no:cacheprovider --timeout=900 --continue-on-collection-errors 2>&1 | tail -1)
/venv/bin/python "$S/demo.py" >/dev/null 2>&1; mut=$?
cd /
git -C /repo worktree remove --force "$W/wt"; rm -rf "$W"
echo "RESULT $S clean_demo_exit=$clean mutant_demo_exit=$mut tests='$tests'"
