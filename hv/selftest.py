"""Trusted-base self-test (DESIGN §3): run once by MANIFEST.setup_cmd and by the thorough tiers.
1. the repository's own tests/test_codegen.py, unmodified, on the spasm-compatible shim over the verification VM;
2. the term library against mathematical integer semantics, decided by z3 at 8 bits;
3. README transcripts on the VM.
Exit 0 if everything holds, 3 otherwise (a harness error, never a property verdict)."""
import os
import subprocess
import sys

VERIF = os.path.dirname(os.path.dirname(os.path.abspath(__file__)))
ROOT = os.environ.get('HIDC_ROOT', '/repo')


def shim_tests():
    env = dict(os.environ, PYTHONPATH=os.path.join(VERIF, 'shim') + ':' + ROOT, PYTHONDONTWRITEBYTECODE='1')
    r = subprocess.run(['/venv/bin/python', '-m', 'pytest', '-q', '-p', 'no:cacheprovider', 'tests/test_codegen.py'],
                       cwd=ROOT, env=env, capture_output=True, text=True)
    tail = (r.stdout.strip().splitlines() or ['?'])[-1]
    print('shim: tests/test_codegen.py ->', tail)
    return r.returncode == 0 and ' passed' in tail and 'failed' not in tail


def terms_tests():
    """the concrete fast path of the term library is compared with Python integer semantics exhaustively at
    8 bits; the symbolic formulas are then proved equal to the concrete ones' defining properties by z3"""
    import itertools
    import z3
    from .terms import Terms
    T = Terms(1)
    ok = True
    for x, y in itertools.product(range(256), repeat=2):
        sx, sy = T.signed(x), T.signed(y)
        exp = {'add': sx + sy, 'sub': sx - sy, 'mul': sx * sy, 'and': x & y, 'or': x | y, 'xor': x ^ y}
        if y:
            exp['div'] = sx // sy
            exp['mod'] = sx % sy
        if y < 8:
            exp['asl'] = sx << y
            exp['asr'] = sx >> y
        for op, v in exp.items():
            if T.arith(op, x, y) != v & 255:
                print('terms: concrete %s wrong at %d, %d' % (op, x, y))
                ok = False
        cm = {'eq': sx == sy, 'ne': sx != sy, 'lt': sx < sy, 'gt': sx > sy, 'le': sx <= sy, 'ge': sx >= sy,
              'ltu': x < y, 'gtu': x > y, 'leu': x <= y, 'geu': x >= y}
        for op, v in cm.items():
            if T.cmp(op, x, y) != v:
                print('terms: concrete cmp %s wrong at %d, %d' % (op, x, y))
                ok = False
    print('terms: concrete fast path == Python integers, exhaustively at 8 bits:', 'ok' if ok else 'FAILED')
    # symbolic floor division: q, r with a = b*q + r (no wrap: checked in 16 bits), r = 0 or sign(r) = sign(b), |r| < |b|
    a, b = z3.BitVecs('a b', 8)
    q, r = T.arith('div', a, b), T.arith('mod', a, b)
    A, B, Q, R = (z3.SignExt(8, v) for v in (a, b, q, r))
    absv = lambda v: z3.If(v < 0, -v, v)
    claim = z3.And(A == B * Q + R, z3.Or(R == 0, (R < 0) == (B < 0)), absv(R) < absv(B))
    s = z3.Solver()
    s.add(b != 0, z3.Not(z3.And(a == -128, b == -1)), z3.Not(claim))
    res = s.check()
    print('terms: symbolic div/mod satisfy the floor-division characterisation at 8 bits:', 'ok' if res == z3.unsat else 'FAILED ' + str(res))
    ok = ok and res == z3.unsat
    s = z3.Solver()
    s.add(a == -128, b == -1, z3.Not(z3.And(q == -128, r == 0)))      # the wrapping corner
    res = s.check()
    ok = ok and res == z3.unsat
    return ok


def readme_tests():
    from .run import run_concrete
    from .terms import events_bytes
    ok = True
    progs = [
        ('stop', 'empty @is_you() {\n try {\n writeln("> try block");\n !is_defeat();\n } stop {\n writeln("> stop block");\n }\n}\n', b'> try block\n> stop block\n', ['win'], 'done'),
        ('undo', 'empty @is_you() {\n try {\n writeln("> try block");\n !is_defeat();\n } undo {\n writeln("> undo block");\n }\n}\n', b'> undo block\n', ['win'], 'done'),
        ('halting', 'empty @is_you() {\n try {\n writeln("The loop runs forever");\n while (true) {}\n !is_defeat();\n } undo {\n writeln("The loop terminates");\n }\n}\n', b'The loop runs forever\n', [], 'diverge'),
        ('baba', 'empty !baba() {\n if (false) { preempt {} }\n}\nempty @is_you() {\n try {\n !baba();\n !is_defeat();\n } undo {}\n}\n', b'', ['nonlocal_preempt', 'error'], 'done'),
    ]
    for name, src, out, flags, kind in progs:
        p = run_concrete(src, stack=100)
        b, f, _ = events_bytes(p.events)
        good = (b == out and f == flags and p.kind == kind)
        print('readme: %-8s %s' % (name, 'ok' if good else 'FAILED got %r %r %s' % (b, f, p.kind)))
        ok = ok and good
    hello = open(os.path.join(ROOT, 'examples', 'hello.hid')).read()
    p = run_concrete(hello, stack=100)
    b, f, _ = events_bytes(p.events)
    good = b == b'Hello world!\nSome numbers: 1 2 3 4 5 6 7 8 9 10\n' and f == ['win']
    print('readme: hello    %s' % ('ok' if good else 'FAILED %r' % b))
    return ok and good


def main():
    ok = True
    for f in (shim_tests, terms_tests, readme_tests):
        try:
            ok = f() and ok
        except Exception as e:      # noqa: BLE001
            print('selftest %s crashed: %s: %s' % (f.__name__, type(e).__name__, e))
            ok = False
    print('SELFTEST', 'OK' if ok else 'FAILED')
    return 0 if ok else 3


if __name__ == '__main__':
    sys.exit(main())
