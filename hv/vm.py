"""Sphinx VM: concrete and symbolic execution of assembled hidc output (DESIGN §3, §4.2, §4.3).

Values are Python ints (fast path) or z3 bit-vectors.  Memory is a byte dict with lazy
word-granular cells ('w', term, k) = byte k of word term, so a word that is stored and
loaded again comes back as the identical term.

Turing jump `j t`: a snapshot with pc := t is pushed on the choice stack and execution
continues with the fall-through.  When a path halts, the newest snapshot is resumed under
the halting path's condition; everything the halting future emitted is discarded.  A halt
with an empty choice stack is a committed halt.

Path results: Path(kind, conds, events, info, m)
  kind in: 'done' (reached flag win/error), 'diverge' (exact state repetition on one timeline),
           'halt' (committed halt), 'bound' (instruction budget), 'unspecified' (ISA-unspecified
           behaviour reachable), 'unknown' (solver gave up), 'violation' (a monitor objected)
"""
import time
from collections import namedtuple

from .terms import Terms, isc, Inconclusive, z3
from .asm import AsmError

Path = namedtuple('Path', 'kind conds events info m')


class Unspecified(Exception):
    pass


class Violation(Exception):
    def __init__(self, what, **info):
        super().__init__(what)
        self.what = what
        self.info = info


class St:
    __slots__ = ('pc', 'mem', 'evl', 'nev', 'choices', 'steps', 'seen', 'm', 'prev_pc')

    @property
    def ev(self):
        out = []
        c = self.evl
        while c is not None:
            out.append(c[1])
            c = c[0]
        out.reverse()
        return tuple(out)

    def emit(self, e):
        self.evl = (self.evl, e)
        self.nev += 1

    def copy(self):
        s = St()
        s.pc = self.pc
        s.mem = dict(self.mem)
        s.evl = self.evl
        s.nev = self.nev
        s.choices = self.choices
        s.steps = self.steps
        s.seen = self.seen
        s.m = dict(self.m) if self.m is not None else None
        s.prev_pc = self.prev_pc
        return s


HCOND = {'heq': 'eq', 'hne': 'ne', 'hlt': 'lt', 'hgt': 'gt', 'hle': 'le', 'hge': 'ge',
         'hltu': 'ltu', 'hgtu': 'gtu', 'hleu': 'leu', 'hgeu': 'geu'}
ARITH = ('add', 'sub', 'mul', 'div', 'mod', 'and', 'or', 'xor', 'asl', 'asr')


class VM:
    def __init__(self, prog, max_steps=20000, timeout_ms=20000, addr_cap=16, monitor=None,
                 sym_prefix='', stack_garbage=False, total_steps=None, deadline=None, max_paths=3000, concretize_dests=(), stop_pcs=()):
        self.P = prog
        self.T = Terms(prog.word)
        self.W = prog.word
        self.B = 8 * self.W
        self.M = (1 << self.B) - 1
        self.max_steps = max_steps
        self.total_steps = total_steps
        self.deadline = deadline
        self.max_paths = max_paths
        self.concretize_dests = set(concretize_dests)
        self.stop_pcs = set(stop_pcs)      # fragment execution: reaching one of these (after the first step) ends the path
        self.addr_cap = addr_cap
        self.mon = monitor
        self.sym_prefix = sym_prefix
        self.solver = None
        self.timeout_ms = timeout_ms
        self.nq = 0
        self.tq = 0.0
        self.nsteps = 0
        self.nforks = 0
        self.inputs = {}          # arg name -> list of values (ints or BVs); strings: list of lists of bytes
        self.data_syms = {}       # (section, addr) -> symbol, when payloads are re-bound (C13)
        self.stack_garbage = stack_garbage
        self.layout()
        self.code_label_addrs = {a for (s, a) in prog.labels.values() if s == 'code'}

    # ---------- solver
    def _solver(self):
        if self.solver is None:
            self.solver = z3.Solver()
            self.solver.set('timeout', self.timeout_ms)
        return self.solver

    def feasible(self, conds, extra=None):
        s = self._solver()
        t = time.time()
        s.push()
        for c in conds:
            s.add(c)
        if extra is not None:
            s.add(extra)
        r = s.check()
        s.pop()
        self.nq += 1
        self.tq += time.time() - t
        if r == z3.unknown:
            raise Inconclusive('solver unknown')
        return r == z3.sat

    def values_of(self, expr, conds):
        out = []
        s = self._solver()
        s.push()
        for c in conds:
            s.add(c)
        t = time.time()
        while len(out) <= self.addr_cap:
            self.nq += 1
            r = s.check()
            if r == z3.unknown:
                s.pop()
                raise Inconclusive('solver unknown')
            if r != z3.sat:
                break
            v = s.model().eval(expr, True).as_long()
            out.append(v)
            s.add(expr != v)
        s.pop()
        self.tq += time.time() - t
        return out

    def model(self, conds):
        s = self._solver()
        s.push()
        for c in conds:
            s.add(c)
        r = s.check()
        self.nq += 1
        m = s.model() if r == z3.sat else None
        s.pop()
        if r == z3.unknown:
            raise Inconclusive('solver unknown')
        return m

    # ---------- memory images
    def layout(self):
        P, W = self.P, self.W
        self.const = {}
        self.state = {}
        self.sizes = dict(P.size)
        for sec, mem in (('const', self.const), ('state', self.state)):
            for it in P.items[sec]:
                addr, k = it[0], it[1]
                if k == 'word':
                    self.put(mem, addr, it[-1], W)
                elif k == 'byte':
                    self.put(mem, addr, it[-1], 1)
                elif k == 'zero':
                    pass
                elif k == 'bytes':
                    for i, b in enumerate(it[2]):
                        mem[addr + i] = b
                elif k == 'arg':
                    self.bind_arg(mem, *it)
        if self.stack_garbage:
            a0, a1 = P.label_addr('stack_start'), P.label_addr('stack_end')
            # only the .zero part: the entry frame (args + RA) sits right below stack_end
            for it in P.items['state']:
                if it[1] == 'zero' and it[0] == a0:
                    for a in range(a0, a0 + it[2]):
                        self.state[a] = z3.BitVec('%sgarb_%d' % (self.sym_prefix, a), 8)

    def bind_arg(self, mem, addr, _k, name, fmt, params, spec):
        W = self.W
        pre = self.sym_prefix
        if fmt in ('word', 'byte'):
            n = W if fmt == 'word' else 1
            vals = spec.get('values')
            out = []
            for i in range(spec['n']):
                if vals is not None:
                    v = vals[i] & ((1 << (8 * n)) - 1)
                else:
                    v = z3.BitVec('%s%s_%d' % (pre, name, i), 8 * n)
                out.append(v)
                self.put(mem, addr, v, n)
                addr += n
            self.inputs[name] = out
            return
        if fmt == 'asciip':
            vals = spec.get('values')
            strs = []
            for i, ln in enumerate(spec['lens']):
                if vals is not None:
                    strs.append(list(vals[i]))
                else:
                    strs.append([z3.BitVec('%s%s_%d_%d' % (pre, name, i, k), 8) for k in range(ln)])
            self.inputs[name] = strs
            if 'array' in params:
                base = addr
                addr += W * len(strs)
                for i, s in enumerate(strs):
                    self.put(mem, base + i * W, addr, W)
                    self.put(mem, addr, len(s), W)
                    addr += W
                    for b in s:
                        mem[addr] = b
                        addr += 1
                return
            s = strs[0]
            self.put(mem, addr, len(s), W)
            addr += W
            for b in s:
                mem[addr] = b
                addr += 1
            return
        raise AsmError(fmt)

    def rebind_data(self, section, addr, n, width, name):
        """replace n data cells (width 1 or W bytes each) at addr by fresh symbols (C13)"""
        mem = self.const if section == 'const' else self.state
        out = []
        for i in range(n):
            v = z3.BitVec('%s_%d' % (name, i), 8 * width)
            self.put(mem, addr + i * width, v, width)
            out.append(v)
        return out

    def put(self, mem, addr, v, n):
        if isc(v):
            v &= (1 << (8 * n)) - 1
            for k in range(n):
                mem[addr + k] = (v >> (8 * k)) & 0xFF
        elif n == 1:
            mem[addr] = self.T.byte_of(v)
        else:
            for k in range(n):
                mem[addr + k] = ('w', v, k)

    def get(self, mem, addr, n, size, what='load'):
        if addr < 0 or addr + n > size:
            raise Unspecified('%s outside section at %d' % (what, addr))
        if n == 1:
            b = mem.get(addr, 0)
            if isinstance(b, tuple):
                b = self.T.simp(z3.Extract(8 * b[2] + 7, 8 * b[2], b[1]))
            return b
        bs = [mem.get(addr + k, 0) for k in range(n)]
        b0 = bs[0]
        if isinstance(b0, tuple):
            t = b0[1]
            if t.size() == 8 * n and all(isinstance(b, tuple) and b[2] == k and b[1] is t for k, b in enumerate(bs)):
                return t
        if all(isc(b) for b in bs):
            return sum(b << (8 * k) for k, b in enumerate(bs))
        bs = [self.T.simp(z3.Extract(8 * b[2] + 7, 8 * b[2], b[1])) if isinstance(b, tuple) else b for b in bs]
        if all(isc(b) for b in bs):
            return sum(b << (8 * k) for k, b in enumerate(bs))
        t = self.T.Z(bs[0], 8)
        for b in bs[1:]:
            t = z3.Concat(self.T.Z(b, 8), t)
        return self.T.simp(t)

    # ---------- helpers for harnesses
    def word_at(self, st, label, off=0):
        return self.get(st.mem, self.P.label_addr(label) + off, self.W, self.sizes['state'])

    def mem_key(self, st):
        items = []
        for k, v in st.mem.items():
            if isc(v):
                if v:
                    items.append((k, v))
            elif isinstance(v, tuple):
                items.append((k, v[1].hash(), v[2]))
            else:
                items.append((k, v.hash(), -1))
        return hash(frozenset(items))

    # ---------- run
    def initial_state(self, entry=0):
        st = St()
        st.pc = entry
        st.mem = dict(self.state)
        st.evl = None
        st.nev = 0
        st.choices = ()
        st.steps = 0
        st.seen = frozenset()
        st.m = self.mon.init(self) if self.mon is not None else None
        st.prev_pc = None
        return st

    def run(self, assumptions=(), entry=0, init=None):
        st = init if init is not None else self.initial_state(entry)
        self.results = []
        work = [(st, tuple(assumptions))]
        while work:
            st, conds = work.pop()
            conds = list(conds)
            if len(self.results) >= self.max_paths or (self.deadline is not None and time.time() > self.deadline):
                self.results.append(Path('bound', conds, (), 'path/deadline budget of the run exhausted with %d pending states' % (len(work) + 1), None))
                break
            try:
                self.explore(st, conds, work)
            except Unspecified as e:
                self.results.append(Path('unspecified', self._c, self._st.ev, str(e), self._st.m))
            except Violation as e:
                extra = e.info.pop('_conds', None)
                if extra:
                    self._c = list(self._c) + list(extra)
                self.results.append(Path('violation', self._c, self._st.ev, dict(e.info, what=e.what, pc=self._st.pc,
                                         instr=str(self.P.code[self._st.pc]) if 0 <= self._st.pc < len(self.P.code) else None), self._st.m))
            except Inconclusive as e:
                self.results.append(Path('unknown', self._c, self._st.ev, str(e), self._st.m))
        return self.results

    def opval(self, st, a):
        if a.kind == 'imm':
            return a.val
        if a.kind == 'state':
            return self.get(st.mem, a.val, self.W, self.sizes['state'])
        return self.get(self.const, a.val, self.W, self.sizes['const'])

    def resolve_addr(self, st, conds, addr, work, ins=None, kind=None, n=0, limit=None):
        """concrete address; forks on the other feasible values of a symbolic address"""
        if isc(addr):
            return addr, conds
        vals = self.values_of(addr, conds)
        if not vals:
            raise Unspecified('infeasible path at address resolution')
        if len(vals) > self.addr_cap:
            if self.mon is not None and kind is not None:
                # too many values to enumerate: let the monitor ask the solver for one outside the permitted regions
                self.mon.wide(self, st, ins, kind, addr, n, conds)
            if limit is not None:
                # ... and without a monitor: is some value outside the section altogether?  Then the path condition is narrowed to
                # such a value, so that the model handed to the replay is an input that really performs the wild access.
                out = z3.UGT(addr, z3.BitVecVal(max(limit - n, 0), self.B)) if limit >= n else z3.BoolVal(True)
                if self.feasible(conds, out):
                    self._c = list(conds) + [out]
                    self.wide = (addr, list(conds))
                    raise Unspecified('access outside its section: the address has more than %d feasible values, some of them beyond the section (%d bytes)' % (self.addr_cap, limit))
            self.wide = (addr, list(conds))
            raise Unspecified('address has more than %d feasible values' % self.addr_cap)
        for v in vals[1:]:
            self.nforks += 1
            work.append((st.copy(), tuple(conds + [addr == v])))
        return vals[0], conds + [addr == vals[0]]

    def explore(self, st, conds, work):
        P, W, B, M, T = self.P, self.W, self.B, self.M, self.T
        code = P.code
        ncode = len(code)
        res = self.results
        mon = self.mon
        ssize = self.sizes['state']
        csize = self.sizes['const']
        # conditions already decided on this path (z3 terms are hash-consed: equal terms have equal ids)
        true_ids, false_ids = set(), set()
        for c0 in conds:
            if c0 is True or c0 is False:
                continue
            true_ids.add(c0.get_id())
            if z3.is_not(c0):
                false_ids.add(c0.arg(0).get_id())
        while True:
            self._st, self._c = st, conds
            if st.steps > self.max_steps:
                res.append(Path('bound', conds, st.ev, st.pc, st.m))
                return
            if self.total_steps is not None and self.nsteps > self.total_steps:
                res.append(Path('bound', conds, st.ev, 'total step budget', st.m))
                return
            if self.deadline is not None and (self.nsteps & 1023) == 0 and time.time() > self.deadline:
                res.append(Path('bound', conds, st.ev, 'deadline', st.m))
                return
            if self.stop_pcs and st.steps > 0 and st.pc in self.stop_pcs:
                res.append(Path('stop', conds, st.ev, (st.pc, st.mem, len(st.choices)), st.m))
                return
            st.steps += 1
            self.nsteps += 1
            pc = st.pc
            if not (0 <= pc < ncode):
                raise Unspecified('pc %d outside code' % pc)
            ins = code[pc]
            op = ins.op
            A = ins.args
            if mon is not None:
                mon.step(self, st, pc, ins, conds)
            st.prev_pc = pc
            if op[0] == 'h':
                if op == 'halt':
                    c = True
                else:
                    c = T.cmp(HCOND[op], self.opval(st, A[0]), self.opval(st, A[1]))
                if c is not True and c is not False:
                    cid = c.get_id()
                    if cid in true_ids:
                        c = True
                    elif cid in false_ids:
                        c = False
                if c is True:
                    can_halt, can_cont = True, False
                elif c is False:
                    can_halt, can_cont = False, True
                else:
                    can_halt = self.feasible(conds, c)
                    can_cont = self.feasible(conds, z3.Not(c)) if can_halt else True
                    if not can_halt:
                        false_ids.add(cid)
                    elif not can_cont:
                        true_ids.add(cid)
                if can_halt:
                    hconds = conds if c is True else conds + [c]
                    if c is not True and not can_cont:
                        true_ids.add(cid)
                    if not st.choices:
                        res.append(Path('halt', hconds, st.ev, pc, st.m))
                    else:
                        snap = st.choices[-1]
                        ns = snap.copy()
                        ns.steps = st.steps
                        if mon is not None:
                            mon.rewind(self, st, ns)
                        # the jump of this snapshot is now taken.  Runs-forever detection: exact repetition of
                        # (pc, memory) at a taken backward jump on one timeline (the visited set is part of the
                        # snapshot, so it is restored on rewind)
                        dv = None
                        if ns.pc <= ns.prev_pc:
                            mk = self.mem_key(ns)
                            key = (ns.pc, mk, ns.nev)
                            if key in ns.seen:
                                dv = 'diverge'
                            elif (ns.pc, mk) in ns.seen:
                                dv = 'diverge-output'      # same machine state, more output: repeats for ever
                            else:
                                ns.seen = ns.seen | {key, (ns.pc, mk)}
                        if dv is not None:
                            res.append(Path(dv, hconds, ns.ev, ns.pc, ns.m))
                            if not can_cont:
                                return
                        elif can_cont:
                            self.nforks += 1
                            work.append((ns, tuple(hconds)))
                        else:
                            st = ns
                            conds = hconds
                            continue
                if can_cont:
                    if c is not False:
                        conds = conds + [z3.Not(c)]
                        false_ids.add(cid)
                    st.pc = pc + 1
                    continue
                return
            if op == 'j':
                tgt = self.opval(st, A[0])
                tgt, conds = self.resolve_addr(st, conds, tgt, work)
                if not (0 <= tgt < ncode):
                    raise Unspecified('jump target %d outside code' % tgt)
                if mon is not None:
                    mon.jump(self, st, ins, tgt, A[0])
                snap = st.copy()
                snap.pc = tgt
                st.choices = st.choices + (snap,)
                st.pc = pc + 1
                continue
            if op == 'flag':
                st.emit(('flag', A[0]))
                if A[0] in ('win', 'error'):
                    res.append(Path('done', conds, st.ev, A[0], st.m))
                    return
                st.pc = pc + 1
                continue
            if op == 'yield':
                st.emit(('out', T.byte_of(self.opval(st, A[0]))))
                st.pc = pc + 1
                continue
            if op == 'sleep':
                st.emit(('sleep', self.opval(st, A[0])))
                st.pc = pc + 1
                continue
            if op == 'mov':
                v = self.opval(st, A[1])
                if not isc(v) and A[0].val in self.concretize_dests:
                    v, conds = self.resolve_addr(st, conds, v, work)
                    self._c = conds
                if mon is not None:
                    mon.dest_write(self, st, ins, A[0].val, v)
                self.put(st.mem, A[0].val, v, W)
                st.pc = pc + 1
                continue
            if op in ARITH:
                l, r = self.opval(st, A[1]), self.opval(st, A[2])
                if op in ('div', 'mod'):
                    if isc(r):
                        if r == 0:
                            raise Unspecified('division by zero')
                    elif self.feasible(conds, T.Z(r) == 0):
                        raise Unspecified('division by zero feasible')
                elif op in ('asl', 'asr'):
                    if isc(r):
                        if r >= B:
                            raise Unspecified('shift amount %d' % r)
                    elif self.feasible(conds, z3.UGE(T.Z(r), B)):
                        raise Unspecified('shift amount out of range feasible')
                v = T.arith(op, l, r)
                if mon is not None:
                    mon.arith(self, st, ins, op, l, r, v)
                if not isc(v) and A[0].val in self.concretize_dests:
                    v, conds = self.resolve_addr(st, conds, v, work)
                    self._c = conds
                if mon is not None:
                    mon.dest_write(self, st, ins, A[0].val, v)
                self.put(st.mem, A[0].val, v, W)
                st.pc = pc + 1
                continue
            if op[0] == 'l':
                n = W if op[1] == 'w' else 1
                addr = self.opval(st, A[1])
                if len(op) == 4:
                    addr = T.arith('add', addr, self.opval(st, A[2]))
                addr, conds = self.resolve_addr(st, conds, addr, work, ins, 'load' if op[2] == 's' else None, n, limit=ssize if op[2] == 's' else csize)
                self._c = conds
                if op[2] == 's':
                    if mon is not None:
                        mon.access(self, st, ins, 'load', addr, n)
                    v = self.get(st.mem, addr, n, ssize)
                else:
                    v = self.get(self.const, addr, n, csize)
                if n == 1:
                    v = T.zext(v)
                if not isc(v) and A[0].val in self.concretize_dests:
                    v, conds = self.resolve_addr(st, conds, v, work)
                    self._c = conds
                if mon is not None:
                    mon.dest_write(self, st, ins, A[0].val, v)
                self.put(st.mem, A[0].val, v, W)
                st.pc = pc + 1
                continue
            if op[0] == 's':
                n = W if op[1] == 'w' else 1
                addr = self.opval(st, A[0])
                if len(op) == 4:
                    addr = T.arith('add', addr, self.opval(st, A[1]))
                addr, conds = self.resolve_addr(st, conds, addr, work, ins, 'store', n, limit=ssize)
                self._c = conds
                if addr < 0 or addr + n > ssize:
                    raise Unspecified('store outside state section at %d' % addr)
                v = self.opval(st, A[-1])
                if mon is not None:
                    mon.access(self, st, ins, 'store', addr, n)
                self.put(st.mem, addr, v, n)
                st.pc = pc + 1
                continue
            raise AsmError('unknown op ' + op)

    # ---------- concrete convenience
    def run_concrete(self):
        r = self.run()
        if len(r) != 1:
            raise RuntimeError('concrete run produced %d paths' % len(r))
        return r[0]


class Monitor:
    """base monitor: all hooks are no-ops.  Per-path monitor state lives in st.m (a dict whose
    values must be immutable: it is shallow-copied with every snapshot)."""

    def init(self, vm):
        return {}

    def step(self, vm, st, pc, ins, conds):
        pass

    def access(self, vm, st, ins, kind, addr, n):
        pass

    def dest_write(self, vm, st, ins, dest, value):
        pass

    def jump(self, vm, st, ins, tgt, operand):
        pass

    def rewind(self, vm, st, snap):
        pass

    def arith(self, vm, st, ins, op, l, r, v):
        pass

    def wide(self, vm, st, ins, kind, addr, n, conds):
        pass


class Monitors(Monitor):
    def __init__(self, *ms):
        self.ms = ms

    def init(self, vm):
        d = {}
        for m in self.ms:
            d.update(m.init(vm))
        return d

    def step(self, vm, st, pc, ins, conds):
        for m in self.ms:
            m.step(vm, st, pc, ins, conds)

    def access(self, vm, st, ins, kind, addr, n):
        for m in self.ms:
            m.access(vm, st, ins, kind, addr, n)

    def dest_write(self, vm, st, ins, dest, value):
        for m in self.ms:
            m.dest_write(vm, st, ins, dest, value)

    def jump(self, vm, st, ins, tgt, operand):
        for m in self.ms:
            m.jump(vm, st, ins, tgt, operand)

    def rewind(self, vm, st, snap):
        for m in self.ms:
            m.rewind(vm, st, snap)

    def arith(self, vm, st, ins, op, l, r, v):
        for m in self.ms:
            m.arith(vm, st, ins, op, l, r, v)

    def wide(self, vm, st, ins, kind, addr, n, conds):
        for m in self.ms:
            m.wide(vm, st, ins, kind, addr, n, conds)
