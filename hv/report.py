"""Check result collection: evidence file, violation replay files, known findings, exit codes.

Exit codes (DESIGN §4.7): 0 all obligations of the claimed scope discharged; 1 a replayed violation
that known_findings.json does not list; 2 inconclusive obligations in the claimed scope;
3 harness / trusted-base self-test failure or a counterexample that does not replay.
"""
import json
import os
import sys
import time

VERIF = os.path.dirname(os.path.dirname(os.path.abspath(__file__)))
KNOWN = os.path.join(VERIF, 'known_findings.json')


def tier():
    t = os.environ.get('VERIF_TIER', 'quick')
    return 'thorough' if t == 'thorough' else 'quick'


def seed():
    try:
        return int(os.environ.get('VERIF_SEED', '0'))
    except ValueError:
        return 0


def load_known(pid):
    try:
        d = json.load(open(KNOWN))
    except FileNotFoundError:
        return []
    return [f for f in d.get('findings', []) if f.get('property') == pid]


class Report:
    def __init__(self, pid, level, technique):
        self.pid = pid
        self.level = level
        self.technique = technique
        self.t0 = time.time()
        self.tier = tier()
        self.seed = seed()
        self.violations = []        # dicts with replay info (already replayed)
        self.nonreplaying = []      # counterexamples that did not reproduce -> harness error
        self.inconclusive = []
        self.harness_errors = []
        self.known_seen = {}        # finding id -> description
        self.known = load_known(pid)
        self.samples = []
        self.cov = {}
        self.assumptions = []
        self.counts = dict(evaluations=0, distinct_nontrivial=0, obligations=0, discharged=0,
                           paths=0, queries=0, solver_s=0.0, instructions=0)
        self.functions_encoded = []
        self.bounds = {}
        self.explanation = ''
        self.rule = ''
        self.distinct_keys = set()

    # ---- accumulation
    def add_stats(self, d):
        for k_from, k_to in (('paths', 'paths'), ('queries', 'queries'), ('steps', 'instructions'),
                             ('obligations', 'obligations'), ('discharged', 'discharged')):
            self.counts[k_to] += d.get(k_from, 0)
        self.counts['solver_s'] += d.get('solver_s', 0.0)

    def absorb(self, r):
        """merge the verdict lists of one worker result (violations, inconclusive, harness errors)"""
        for v in r.get('violations', []):
            self.violation(v)
        self.inconclusive += r.get('inconclusive', [])
        self.harness_errors += r.get('harness_errors', [])

    def sample(self, s, limit=12):
        if len(self.samples) < limit:
            self.samples.append(s)

    def violation(self, v):
        """v: dict(what=..., replay={...}, finding_key=optional)"""
        for k in self.known:
            if k.get('key') and v.get('finding_key') == k['key']:
                self.known_seen[k['key']] = k.get('what', '')
                return
        self.violations.append(v)

    def known_finding_seen(self, key, what=None):
        for k in self.known:
            if k.get('key') == key:
                self.known_seen[key] = what or k.get('what', '')

    # ---- finish
    def finish(self, extra_cov=None):
        wall = time.time() - self.t0
        evdir = os.environ.get('VERIF_EVIDENCE_DIR') or os.path.join(VERIF, 'evidence')
        os.makedirs(evdir, exist_ok=True)
        vdir = os.path.join(os.environ.get('VERIF_OUT_DIR') or os.path.join(VERIF, 'out'), 'violations', self.pid)
        paths = []
        if self.violations:
            os.makedirs(vdir, exist_ok=True)
            for old in os.listdir(vdir):
                if old.startswith(self.tier + '_'):
                    os.unlink(os.path.join(vdir, old))
            for i, v in enumerate(self.violations[:25]):
                p = os.path.join(vdir, '%s_%d.json' % (self.tier, i))
                v = dict(v, property=self.pid)
                with open(p, 'w') as f:
                    json.dump(v, f, indent=1, default=str)
                paths.append(p)
        c = self.counts
        cov = dict(
            evaluations=c['evaluations'],
            distinct_nontrivial=max(c['distinct_nontrivial'], len(self.distinct_keys)),
            rule=self.rule,
            samples=self.samples or ['(no sample recorded)'],
            obligations=c['obligations'],
            discharged=c['discharged'],
            paths=c['paths'],
            solver_queries=c['queries'],
            solver_s=round(c['solver_s'], 2),
            instructions_executed_symbolically=c['instructions'],
            functions_encoded=self.functions_encoded,
            bounds=self.bounds,
            technique=self.technique,
            explanation=self.explanation,
            inconclusive=self.inconclusive[:40],
            inconclusive_by_template=_by_template(self.inconclusive),
            n_inconclusive=len(self.inconclusive),
            harness_errors=self.harness_errors[:20],
            known_findings_seen=sorted(self.known_seen),
            violation_files=paths,
            repo_head=_repo_head(),
            checker_cmd='bin/verif check %s' % self.pid,
            trusted_base=['z3 (python3-vt wheel)', 'hv/asm.py + hv/vm.py: reconstructed Sphinx machine (DESIGN section 3), '
                          'validated by tests/test_codegen.py 52/52 on the spasm shim', 'hv/terms.py term library'],
        )
        cov.update(self.cov)
        if extra_cov:
            cov.update(extra_cov)
        ev = dict(property_id=self.pid, tier=self.tier, seed=self.seed, level=self.level, coverage=cov,
                  assumptions=self.assumptions, wall_s=round(wall, 2), violations=len(self.violations))
        with open(os.path.join(evdir, self.pid + '.json'), 'w') as f:
            json.dump(ev, f, indent=1, default=str)
        for key, what in sorted(self.known_seen.items()):
            print('KNOWN-FINDING: property=%s %s: %s' % (self.pid, key, what))
        for p in paths:
            print('VIOLATION property=%s replay=%s' % (self.pid, p))
        if len(self.violations) > len(paths):
            print('(%d further violations not written out)' % (len(self.violations) - len(paths)))
        print('[%s %s] obligations=%d discharged=%d paths=%d queries=%d solver=%.1fs inconclusive=%d violations=%d wall=%.1fs'
              % (self.pid, self.tier, c['obligations'], c['discharged'], c['paths'], c['queries'], c['solver_s'],
                 len(self.inconclusive), len(self.violations), wall))
        if self.violations:
            code = 1
        elif self.harness_errors or self.nonreplaying:
            for h in (self.harness_errors + self.nonreplaying)[:10]:
                print('HARNESS-ERROR: %s' % (h,))
            code = 3
        elif self.inconclusive:
            for h in self.inconclusive[:10]:
                print('INCONCLUSIVE: %s' % (h,))
            code = 2
        else:
            code = 0
        sys.stdout.flush()
        return code


def _by_template(items):
    d = {}
    for x in items:
        k = str(x).split(':')[0][:80]
        d[k] = d.get(k, 0) + 1
    return dict(sorted(d.items(), key=lambda kv: -kv[1])[:20])


def _repo_head():
    try:
        from .hidc import repo_head
        return repo_head()
    except Exception:
        return 'unknown'
