"""Equivalence of VM paths with oracle cases, decided by z3 (DESIGN §2.1):
   for all i, j:  phi_i /\\ psi_j /\\ (E_i != E'_j)  unsat.
Counterexamples are turned into concrete command lines and replayed on the concrete VM
(and on the oracle evaluated concretely) before they are reported."""
from .terms import events_differ_cond, fmt_events, isc, z3, Inconclusive
from .harness import model_argv, argv_for_compiled, jsonable_argv, conc_events, run_concrete_case

TERMINAL_OK = ('done', 'diverge')


def path_summary(p):
    return '%s[%s]' % (p.kind, fmt_events(p.events))


def compare(dec, built, paths, cases, stats, what='vm-vs-oracle', bound_handled_by_caller=False):
    """paths: VM Path list; cases: list of (conds, events, kind) with kind 'done' | 'diverge'.
    returns (mismatches, inconclusive) where a mismatch is dict(model_argv=..., vm=..., oracle=...)"""
    T = dec.T
    mism = []
    inconc = []
    vm = built.vm
    for p in paths:
        if p.kind == 'bound' and bound_handled_by_caller:
            continue
        if p.kind in ('bound', 'unknown'):
            inconc.append('%s: VM path %s: %s' % (built.case.name, p.kind, p.info))
            continue
        if p.kind in ('halt', 'unspecified', 'violation'):
            # a reachable committed halt / unspecified behaviour / monitor objection: violation by itself
            stats.obligations += 1
            try:
                m = dec.check(p.conds)
            except Inconclusive as e:
                inconc.append('%s: %s' % (built.case.name, e))
                continue
            if m is None:
                stats.discharged += 1
                continue
            mism.append(dict(kind=p.kind, info=p.info, argv=model_argv(vm, m), vm=path_summary(p), oracle=None))
            continue
        for (oc, oev, okind) in cases:
            stats.obligations += 1
            kind_differs = (p.kind != okind)
            if p.kind == 'diverge-output' and okind == 'diverge-output':
                # both sides repeat output for ever; the detection points differ, compare the common prefix
                n = min(len(p.events), len(oev))
                d = events_differ_cond(T, p.events[:n], oev[:n])
            else:
                d = True if kind_differs else events_differ_cond(T, p.events, oev)
            if d is None:
                stats.discharged += 1
                stats.syntactic += 1
                continue
            conj = list(p.conds) + list(oc)
            if d is not True:
                conj.append(d)
            try:
                m = dec.check(conj)
            except Inconclusive as e:
                inconc.append('%s: %s (vm %s / oracle %s)' % (built.case.name, e, fmt_events(p.events, 8), fmt_events(oev, 8)))
                continue
            if m is None:
                stats.discharged += 1
                continue
            mism.append(dict(kind='mismatch', argv=model_argv(vm, m), vm=path_summary(p),
                             oracle='%s[%s]' % (okind, fmt_events(oev)), info=None))
    return mism, inconc


def covered(dec, paths, cases, stats, name=''):
    """the oracle cases and the VM paths must each cover the whole input space (no input lost):
    not (\\/ conds) unsat.  Returns list of inconclusive/violation strings (empty = fine)."""
    out = []
    for label, sets in (('vm', [p.conds for p in paths]), ('oracle', [c[0] for c in cases])):
        stats.obligations += 1
        disj = []
        trivially = False
        for cs in sets:
            cs = [c for c in cs if c is not True]
            if not cs:
                trivially = True
                break
            disj.append(z3.And(*cs) if len(cs) > 1 else cs[0])
        if trivially:
            stats.discharged += 1
            stats.syntactic += 1
            continue
        try:
            m = dec.check([z3.Not(z3.Or(*disj))] if disj else [])
        except Inconclusive as e:
            out.append('%s: coverage of %s paths: %s' % (name, label, e))
            continue
        if m is None:
            stats.discharged += 1
        else:
            out.append('%s: %s paths do not cover the input space (model %s)' % (name, label, m))
    return out
