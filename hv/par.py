"""Process-parallel task runner: one solver per process, per-task wall limit, results are plain dicts."""
import multiprocessing as mp
import os
import signal
import time
import traceback


class TaskTimeout(Exception):
    pass


def _alarm(signum, frame):
    raise TaskTimeout()


def _run_one(args):
    func, task, limit = args
    if isinstance(task, dict) and task.get('limit'):
        limit = task['limit']
    t0 = time.time()
    if limit:
        signal.signal(signal.SIGALRM, _alarm)
        signal.alarm(int(limit))
    try:
        r = func(task)
        if not isinstance(r, dict):
            r = {'result': r}
    except TaskTimeout:
        r = {'inconclusive': ['task wall limit %ss exceeded' % limit]}
    except Exception as e:      # noqa: BLE001 - a crashing task is a harness error, reported as such
        r = {'harness_errors': ['%s: %s\n%s' % (type(e).__name__, e, traceback.format_exc()[-1500:])]}
    finally:
        if limit:
            signal.alarm(0)
    r.setdefault('name', getattr(task, 'name', None) or (task.get('name') if isinstance(task, dict) else str(task)[:60]))
    r['wall'] = round(time.time() - t0, 3)
    return r


def pmap(func, tasks, procs=None, limit=None, chunksize=1):
    """run func over tasks in forked worker processes; yields results as they complete"""
    procs = procs or int(os.environ.get('VERIF_PROCS', '0')) or min(16, os.cpu_count() or 1)
    tasks = list(tasks)
    if procs <= 1 or len(tasks) <= 1:
        for t in tasks:
            yield _run_one((func, t, limit))
        return
    ctx = mp.get_context('fork')
    with ctx.Pool(min(procs, len(tasks)), maxtasksperchild=50) as pool:
        for r in pool.imap_unordered(_run_one, [(func, t, limit) for t in tasks], chunksize):
            yield r
