"""Generic worker: one Case -> VM paths vs reference-interpreter cases, counterexamples replayed concretely."""
import time

from . import hidc as H
from .harness import (Case, build, Stats, Decider, argv_for_compiled, jsonable_argv, conc_events, model_argv)
from .equiv import compare, covered
from .ri import oracle_cases, RI, ri_args
from .terms import Inconclusive, fmt_events, isc, z3
from .vm import Path


def case_to_task(c, **extra):
    d = dict(src=c.src, word=c.word, stack=c.stack, unchecked=c.unchecked, arrays=c.arrays, name=c.name, lint=c.lint)
    if 'random' in c.name:
        import os
        d['limit'] = 45 if os.environ.get('VERIF_TIER', 'quick') != 'thorough' else 300      # wall budget of one sampled program
    d.update(extra)
    return d


def task_to_case(t):
    return Case(t['src'], word=t['word'], stack=t['stack'], unchecked=t['unchecked'], arrays=t['arrays'], name=t['name'], lint=t.get('lint', False))


def concrete_ri(compiled, argv, W, checked=True, max_loop=2000):
    """run the reference interpreter on one concrete command line -> (kind, events)"""
    from .asm import assemble
    from .harness import conc_argspec
    from .vm import VM
    prog = assemble(compiled.lines, conc_argspec(compiled, argv))
    vm = VM(prog)   # only to obtain vm.inputs in the same shape as the symbolic run
    ri = RI(compiled.ast, compiled.env, W, ri_args(compiled, vm.inputs, W), checked=checked, max_loop=max_loop, max_calls=200)
    from .ri import preemptive_functions, parsed_block_counts
    ri.preemptive = preemptive_functions(compiled.src)
    ri.parsed_counts = parsed_block_counts(compiled.src)
    res = ri.run_all()
    if len(res) != 1:
        return 'multiple', ()
    kind, conds, ev = res[0]
    return kind, ev


def mentions_uninit(ev):
    for e in ev:
        if e[0] != 'flag' and not isc(e[1]) and 'uninit' in str(e[1]):
            return True
    return False


def check_case(task):
    """returns dict(name, status, violations, inconclusive, harness_errors, stats, ...)"""
    t0 = time.time()
    case = task_to_case(task)
    res = dict(name=case.name, violations=[], inconclusive=[], harness_errors=[], excluded=0, status='ok')
    st = Stats()
    try:
        compiled = H.compile_src(case.src, case.word, case.stack, case.unchecked, case.lint)
    except H.CompilerError as e:
        res['status'] = 'rejected'
        res['reject'] = '%s: %s' % (type(e).__name__, e)
        if not task.get('allow_reject'):
            res['harness_errors'].append('template %s does not compile: %s' % (case.name, res['reject']))
        return res
    monitor = task.get('monitor')
    if isinstance(monitor, str):
        import importlib
        mod, _, cls = monitor.rpartition('.')
        monitor = getattr(importlib.import_module(mod), cls)()
    elif monitor is not None:
        monitor = monitor()
    deadline = time.time() + task.get('vm_wall', 120)
    b = build(case, compiled=compiled, max_steps=task.get('max_steps', 20000), monitor=monitor, deadline=deadline,
              stack_garbage=task.get('stack_garbage', False))
    paths = b.vm.run()
    st.add_vm(b.vm, paths)
    res['path_kinds'] = sorted({p.kind for p in paths})
    res['npaths'] = len(paths)
    try:
        cases, inc, ri = oracle_cases(compiled, b.vm.inputs, case.word, checked=not case.unchecked,
                                      max_loop=task.get('ri_max_loop', 64))
    except Inconclusive as e:
        res['inconclusive'].append('%s: %s' % (case.name, e))
        res['stats'] = st.as_dict()
        return res
    st.queries += ri.nq
    st.solver_s += ri.tq
    res['ncases'] = len(cases)
    res['inconclusive'] += ['%s: %s' % (case.name, x) for x in inc]
    dec = Decider(case.word)
    # RI 'halt' cases: the source-level semantics says the program would halt (a defeat nobody averts);
    # accepted programs never do that (C03), so an RI halt is itself reported by compare() as mismatch vs VM.
    vm_ok = [p for p in paths]
    ok_cases = [c for c in cases if c[2] != 'undefined']
    mism, inconc = compare(dec, b, vm_ok, ok_cases, st, bound_handled_by_caller=True)
    res['inconclusive'] += inconc
    st.queries += dec.nq
    st.solver_s += dec.tq
    if not res['inconclusive']:
        res['inconclusive'] += covered(dec, [p for p in paths], cases, st, case.name)
    res['witness'] = fmt_events(paths[0].events, 10) if paths else ''
    for m in mism:
        if m['oracle'] is not None and 'uninit' in m['oracle']:
            res['excluded'] += 1
            continue
        argv = argv_for_compiled(compiled, m['argv'], case.word)
        v = replay(case, compiled, argv, m)
        if v is None:
            res['harness_errors'].append('counterexample did not replay: %s argv=%s vm=%s oracle=%s' % (case.name, argv, m['vm'], m['oracle']))
        else:
            res['violations'].append(v)
    # budget-exhausted VM paths: decide by concrete replay with ten times the budget
    for p in paths:
        if p.kind == 'bound':
            v = None
            try:
                mdl = dec.check(p.conds)
                if mdl is not None:
                    argv = argv_for_compiled(compiled, model_argv(b.vm, mdl), case.word)
                    v = replay(case, compiled, argv, dict(kind='bound', vm='bound', oracle=None, info=p.info), max_steps=10 * task.get('max_steps', 20000))
            except Inconclusive:
                pass
            if v is not None:
                res['violations'].append(v)
            else:
                res['inconclusive'].append('%s: VM path exhausted its budget (%s) and the replay did not decide it' % (case.name, p.info))
    res['stats'] = st.as_dict()
    res['wall'] = time.time() - t0
    return res


def replay(case, compiled, argv, m, max_steps=400000):
    """concrete VM vs concrete RI on one command line; returns a violation dict if they differ, else None"""
    b = build(case, argv=argv, compiled=compiled, max_steps=max_steps)
    r = b.vm.run()
    p = r[0] if len(r) == 1 else Path('multiple', [], (), None, None)
    kind, ev = concrete_ri(compiled, argv, case.word, checked=not case.unchecked)
    got = conc_events(p.events)
    exp = conc_events(ev)
    same = (p.kind == kind and got == exp)
    if kind in ('bound', 'multiple', 'undefined') and p.kind in ('bound',):
        return None
    if same:
        return None
    if any((not isinstance(x[1], (int, str))) for x in exp):
        return None     # oracle output depends on an uninitialised value: undefined by the README
    what = 'compiled program differs from the source semantics'
    if kind == 'dropped-code-reached':
        what = 'the compiler discarded code as unreachable that the source semantics reaches on this input'
    elif p.kind == 'halt':
        what = 'compiled program halts (committed halt)'
    elif p.kind == 'unspecified':
        what = 'compiled program reaches ISA-unspecified behaviour: %s' % p.info
    elif p.kind == 'bound':
        what = 'compiled program does not terminate within ten times the budget while the source semantics terminates'
    return dict(what=what, case=case.name, symbolic_vm=m.get('vm'), symbolic_oracle=m.get('oracle'),
                replay=dict(type='vm-events', src=case.src, word=case.word, stack=case.stack, unchecked=case.unchecked,
                            argv=jsonable_argv(argv), expected=[exp], expected_kind=kind,
                            observed=dict(kind=p.kind, events=got, info=str(p.info)), max_steps=max_steps))
