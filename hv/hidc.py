"""Access to the real compiler under $HIDC_ROOT (default /repo): always imported from the
current working tree, never copied."""
import os
import sys

ROOT = os.environ.get('HIDC_ROOT', '/repo')
if ROOT not in sys.path:
    sys.path.insert(0, ROOT)
sys.dont_write_bytecode = True

from hidc.lexer import SourceCode, lex            # noqa: E402
from hidc.parser import parse                     # noqa: E402
from hidc.ast import Environment                  # noqa: E402
from hidc.codegen import CodeGen                  # noqa: E402
from hidc.errors import CompilerError             # noqa: E402
import hidc as _hidc                              # noqa: E402

_where = os.path.realpath(list(_hidc.__path__)[0])
assert _where.startswith(os.path.realpath(ROOT)), 'hidc imported from %s, expected under %s' % (_where, ROOT)


class Compiled:
    __slots__ = ('src', 'lines', 'env', 'ast', 'word', 'stack', 'unchecked')


def compile_src(src, word=2, stack=64, unchecked=False, lint=False):
    """parse -> evaluate -> CodeGen -> gen_lines with the real hidc; raises CompilerError"""
    c = Compiled()
    c.src = src
    c.env = Environment.empty(unreachable_error=lint)
    c.ast = parse(SourceCode.from_string(src)).evaluate(c.env)
    cg = CodeGen(c.env, word, stack, unchecked)
    c.lines = list(cg.gen_lines())
    c.word, c.stack, c.unchecked = word, stack, unchecked
    return c


def repo_head():
    import subprocess
    try:
        h = subprocess.run(['git', '-C', ROOT, 'rev-parse', 'HEAD'], capture_output=True, text=True).stdout.strip()
        d = subprocess.run(['git', '-C', ROOT, 'status', '--porcelain'], capture_output=True, text=True).stdout.strip()
        return h + ('+dirty' if d else '')
    except Exception:
        return 'unknown'
