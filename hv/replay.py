"""bin/verif replay <violation.json>: re-run a recorded counterexample against the real hidc in /repo."""
import json
import sys

from .harness import Case, run_concrete_case, unjson_argv, conc_events


def main():
    v = json.load(open(sys.argv[1]))
    r = v.get('replay', {})
    t = r.get('type')
    print('property:', v.get('property'), '-', v.get('what'))
    if t == 'vm-events':
        case = Case(r['src'], word=r['word'], stack=r['stack'], unchecked=r.get('unchecked', False))
        argv = unjson_argv(r['argv'])
        print(r['src'])
        print('options: word=%d stack=%d unchecked=%s argv=%s' % (r['word'], r['stack'], r.get('unchecked'), argv))
        p = run_concrete_case(case, argv, max_steps=r.get('max_steps', 400000))
        got = dict(kind=p.kind, events=conc_events(p.events), info=str(p.info))
        print('observed now :', got['kind'], got['events'], got['info'])
        print('recorded     :', r.get('observed'))
        print('expected     :', r.get('expected'))
        exp = r.get('expected')
        bad = True
        if exp:
            bad = [list(map(list, e)) for e in [got['events']]] != [[list(x) for x in exp[0]]]
        print('REPRODUCED' if bad else 'NOT REPRODUCED (behaviour now matches the expectation)')
        return 1 if bad else 0
    if t == 'python':
        import importlib
        mod = importlib.import_module(r['module'])
        return getattr(mod, r['func'])(*r.get('args', []))
    print('unknown replay type', t)
    return 3


if __name__ == '__main__':
    sys.exit(main())
