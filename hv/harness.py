"""Template harness: compile a HiD source with the real hidc, assemble it with a symbolic or
concrete argument model, run it on the VM, turn solver models into concrete command lines."""
import time

from . import hidc as H
from .asm import assemble, AsmError
from .vm import VM
from .terms import Terms, isc, z3, Inconclusive, events_differ_cond, fmt_events


class Case:
    """One program under one configuration.

    arrays: entry-parameter name -> element count (int / byte arrays) or list of string lengths
            (string, string[]); scalar int/byte parameters need no entry.
    """

    def __init__(self, src, word=2, stack=64, unchecked=False, arrays=None, name=None, lint=False):
        self.src = src
        self.word = word
        self.stack = stack
        self.unchecked = unchecked
        self.arrays = dict(arrays or {})
        self.name = name or ''
        self.lint = lint

    def with_(self, **kw):
        c = Case(self.src, self.word, self.stack, self.unchecked, self.arrays, self.name, self.lint)
        for k, v in kw.items():
            setattr(c, k, v)
        return c

    def opts(self):
        return dict(word=self.word, stack=self.stack, unchecked=self.unchecked, arrays=self.arrays)


def entry_params(compiled):
    from hidc.lexer.tokens import Ident
    f = compiled.env.funcs[Ident.you('is_you')]
    (decl,) = f.values()
    return decl.params


def sym_argspec(compiled, arrays):
    from hidc.ast import ArrayType, DataType
    spec = {}
    for p in entry_params(compiled):
        t = p.var.type
        n = p.var.name
        if isinstance(t, ArrayType):
            if t.el_type == DataType.STRING:
                spec[n] = {'lens': list(arrays.get(n, []))}
            else:
                spec[n] = {'n': int(arrays.get(n, 0))}
        elif t == DataType.STRING:
            ln = arrays.get(n, [0])
            spec[n] = {'lens': [ln] if isinstance(ln, int) else list(ln)}
        else:
            spec[n] = {'n': 1}
    return spec


def conc_argspec(compiled, argv):
    """argv: dict param name -> int | list[int] | bytes | list[bytes]"""
    from hidc.ast import ArrayType, DataType
    spec = {}
    for p in entry_params(compiled):
        t = p.var.type
        n = p.var.name
        v = argv[n]
        if isinstance(t, ArrayType):
            if t.el_type == DataType.STRING:
                spec[n] = {'values': [bytes(x) for x in v]}
                if not v:
                    spec[n] = {'values': [], 'lens': [], 'n': 0}
            else:
                spec[n] = {'values': [int(x) for x in v], 'n': len(v)}
        elif t == DataType.STRING:
            spec[n] = {'values': [bytes(v)]}
        else:
            spec[n] = {'values': [int(v)]}
    return spec


class Built:
    pass


def build(case, argv=None, monitor=None, max_steps=20000, timeout_ms=20000, sym_prefix='', addr_cap=16,
          stack_garbage=False, compiled=None, total_steps=None, deadline=None, concretize_ap=False, max_paths=3000):
    b = Built()
    b.case = case
    b.compiled = compiled or H.compile_src(case.src, case.word, case.stack, case.unchecked, case.lint)
    spec = conc_argspec(b.compiled, argv) if argv is not None else sym_argspec(b.compiled, case.arrays)
    b.prog = assemble(b.compiled.lines, spec)
    b.vm = VM(b.prog, max_steps=max_steps, timeout_ms=timeout_ms, monitor=monitor, sym_prefix=sym_prefix,
              addr_cap=addr_cap, stack_garbage=stack_garbage, total_steps=total_steps, deadline=deadline, max_paths=max_paths,
              concretize_dests=({b.prog.label_addr('ap')} if concretize_ap else ()))
    return b


def model_argv(vm, model):
    """solver model -> dict param name -> concrete value(s) (the replay command line)"""
    out = {}
    for name, vals in vm.inputs.items():
        if vals and isinstance(vals[0], list) or (not vals and False):
            out[name] = [bytes((model.eval(b, True).as_long() if not isc(b) else b) for b in s) for s in vals]
        else:
            out[name] = [(model.eval(v, True).as_long() if not isc(v) else v) for v in vals]
    return out


def argv_for_compiled(compiled, margv, W):
    """model_argv output -> conc_argspec input (scalars unwrapped, words signed)"""
    from hidc.ast import ArrayType, DataType
    res = {}
    B = 8 * W
    for p in entry_params(compiled):
        t = p.var.type
        n = p.var.name
        v = margv.get(n)
        if isinstance(t, ArrayType):
            if t.el_type == DataType.STRING:
                res[n] = list(v or [])
            elif t.el_type == DataType.INT:
                res[n] = [x - (1 << B) if x >> (B - 1) else x for x in (v or [])]
            else:
                res[n] = list(v or [])
        elif t == DataType.STRING:
            res[n] = v[0] if v else b''
        elif t == DataType.INT:
            x = v[0]
            res[n] = x - (1 << B) if x >> (B - 1) else x
        else:
            res[n] = v[0]
    return res


def jsonable_argv(a):
    out = {}
    for k, v in a.items():
        if isinstance(v, (bytes, bytearray)):
            out[k] = {'bytes': list(v)}
        elif isinstance(v, list):
            out[k] = [{'bytes': list(x)} if isinstance(x, (bytes, bytearray)) else x for x in v]
        else:
            out[k] = v
    return out


def unjson_argv(a):
    out = {}
    for k, v in a.items():
        if isinstance(v, dict):
            out[k] = bytes(v['bytes'])
        elif isinstance(v, list):
            out[k] = [bytes(x['bytes']) if isinstance(x, dict) else x for x in v]
        else:
            out[k] = v
    return out


def conc_events(ev):
    """concrete event tuple -> json list"""
    return [[e[0], e[1]] for e in ev]


def run_concrete_case(case, argv, monitor=None, max_steps=400000):
    b = build(case, argv=argv, monitor=monitor, max_steps=max_steps)
    r = b.vm.run()
    if len(r) != 1:
        raise RuntimeError('concrete run gave %d paths' % len(r))
    return r[0]


class Stats:
    def __init__(self):
        self.paths = 0
        self.queries = 0
        self.solver_s = 0.0
        self.steps = 0
        self.obligations = 0
        self.discharged = 0
        self.syntactic = 0

    def add_vm(self, vm, paths):
        self.paths += len(paths)
        self.queries += vm.nq
        self.solver_s += vm.tq
        self.steps += vm.nsteps

    def as_dict(self):
        return dict(paths=self.paths, queries=self.queries, solver_s=round(self.solver_s, 3), steps=self.steps,
                    obligations=self.obligations, discharged=self.discharged, syntactic=self.syntactic)


class Decider:
    """One z3 solver for the equivalence obligations of a task."""

    def __init__(self, W, timeout_ms=20000):
        self.T = Terms(W)
        self.s = z3.Solver()
        self.s.set('timeout', timeout_ms)
        self.nq = 0
        self.tq = 0.0

    def check(self, conds):
        """sat -> model, unsat -> None, unknown -> Inconclusive"""
        t = time.time()
        self.s.push()
        for c in conds:
            if c is True:
                continue
            if c is False:
                self.s.pop()
                return None
            self.s.add(c)
        r = self.s.check()
        m = self.s.model() if r == z3.sat else None
        self.s.pop()
        self.nq += 1
        self.tq += time.time() - t
        if r == z3.unknown:
            raise Inconclusive('solver unknown on obligation')
        return m
