"""Independent transcription of the README's typing rules (oracle of C07).  Types are strings: 'int', 'byte', 'bool',
'string', 'T[]', 'const T[]'.  Nothing here imports hidc."""

SC = ['int', 'byte', 'bool', 'string']
TYPES = SC + ['%s[]' % t for t in SC] + ['const %s[]' % t for t in SC]

# program prelude used by the text-level enumerations
PRE = ('const int K = 5; const byte KB = 7; int iv = 1; byte bv = 2; bool ov = true; string sv = "s"; int[] ia = [1,2]; const int[] cia = [1,2]; '
       'byte[] ba = [1,2]; const byte[] cba = [1,2]; bool[] oa = [true]; const bool[] coa = [true]; const string[] csa = ["a"]; string[] sa = ["a"];\n')

# expression text -> (type, flag)
#   flag 'shrink': int-typed but implicitly coercible to byte (literals and arithmetic over byte-coercible operands)
#   flag 'var'   : array-typed variable / expression that is not a literal
#   type 'lit'   : array literal; flag = list of element expression keys
#   type 'locked': array literal after an explicit `is T[]` cast; flag = element type
E = {
    '5': ('int', 'shrink'), '300': ('int', 'shrink'), "'c'": ('byte', ''), 'true': ('bool', ''), '"s"': ('string', ''),
    'iv': ('int', ''), 'bv': ('byte', ''), 'ov': ('bool', ''), 'sv': ('string', ''), 'K': ('int', ''), 'KB': ('byte', ''),
    'iv + 1': ('int', ''), 'bv + 1': ('int', 'shrink'), '1 + 2': ('int', 'shrink'), '-bv': ('int', 'shrink'), 'K + 1': ('int', ''), 'KB * 2': ('int', 'shrink'),
    "'a' + 1": ('int', 'shrink'), 'bv % bv': ('int', 'shrink'), '-iv': ('int', ''), '+5': ('int', 'shrink'),
    'iv is byte': ('byte', ''), '5 is int': ('int', ''), '(5 is byte)': ('byte', ''), 'ov is int': ('int', ''), 'iv is bool': ('bool', ''), 'sv is bool': ('bool', ''),
    'ia is bool': ('bool', ''), 'ov is byte': ('byte', ''), 'bv is int': ('int', ''), '(bv is int) + 1': ('int', ''),
    'iv < bv': ('bool', ''), 'ov == true': ('bool', ''), 'not iv': ('bool', ''), 'iv and sv': ('bool', ''), 'ia.length': ('int', ''), 'sv.length': ('int', ''),
    'ia[0]': ('int', ''), 'ba[0]': ('byte', ''), 'sv[0]': ('byte', ''), 'csa[0]': ('string', ''), 'oa[0]': ('bool', ''), 'cia[bv]': ('int', ''),
    'ia': ('int[]', 'var'), 'cia': ('const int[]', 'var'), 'ba': ('byte[]', 'var'), 'cba': ('const byte[]', 'var'), 'oa': ('bool[]', 'var'),
    'csa': ('const string[]', 'var'), 'sa': ('string[]', 'var'), 'sv is byte[]': ('const byte[]', 'var'),
    '[1, 2]': ('lit', ['5', '5']), '[bv, 1]': ('lit', ['bv', '5']), '[iv, bv]': ('lit', ['iv', 'bv']), '[iv, true]': ('lit', ['iv', 'true']),
    '[true, ov]': ('lit', ['true', 'ov']), '["a", sv]': ('lit', ['"s"', 'sv']), '[]': ('lit', []), "['a', 1]": ('lit', ["'c'", '5']), '[300, bv]': ('lit', ['300', 'bv']),
    '[1, 2] is byte[]': ('locked', 'byte'), '[bv] is int[]': ('locked', 'int'), '[] is byte[]': ('locked', 'byte'), '[] is int[]': ('locked', 'int'),
}

EMPTY_LOCKED = {'[] is byte[]', '[] is int[]'}

# assignable places: text -> (type, is_const)
LV = {'iv': ('int', False), 'bv': ('byte', False), 'ov': ('bool', False), 'sv': ('string', False), 'K': ('int', True), 'ia': ('int[]', True),
      'ia[0]': ('int', False), 'cia[0]': ('int', True), 'ba[0]': ('byte', False), 'cba[0]': ('byte', True), 'sv[0]': ('byte', True),
      'csa[0]': ('string', True), 'sa[0]': ('string', False), 'oa[0]': ('bool', False), 'coa[0]': ('bool', True), '"lit"[0]': ('byte', True)}


def scal_coercible(e, t):
    """implicit coercion of a non-array-literal expression e to type t"""
    et, fl = E[e]
    if et == t:
        return True
    if et == 'byte' and t == 'int':
        return True
    if et == 'int' and t == 'byte' and fl == 'shrink':
        return True
    if et == 'string' and t == 'const byte[]':
        return True
    return False


def literal_resolvable(elems):
    """an array literal has a type iff some element type accepts every element (README: first such type)"""
    return (not elems) or any(all(scal_coercible(x, E[c][0]) for x in elems) for c in elems)


def literal_nested(elems):
    return any(E[c][0].endswith('[]') or E[c][0] in ('lit', 'locked') for c in elems)


def coercible(e, t, for_call=False):
    """e may be used where t is expected.  for_call: argument passing (a non-const array may be passed as const);
    declarations may not bind a non-const array reference to a const array variable"""
    et, fl = E[e]
    if et == 'lit':
        if not literal_resolvable(fl):
            return False
        if not t.endswith('[]'):
            return False
        el = t.replace('const ', '')[:-2]
        return all(scal_coercible(x, el) for x in fl)
    if et == 'locked':
        return t.endswith('[]') and t.replace('const ', '')[:-2] == fl
    if fl == 'var':
        if t == et:
            return True
        if for_call and not et.startswith('const ') and t == 'const ' + et:
            return True
        return False
    return scal_coercible(e, t)


def valid_expr(e):
    et, fl = E[e]
    if et == 'lit':
        return literal_resolvable(fl)
    return True


def assign_ok(l, op, e):
    lt, const = LV[l]
    et, fl = E[e]
    if const:
        return False
    if not valid_expr(e):
        return False
    if op == '=':
        if et in ('lit', 'locked') or fl == 'var':
            return False            # array variables cannot be reassigned; elements are scalars
        return scal_coercible(e, lt)
    # x op= e  is typed as  x = x op e : both operands coercible to int; the int result goes back into a byte only if
    # both operands are coercible to byte
    if lt not in ('int', 'byte') or et in ('lit', 'locked') or fl == 'var' or not scal_coercible(e, 'int'):
        return False
    return True if lt == 'int' else scal_coercible(e, 'byte')


def cast_ok(e, t):
    """explicit `e is t` (README "Allowed explicit type casts"); t in SC or 'T[]' (result const T[])"""
    et, fl = E[e]
    if et == 'lit':
        if not literal_resolvable(fl):
            return False
        if t == 'bool':
            return True          # arrays are truthy if non-empty
        if not t.endswith('[]'):
            return False
        el = t[:-2]
        return all(cast_scalar_ok(E[x][0], el) for x in fl)
    if et == 'locked':
        if t == 'bool':
            return True
        if e in EMPTY_LOCKED and t.endswith('[]'):
            return True         # no element to convert: re-casting an empty literal is accepted for every element type
        return t.endswith('[]') and cast_scalar_ok(fl, t[:-2])
    if et.endswith('[]'):
        if t == 'bool':
            return True
        return t.endswith('[]') and et.replace('const ', '') == t        # same element type (constness is dropped/added freely)
    if t.endswith('[]'):
        return et == 'string' and t == 'byte[]'
    return cast_scalar_ok(et, t)


def cast_scalar_ok(et, t):
    if et == t:
        return True
    table = {('byte', 'int'), ('bool', 'int'), ('int', 'byte'), ('bool', 'byte'), ('int', 'bool'), ('byte', 'bool'), ('string', 'bool')}
    return (et, t) in table
