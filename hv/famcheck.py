"""Shared driver for the family-based checks (VM vs reference interpreter)."""
from .par import pmap
from .report import Report
from .vmri import check_case, case_to_task


def run_tasks(rep, tasks, worker=check_case, limit=600, sample_every=37, on_result=None):
    n = 0
    kinds = {}
    for r in pmap(worker, tasks, limit=limit):
        n += 1
        rep.counts['evaluations'] += 1
        rep.add_stats(r.get('stats', {}))
        for v in r.get('violations', []):
            rep.violation(v)
        inc = r.get('inconclusive', [])
        if inc and 'random' in str(r.get('name')):
            # seeded random samples are auxiliary: one that cannot be decided within the budgets is skipped and counted,
            # it does not make the run inconclusive (the enumerated families stay strict)
            rep.cov['random_samples_skipped'] = rep.cov.get('random_samples_skipped', 0) + 1
            rep.cov.setdefault('random_samples_skipped_examples', [])
            if len(rep.cov['random_samples_skipped_examples']) < 5:
                rep.cov['random_samples_skipped_examples'].append(str(inc[0])[:200])
            inc = []
        rep.inconclusive += inc
        rep.harness_errors += r.get('harness_errors', [])
        if r.get('status') == 'rejected':
            rep.cov['rejected_by_compiler'] = rep.cov.get('rejected_by_compiler', 0) + 1
        else:
            if r.get('npaths', 0) >= 1:
                rep.distinct_keys.add(r.get('name'))
            for k in r.get('path_kinds', []):
                kinds[k] = kinds.get(k, 0) + 1
        rep.cov['excluded_uninitialised'] = rep.cov.get('excluded_uninitialised', 0) + r.get('excluded', 0)
        if n % sample_every == 1:
            rep.sample(dict(template=r.get('name'), vm_paths=r.get('npaths'), oracle_cases=r.get('ncases'),
                            path_kinds=r.get('path_kinds'), first_path=r.get('witness')))
        if on_result is not None:
            on_result(r)
    rep.cov['vm_path_kinds'] = kinds
    rep.cov['programs'] = len(rep.distinct_keys)
    rep.cov['disagreements_checked'] = len(rep.violations) + len(rep.harness_errors)
    return n
