"""Reference interpreter (RI) for HiD over z3 values (DESIGN §4.4) — the oracle of C01/C02/C05/C16.

It interprets the *typed AST* produced by the real parse(...).evaluate(env) according to the
README's semantics: word-size wrap-around, zero-extended bytes, 0/1 bools, short-circuit and/or,
left-to-right evaluation (right-then-left for ??), by-value scalars, by-reference arrays, lexical
scoping with global shadowing, runtime faults as terminal events.  It knows nothing about the code
generator.

Symbolic branches and time travel share one mechanism: the program is re-run under a decision
vector.  Entries are data branches ('b'), concretised values ('v') or choice points ('c') with a
preferred alternative 0: try/undo -> run the body; preempt -> skip; a ?? b -> evaluate a;
try/stop -> defeat is real; return from a preemptive defeat function (checked build) -> return.
Reaching defeat while defeat is real flips the most recent unflipped choice for the inputs of that
path (chronological back-tracking); no choice left = the program would halt.
"""
import z3

from .terms import Terms, isc, Inconclusive

from hidc import ast as A
from hidc.ast import DataType as D, ArrayType
from hidc.lexer.tokens import Ident, Flavor


class ReturnEx(Exception):
    def __init__(self, v):
        self.v = v


class BreakEx(Exception):
    pass


class ContinueEx(Exception):
    pass


class DefeatEx(Exception):      # virtual defeat -> stop handler
    pass


class HaltEx(Exception):        # machine halt -> back-track
    pass


class EndEx(Exception):         # terminal state of this run
    def __init__(self, kind):
        self.kind = kind


class Arr:
    __slots__ = ('el', 'cells', 'length', 'const')

    def __init__(self, el, cells, const=False):
        self.el = el
        self.cells = cells
        self.length = len(cells)
        self.const = const


class Str:
    __slots__ = ('data',)

    def __init__(self, data):
        self.data = list(data)      # byte values as words (int or zero-extended BV)


ARITH = {A.Add: 'add', A.Sub: 'sub', A.Mul: 'mul', A.Div: 'div', A.Mod: 'mod'}
CMPS = {A.Eq: 'eq', A.Ne: 'ne', A.Lt: 'lt', A.Gt: 'gt', A.Le: 'le', A.Ge: 'ge'}


class RI:
    def __init__(self, prog, env, ws, args, checked=True, timeout_ms=20000, max_loop=64, max_calls=64,
                 max_runs=4000, vla_cap=8, on_stmt=None):
        self.prog = prog
        self.env = env
        self.T = Terms(ws)
        self.W = ws
        self.B = 8 * ws
        self.M = (1 << self.B) - 1
        self.args = args
        self.checked = checked
        self.solver = z3.Solver()
        self.solver.set('timeout', timeout_ms)
        self.nq = 0
        self.tq = 0.0
        self.fresh = 0
        self.max_loop = max_loop
        self.max_calls = max_calls
        self.max_runs = max_runs
        self.vla_cap = vla_cap
        self.on_stmt = on_stmt
        self.preemptive = None
        self.parsed_counts = None
        self.runs = 0

    # ---- decisions
    def feasible(self, extra):
        import time
        t = time.time()
        self.solver.push()
        self.solver.add(*self.conds)
        self.solver.add(extra)
        r = self.solver.check()
        self.solver.pop()
        self.nq += 1
        self.tq += time.time() - t
        if r == z3.unknown:
            raise Inconclusive('RI: solver unknown')
        return r == z3.sat

    def branch(self, c):
        if isinstance(c, bool):
            return c
        if self.pos < len(self.prefix):
            k, v = self.prefix[self.pos]
            assert k == 'b', ('RI replay misaligned', k, v)
        else:
            t = self.feasible(c)
            f = self.feasible(z3.Not(c)) if t else True
            if t and f:
                self.work.append((self.trace + [('b', False)], list(self.carried)))
                v = True
            elif t:
                v = True
            elif f:
                v = False
            else:
                raise EndEx('infeasible')
        self.trace.append(('b', v))
        self.pos += 1
        self.conds.append(c if v else z3.Not(c))
        return v

    def concretize(self, e, cap=16):
        if isc(e):
            return e
        if self.pos < len(self.prefix):
            k, v = self.prefix[self.pos]
            assert k == 'v', ('RI replay misaligned', k, v)
        else:
            vals = []
            self.solver.push()
            self.solver.add(*self.conds)
            while len(vals) <= cap:
                self.nq += 1
                r = self.solver.check()
                if r == z3.unknown:
                    self.solver.pop()
                    raise Inconclusive('RI: solver unknown')
                if r != z3.sat:
                    break
                x = self.solver.model().eval(e, True).as_long()
                vals.append(x)
                self.solver.add(e != x)
            self.solver.pop()
            if not vals:
                raise EndEx('infeasible')
            if len(vals) > cap:
                raise EndEx('bound')
            for x in vals[1:]:
                self.work.append((self.trace + [('v', x)], list(self.carried)))
            v = vals[0]
        self.trace.append(('v', v))
        self.pos += 1
        self.conds.append(e == v)
        return v

    def choice(self, label):
        if self.pos < len(self.prefix):
            k, v = self.prefix[self.pos]
            assert k == 'c', ('RI replay misaligned', k, v, label)
        else:
            v = 0
        self.trace.append(('c', v))
        self.pos += 1
        return v

    # ---- driver
    def run_all(self, assumptions=()):
        """returns list of (kind, conds, events): kind in win/error/diverge/halt/bound"""
        self.work = [([], list(assumptions))]
        results = []
        while self.work:
            self.runs += 1
            if self.runs > self.max_runs:
                results.append(('bound', [], ()))
                break
            self.prefix, self.carried = self.work.pop()
            self.pos = 0
            self.trace = []
            self.conds = list(self.carried)
            self.events = []
            self.mode = 'real'
            self.depth = 0
            try:
                self.run_program()
                self.events.append(('flag', 'win'))
                kind = 'done'
            except EndEx as e:
                kind = e.kind
                if kind == 'infeasible':
                    continue
            except HaltEx:
                idx = [i for i, (k, v) in enumerate(self.trace) if k == 'c' and v == 0]
                if not idx:
                    results.append(('halt', list(self.conds), tuple(self.events)))
                    continue
                i = idx[-1]
                self.work.append((self.trace[:i] + [('c', 1)], list(self.conds)))
                continue
            results.append((kind, list(self.conds), tuple(self.events)))
        return results

    def fault(self, kind):
        self.events += [('flag', kind), ('flag', 'error')]
        raise EndEx('done')

    def run_program(self):
        self.globals = {}
        self.scopes = [self.globals]
        for d in self.prog.var_decls:
            self.globals[d.var.name] = self.init_global(d)
        f = self.env.funcs[Ident.you('is_you')]
        (decl,) = f.values()

        def fresh(v):
            if isinstance(v, Arr):
                return Arr(v.el, list(v.cells), v.const)
            if isinstance(v, Str):
                return Str(list(v.data))
            return v
        self.call_decl(decl, [fresh(self.args[p.var.name]) for p in decl.params])

    def init_global(self, d):
        e = d.init
        if isinstance(e, A.ArrayInitializer):
            n = self.expr(e.length)
            if not isc(n):
                raise EndEx('bound')
            return Arr(e.type.el_type, [self.uninit(e.type.el_type) for _ in range(n)])
        return self.expr(e)

    def uninit(self, el):
        self.fresh += 1
        if el == D.INT:
            return z3.BitVec('uninit%d' % self.fresh, self.B)
        if el == D.BYTE:
            return z3.ZeroExt(self.B - 8, z3.BitVec('uninit%d' % self.fresh, 8))
        if el == D.BOOL:
            return z3.ZeroExt(self.B - 1, z3.BitVec('uninit%d' % self.fresh, 1))
        return Str([z3.BitVec('uninit%d' % self.fresh, self.B)])     # uninitialised string: undefined behaviour

    # ---- functions
    def call_decl(self, decl, argvals):
        self.depth += 1
        if self.depth > self.max_calls:
            raise EndEx('bound')
        saved = self.scopes
        self.scopes = [self.globals, {p.var.name: v for p, v in zip(decl.params, argvals)}]
        try:
            try:
                self.block(decl.body)
                ret = None
            except ReturnEx as r:
                ret = r.v
            if self.checked and decl.name.flavor == Flavor.DEFEAT and self.is_preemptive(decl):
                if self.choice('retprot') == 1:
                    self.fault('nonlocal_preempt')
            return ret
        finally:
            self.scopes = saved
            self.depth -= 1

    def is_preemptive(self, decl):
        """README: a defeat function which contains a preempt block anywhere in it (even if unreachable).
        Computed here from the parse tree (self.preemptive, filled by oracle_cases), not taken from the
        compiler's own `preemptive` attribute."""
        if self.preemptive is None:
            return decl.body.preemptive
        return (decl.name, tuple(decl.param_types)) in self.preemptive

    def defeat(self):
        if self.mode == 'virtual':
            raise DefeatEx()
        raise HaltEx()

    # ---- statements
    def block(self, b):
        if isinstance(b, A.CodeBlock):
            self.scopes = self.scopes + [{}]
            try:
                for s in b.stmts:
                    self.stmt(s)
                if self.parsed_counts is not None:
                    # the compiler dropped a suffix of this block as unreachable: then its last kept statement must
                    # never complete normally (C16).  Getting here means the dropped code would have run.
                    n = self.parsed_counts.get((b.span.start.line, b.span.start.col, b.span.end.line, b.span.end.col))
                    if n is not None and len(b.stmts) < n:
                        raise EndEx('dropped-code-reached')
            finally:
                self.scopes = self.scopes[:-1]
        elif isinstance(b, A.IfBlock):
            if self.branch(self.truth(b.cond)):
                self.block(b.body)
            else:
                self.block(b.else_block)
        elif isinstance(b, A.LoopBlock):
            n = 0
            seen = set()
            while self.branch(self.truth(b.cond)):
                n += 1
                if n > self.max_loop:
                    raise EndEx('bound')
                key = self.state_key()
                if key is not None:
                    if key in seen:
                        raise EndEx('diverge')
                    if key[1:] in seen:
                        raise EndEx('diverge-output')
                    seen.add(key)
                    seen.add(key[1:])
                try:
                    self.block(b.body)
                except BreakEx:
                    break
                except ContinueEx:
                    pass
                self.block(b.cont)
        elif isinstance(b, A.TryBlock):
            if isinstance(b.handler, A.UndoBlock):
                if self.choice('undo') == 0:
                    self.block(b.body)
                else:
                    self.block(b.handler.body)
            else:
                scopes = self.scopes
                depth = self.depth
                if self.choice('stop') == 0:
                    self.block(b.body)
                else:
                    self.mode = 'virtual'
                    try:
                        try:
                            self.block(b.body)
                        finally:
                            self.mode = 'real'
                    except DefeatEx:
                        self.scopes = scopes
                        self.depth = depth
                        self.block(b.handler.body)
        elif isinstance(b, A.PreemptBlock):
            if self.mode == 'virtual' or self.choice('preempt') == 1:
                self.block(b.body)
        else:
            raise NotImplementedError(b)

    def state_key(self):
        """hashable snapshot of all variable state + number of events: exact repetition at a loop head
        with no new event means the loop runs forever (mirrors the VM's cycle detection)"""
        items = [len(self.events)]   # items[0] is dropped for the periodic-output test
        # Decisions taken since the previous visit do not matter: branch outcomes are functions of the state and of
        # the (only growing) path condition, and choice points that a later halt flips lead to a re-run anyway.
        def h(v):
            if isc(v):
                return v
            if isinstance(v, Arr):
                return tuple(h(c) for c in v.cells)
            if isinstance(v, Str):
                return ('s',) + tuple(h(c) for c in v.data)
            return ('z', v.hash())
        try:
            for sc in self.scopes:
                items.append(tuple(sorted((k, h(v)) for k, v in sc.items())))
        except TypeError:
            return None
        items.append(self.mode)
        return tuple(items)

    def stmt(self, s):
        if self.on_stmt is not None:
            self.on_stmt(self, s)
        if isinstance(s, A.Block):
            return self.block(s)
        if isinstance(s, A.Declaration):
            self.scopes[-1][s.var.name] = self.expr(s.init)
            return
        if isinstance(s, A.IncAssignment):
            ref = self.lvalue(s.lookup)
            old = ref[0]()
            rhs = self.expr(s.expr)
            ref[1](self.binop(ARITH[s.bin_op], old, rhs))
            return
        if isinstance(s, A.Assignment):
            ref = self.lvalue(s.lookup)
            ref[1](self.expr(s.expr))
            return
        if isinstance(s, A.ReturnStatement):
            raise ReturnEx(None if s.value is None else self.expr(s.value))
        if isinstance(s, A.BreakStatement):
            raise BreakEx()
        if isinstance(s, A.ContinueStatement):
            raise ContinueEx()
        if isinstance(s, A.Expression):
            self.expr(s)
            return
        raise NotImplementedError(s)

    def find_scope(self, name):
        for sc in reversed(self.scopes[1:]):
            if name in sc:
                return sc
        return self.globals

    def lvalue(self, e):
        if isinstance(e, A.VariableLookup):
            sc = self.find_scope(e.var.name)
            name = e.var.name
            t = e.type
            return (lambda: sc[name]), (lambda v: sc.__setitem__(name, self.trunc(v, t)))
        if isinstance(e, A.ArrayLookup):
            arr = self.expr(e.source)
            idx = self.expr(e.index)
            self.check_index(idx, arr.length)
            idx = self.index_value(idx, arr.length)
            t = e.type
            return (lambda: arr.cells[idx]), (lambda v: arr.cells.__setitem__(idx, self.trunc(v, t)))
        raise NotImplementedError(e)

    def trunc(self, v, t):
        if t == D.BYTE and not isinstance(v, (Arr, Str)):
            return self.T.low_byte_word(v)
        return v

    def check_index(self, idx, length):
        if self.checked:
            if not self.branch(self.T.cmp('ltu', idx, length)):
                self.fault('out_of_bounds')

    def index_value(self, idx, length):
        idx = self.concretize(idx) if not isc(idx) else idx
        if not (0 <= idx < length):
            raise EndEx('undefined')        # unchecked build indexing out of bounds: undefined behaviour
        return idx

    # ---- expressions
    def truth(self, e):
        return self.T.cmp('ne', self.expr(e), 0)

    def binop(self, op, l, r):
        if op in ('div', 'mod'):
            if self.checked:
                if self.branch(self.T.cmp('eq', r, 0)):
                    self.fault('division_by_zero')
            else:
                # unchecked build: division by zero is undefined behaviour (README); this run is excluded
                if self.branch(self.T.cmp('eq', r, 0)):
                    raise EndEx('undefined')
        return self.T.arith(op, l, r)

    def expr(self, e):
        T = self.T
        if isinstance(e, A.IntValue):       # includes ByteValue
            return e.data & (self.M if e.type == D.INT else 0xFF)
        if isinstance(e, A.BoolValue):
            return int(e.data)
        if isinstance(e, A.StringValue):
            return Str(e.data)
        if isinstance(e, (A.ByteToInt, A.BoolToByte, A.Volatile)):
            return self.expr(e.expr)
        if isinstance(e, A.IntToByte):
            return T.low_byte_word(self.expr(e.expr))
        if isinstance(e, A.IntToBool):
            return T.b2w(T.cmp('ne', self.expr(e.expr), 0))
        if isinstance(e, A.StringToByteArray):
            s = self.expr(e.expr)
            return Arr(D.BYTE, s.data, True)
        if isinstance(e, A.VariableLookup):
            return self.find_scope(e.var.name)[e.var.name]
        if isinstance(e, A.ArrayLookup):
            src = self.expr(e.source)
            idx = self.expr(e.index)
            if isinstance(src, Str):
                src = Arr(D.BYTE, src.data, True)
            self.check_index(idx, src.length)
            return src.cells[self.index_value(idx, src.length)]
        if isinstance(e, A.LengthLookup):
            src = self.expr(e.source)
            return len(src.data) if isinstance(src, Str) else src.length
        if isinstance(e, A.ArrayLiteral):
            el = e.type.el_type
            return Arr(el, [self.trunc(self.expr(v), el) for v in e.values])
        if isinstance(e, A.ArrayInitializer):
            n = self.expr(e.length)
            el = e.type.el_type
            if self.checked:
                maxlen = ((1 << (self.B - 1)) - 1) // (1 if el.byte_sized else self.W)
                if not self.branch(T.cmp('leu', n, maxlen)):
                    self.fault('stack_overflow')
            n = self.concretize(n, cap=self.vla_cap) if not isc(n) else n
            if n > 4096:
                raise EndEx('bound')
            return Arr(el, [self.uninit(el) for _ in range(n)])
        if isinstance(e, A.BinaryArithmeticOp):
            l = self.expr(e.left)
            r = self.expr(e.right)
            return self.binop(ARITH[type(e)], l, r)
        if isinstance(e, A.Pos):
            return self.expr(e.arg)
        if isinstance(e, A.Neg):
            return T.arith('sub', 0, self.expr(e.arg))
        if isinstance(e, A.Not):
            return T.arith('sub', 1, self.expr(e.arg))
        if isinstance(e, (A.CompareOp, A.EqualityOp)):
            l = self.expr(e.left)
            r = self.expr(e.right)
            return T.b2w(T.cmp(CMPS[type(e)], l, r))
        if isinstance(e, A.And):
            if not self.branch(self.truth(e.left)):
                return 0
            return T.b2w(self.truth(e.right))
        if isinstance(e, A.Or):
            if self.branch(self.truth(e.left)):
                return 1
            return T.b2w(self.truth(e.right))
        if isinstance(e, A.Speculation):
            r = self.expr(e.right)
            if self.choice('spec') == 1:
                return r
            l = self.expr(e.left)
            if self.branch(T.cmp('eq', l, r)):
                raise HaltEx()
            return l
        if isinstance(e, A.FuncCall):
            return self.call(e)
        raise NotImplementedError(type(e))

    def out(self, v):
        self.events.append(('out', self.T.byte_of(v)))

    def call(self, e):
        T = self.T
        name = e.func
        args = [self.expr(a) for a in e.args]
        sig = tuple(a.type for a in e.args)
        decl = self.env.funcs[name][sig]
        if isinstance(decl, A.FuncDeclaration):
            # scalars by value (truncated to the parameter type), arrays by reference
            vals = [self.trunc(v, p.var.type) for v, p in zip(args, decl.params)]
            return self.call_decl(decl, vals)
        n = name.name
        if n in ('write', 'writeln'):
            if args:
                (v,) = args
                t = sig[0]
                if t == D.BYTE:
                    self.out(v)
                elif t == D.STRING:
                    for b in v.data:
                        self.out(b)
                elif isinstance(t, ArrayType):
                    for b in v.cells:
                        self.out(b)
                elif t == D.BOOL:
                    for ch in (b'true' if self.branch(T.cmp('ne', v, 0)) else b'false'):
                        self.out(ch)
                elif t == D.INT:
                    self.write_int(v)
            if n == 'writeln':
                self.out(10)
            return None
        if n == '!is_defeat':
            self.defeat()
        if n == '!truth_is_defeat':
            if self.branch(T.cmp('ne', args[0], 0)):
                self.defeat()
            return None
        if n == 'sleep':
            self.events.append(('sleep', args[0]))
            return None
        if n == 'all_is_win':
            self.events.append(('flag', 'win'))
            raise EndEx('done')
        if n == 'all_is_broken':
            self.events.append(('flag', 'error'))
            raise EndEx('done')
        if n in ('debug', 'progress'):
            self.events.append(('flag', n))
            return None
        raise NotImplementedError(n)

    def write_int(self, v):
        if isc(v):
            for ch in str(self.T.signed(v)).encode():
                self.out(ch)
            return
        x = v
        neg = self.branch(x < 0)
        if neg:
            self.out(45)
        ux = z3.If(x < 0, -x, x)
        maxd = len(str(1 << (self.B - 1)))
        nd = 1
        while nd < maxd and self.branch(z3.UGE(ux, z3.BitVecVal(10 ** nd, self.B))):
            nd += 1
        for k in reversed(range(nd)):
            d = z3.URem(z3.UDiv(ux, z3.BitVecVal(10 ** k, self.B)), z3.BitVecVal(10, self.B))
            self.out(self.T.simp(d + 48))


def ri_args(compiled, inputs, W):
    """vm.inputs -> RI argument values according to the entry point's parameter types"""
    from .harness import entry_params
    T = Terms(W)
    args = {}
    for p in entry_params(compiled):
        t = p.var.type
        n = p.var.name
        v = inputs.get(n, [])
        if isinstance(t, ArrayType):
            if t.el_type == D.STRING:
                args[n] = Arr(D.STRING, [Str([T.zext(b) for b in s]) for s in v], True)
            elif t.el_type == D.BYTE:
                args[n] = Arr(D.BYTE, [T.zext(b) for b in v], t.const)
            else:
                args[n] = Arr(D.INT, list(v), t.const)
        elif t == D.STRING:
            args[n] = Str([T.zext(b) for b in v[0]])
        elif t == D.BYTE:
            args[n] = T.zext(v[0])
        else:
            args[n] = v[0]
    return args


def oracle_cases(compiled, inputs, W, checked=True, assumptions=(), **kw):
    """run RI; returns (cases, inconclusive, ri) with cases = [(conds, events, kind)]"""
    ri = RI(compiled.ast, compiled.env, W, ri_args(compiled, inputs, W), checked=checked, **kw)
    ri.preemptive = preemptive_functions(compiled.src)
    ri.parsed_counts = parsed_block_counts(compiled.src)
    res = ri.run_all(assumptions)
    cases = []
    inconc = []
    for kind, conds, ev in res:
        if kind in ('done', 'diverge', 'diverge-output', 'halt', 'dropped-code-reached'):
            cases.append((conds, ev, kind))
        elif kind == 'undefined':
            cases.append((conds, ev, 'undefined'))
        else:
            inconc.append('RI path %s' % kind)
    return cases, inconc, ri


def preemptive_functions(src):
    """(name, param types) of every function whose *parsed* body contains a preempt block anywhere,
    reachable or not — an independent walk over the untyped parse tree"""
    import dataclasses
    from hidc.parser import parse
    from hidc.lexer import SourceCode
    tree = parse(SourceCode.from_string(src))

    def has_preempt(node, depth=0):
        if isinstance(node, A.PreemptBlock):
            return True
        if isinstance(node, (list, tuple)):
            return any(has_preempt(x, depth + 1) for x in node)
        if dataclasses.is_dataclass(node) and not isinstance(node, type):
            if type(node).__module__.startswith('hidc.lexer'):
                return False
            return any(has_preempt(getattr(node, f.name), depth + 1) for f in dataclasses.fields(node))
        return False
    out = set()
    for f in tree.func_decls:
        if has_preempt(f.body):
            out.add((f.name, tuple(p.type for p in f.params)))
    return out


def parsed_block_counts(src):
    """span of every code block in the *parsed* (not yet typechecked) program -> number of statements,
    so that the interpreter can tell which blocks the compiler truncated"""
    import dataclasses
    from hidc.parser import parse
    from hidc.lexer import SourceCode
    tree = parse(SourceCode.from_string(src))
    out = {}

    def walk(node):
        if isinstance(node, A.CodeBlock):
            k = (node.span.start.line, node.span.start.col, node.span.end.line, node.span.end.col)
            out[k] = max(out.get(k, 0), len(node.stmts))
        if isinstance(node, (list, tuple)):
            for x in node:
                walk(x)
        elif dataclasses.is_dataclass(node) and not isinstance(node, type):
            if type(node).__module__.startswith('hidc.lexer'):
                return
            for f in dataclasses.fields(node):
                walk(getattr(node, f.name))
    for f in tree.func_decls:
        walk(f.body)
    return out
