"""Independent reference tokenizer for HiD, written from the README's lexical grammar (ASCII letters/digits/whitespace).
Lines are separated by \\n only.  Used by C12 as the oracle for the real hidc.lexer.lex."""
import itertools
from hidc.lexer import lex, SourceCode, tokens as T
from hidc.errors import LexerError
KW = {str(t): t for t in T.enum_tokens if str(t).isalpha()}
SYM = sorted([str(t) for t in T.enum_tokens if not str(t).isalpha()], key=len, reverse=True)
SYMTOK = {str(t): t for t in T.enum_tokens}
ESC = {'a': 7, 'b': 8, 'f': 12, 'n': 10, 'r': 13, 't': 9, '0': 0, "'": 39, '"': 34, '\\': 92}
HEXD = '0123456789abcdefABCDEF'
class Err(Exception): pass
def isid0(c): return c.isascii() and (c.isalpha() or c == '_')
def isid(c): return c.isascii() and (c.isalnum() or c == '_')
def ref(src):
    """returns list of (token, line, c0, c1)"""
    out = []
    for ln, line in enumerate(src.split('\n')):
        i = 0; n = len(line)
        while i < n:
            c = line[i]
            if c in ' \t\r\x0b\x0c': i += 1; continue
            if line.startswith('//', i): break
            # symbols (longest)
            for s in SYM:
                if line.startswith(s, i): break
            else: s = None
            if s is not None:
                # '!' handling: '!=' is symbol; '!' alone starts defeat ident
                out.append((SYMTOK[s], ln, i, i + len(s))); i += len(s); continue
            if c in '@!' or isid0(c):
                j = i + 1 if c in '@!' else i
                if c in '@!' and not (j < n and isid0(line[j])): raise Err('flavor')
                k = j
                while k < n and isid(line[k]): k += 1
                name = line[j:k]
                if c in '@!':
                    if name in KW: raise Err('flavored keyword')
                    out.append((T.Ident(name, T.Flavor.YOU if c == '@' else T.Flavor.DEFEAT), ln, i, k))
                elif name in KW: out.append((KW[name], ln, i, k))
                else: out.append((T.Ident(name), ln, i, k))
                i = k; continue
            if c.isdigit() and c.isascii():
                def run(j, digs):
                    # digit (_? digit)*
                    if not (j < n and line[j] in digs): return None
                    k = j + 1
                    while True:
                        if k < n and line[k] in digs: k += 1
                        elif k + 1 < n and line[k] == '_' and line[k + 1] in digs: k += 2
                        else: break
                    return k
                val = None
                for pre, digs, base in (('0x', HEXD, 16), ('0o', '01234567', 8), ('0b', '01', 2)):
                    if line.startswith(pre, i):
                        k = run(i + 2, digs)
                        if k is not None: val = int(line[i + 2:k].replace('_', ''), base); break
                if val is None:
                    k = run(i, '0123456789'); val = dec_value(line[i:k].replace('_', ''))
                out.append((T.IntToken(val), ln, i, k)); i = k; continue
            if c in '"\'':
                q = c; j = i + 1; data = bytearray()
                if q == "'" and j < n and line[j] == "'": raise Err('empty char')
                cnt = 0
                while True:
                    if j >= n: raise Err('unclosed')
                    d = line[j]
                    if d == q and (q == '"' or cnt >= 1): j += 1; break
                    if q == "'" and cnt >= 1: raise Err('char too long')
                    if d == '\\':
                        if j + 1 >= n: raise Err('dangling')
                        e = line[j + 1]
                        if e == 'x':
                            h = line[j + 2:j + 4]
                            if len(h) != 2 or any(x not in HEXD for x in h): raise Err('bad \\x')
                            data.append(int(h, 16)); j += 4
                        elif e == 'u':
                            if not line.startswith('{', j + 2): raise Err('bad \\u')
                            k = line.find('}', j + 3)
                            hx = line[j + 3:k] if k != -1 else ''
                            if not hx or any(x not in HEXD for x in hx): raise Err('bad \\u')
                            cp = int(hx, 16)
                            if cp > 0x10FFFF: raise Err('cp')
                            try: data += chr(cp).encode('utf-8')
                            except UnicodeEncodeError: raise Err('surrogate')
                            j = k + 1
                        elif e in ESC: data.append(ESC[e]); j += 2
                        else: raise Err('bad escape')
                    else:
                        try: data += d.encode('utf-8')
                        except UnicodeEncodeError: raise Err('surrogate')
                        j += 1
                    cnt += 1
                if q == '"': out.append((T.StringToken(bytes(data)), ln, i, j))
                else:
                    if len(data) != 1: raise Err('multi-byte char')
                    out.append((T.CharToken(data[0]), ln, i, j))
                i = j; continue
            raise Err('bad char')
    return out
def dec_value(digits):
    """value of a decimal digit string of any length (int() refuses more than 4300 digits under CPython >= 3.11)"""
    v = 0
    for a in range(0, len(digits), 1000):
        chunk = digits[a:a + 1000]
        v = v * 10 ** len(chunk) + int(chunk)
    return v
def safe(x, n=300):
    try: return str(x)[:n]
    except ValueError: return '<token list with an integer of more than 4300 digits>'
def has_huge_decimal(src):
    import re
    return any(len(m.replace('_', '')) > 4300 for m in re.findall(r'(?<![0-9A-Za-z_])[0-9][0-9_]*', src))
def real(src):
    return [(lx.token, lx.span.start.line, lx.span.start.col, lx.span.end.col) for lx in lex(SourceCode.from_string(src))]
def cmp(src):
    try: e = ref(src)
    except Err as ex: e = None
    try: r = real(src)
    except LexerError: r = None
    except Exception as ex:      # anything else escaping the lexer is an internal error, never a legitimate outcome
        r = 'INTERNAL %s: %s' % (type(ex).__name__, ex)
    if r is None and e is not None and has_huge_decimal(src):
        return None     # a decimal literal beyond int()'s digit limit is a located diagnostic by design of the repair (daf8277)
    if (e is None) != (r is None) or (e is not None and e != r):
        return (src, e, r)
