"""Convenience runners: compile with the real hidc, assemble, execute."""
from .hidc import compile_src
from .asm import assemble, bind_argv
from .vm import VM
from .terms import events_bytes


def run_concrete(src, args=(), word=2, stack=64, unchecked=False, max_steps=2000000, monitor=None, lines=None):
    if lines is None:
        lines = compile_src(src, word, stack, unchecked).lines
    prog = assemble(lines, bind_argv(lines, [str(a) if not isinstance(a, (bytes, str)) else a for a in args]))
    vm = VM(prog, max_steps=max_steps, monitor=monitor)
    return vm.run_concrete()


def show(p):
    b, f, s = events_bytes(p.events)
    return '%s out=%r flags=%s sleeps=%s info=%s' % (p.kind, b, f, s, p.info)
