"""Checked-vs-unchecked differential (C15) and committed-halt reachability (C03) workers."""
import time

from . import hidc as H
from .harness import build, Stats, Decider, argv_for_compiled, jsonable_argv, conc_events, model_argv, run_concrete_case
from .terms import events_differ_cond, fmt_events, Inconclusive, z3
from .vmri import task_to_case

FAULTS = ('division_by_zero', 'out_of_bounds', 'stack_overflow', 'nonlocal_preempt')


def is_fault_path(p):
    return any(e[0] == 'flag' and e[1] in FAULTS for e in p.events)


def halt_violation(case, compiled, vm, dec, p, what):
    """model of a committed-halt path -> replayed violation dict (or None if it does not replay)"""
    m = dec.check(p.conds)
    if m is None:
        return 'infeasible'
    argv = argv_for_compiled(compiled, model_argv(vm, m), case.word)
    pc = run_concrete_case(case, argv)
    if pc.kind != p.kind:
        return None
    return dict(what=what, case=case.name, symbolic_vm='%s[%s] info=%s' % (p.kind, fmt_events(p.events), p.info),
                replay=dict(type='vm-events', src=case.src, word=case.word, stack=case.stack, unchecked=case.unchecked,
                            argv=jsonable_argv(argv), expected=None, expect_kind_not=p.kind,
                            observed=dict(kind=pc.kind, events=conc_events(pc.events), info=str(pc.info))))


def wide_path_difference(case, cc, vm, dec, q, tries=4):
    conds = list(q.conds)
    for _ in range(tries):
        m = dec.check(conds)
        if m is None:
            return None
        argv = argv_for_compiled(cc, model_argv(vm, m), case.word)
        pc = run_concrete_case(case.with_(unchecked=False), argv)
        pu = run_concrete_case(case.with_(unchecked=True), argv)
        if (pc.kind, conc_events(pc.events)) != (pu.kind, conc_events(pu.events)) and not is_fault_path(pc):
            return dict(what='--unchecked changes the behaviour of a fault-free run', case=case.name,
                        replay=dict(type='vm-events', src=case.src, word=case.word, stack=case.stack, unchecked=True,
                                    argv=jsonable_argv(argv), expected=[conc_events(pc.events)], expected_kind=pc.kind,
                                    observed=dict(kind=pu.kind, events=conc_events(pu.events), info=str(pu.info))))
        block = [d() != m[d] for d in m.decls() if d.arity() == 0]
        if not block:
            return None
        conds.append(z3.Or(*block))
    return None


def diff_task(task):
    """task['mode']: 'halt' (C03) or 'diff' (C15)"""
    mode = task.get('mode', 'diff')
    case = task_to_case(task)
    res = dict(name=case.name, violations=[], inconclusive=[], harness_errors=[], status='ok')
    st = Stats()
    try:
        cc = H.compile_src(case.src, case.word, case.stack, False)
        cu = H.compile_src(case.src, case.word, case.stack, True)
    except H.CompilerError as e:
        res['status'] = 'rejected'
        if not task.get('allow_reject'):
            res['harness_errors'].append('template %s does not compile: %s' % (case.name, e))
        return res
    max_steps = task.get('max_steps', 8000)
    bc = build(case.with_(unchecked=False), compiled=cc, max_steps=max_steps, deadline=time.time() + task.get('vm_wall', 120))
    cpaths = bc.vm.run()
    st.add_vm(bc.vm, cpaths)
    dec = Decider(case.word)
    res['path_kinds'] = sorted({p.kind for p in cpaths})
    res['npaths'] = len(cpaths)
    res['witness'] = fmt_events(cpaths[0].events, 8) if cpaths else ''
    nfree = 0
    for p in cpaths:
        if p.kind in ('bound', 'unknown'):
            res['inconclusive'].append('%s: checked path %s (%s)' % (case.name, p.kind, p.info))
            continue
        if p.kind == 'halt':
            st.obligations += 1
            if mode == 'halt':
                try:
                    v = halt_violation(case.with_(unchecked=False), cc, bc.vm, dec, p, 'checked build reaches a committed halt')
                except Inconclusive as e:
                    res['inconclusive'].append('%s: %s' % (case.name, e))
                    continue
                if v == 'infeasible':
                    st.discharged += 1
                elif v is None:
                    res['harness_errors'].append('%s: committed halt did not replay' % case.name)
                else:
                    res['violations'].append(v)
            continue
        if mode == 'halt':
            st.obligations += 1
            st.discharged += 1        # this path ends in win/error loop or a proven cycle: no halt
        if p.kind not in ('done', 'diverge', 'diverge-output') or is_fault_path(p):
            continue
        # fault-free checked path: the unchecked build under this path's condition
        nfree += 1
        bu = build(case.with_(unchecked=True), compiled=cu, max_steps=max_steps, deadline=time.time() + task.get('vm_wall', 120))
        upaths = bu.vm.run(assumptions=p.conds)
        st.add_vm(bu.vm, upaths)
        for q in upaths:
            st.obligations += 1
            if q.kind in ('bound', 'unknown'):
                res['inconclusive'].append('%s: unchecked path %s (%s)' % (case.name, q.kind, q.info))
                continue
            try:
                if q.kind == 'halt' or (mode == 'diff' and q.kind in ('unspecified', 'violation')):
                    if mode == 'halt' and q.kind != 'halt':
                        st.discharged += 1
                        continue
                    v = halt_violation(case.with_(unchecked=True), cu, bu.vm, dec, q,
                                       'unchecked build %s on an input whose checked run is fault-free' %
                                       ('reaches a committed halt' if q.kind == 'halt' else 'reaches ISA-unspecified behaviour'))
                    if v == 'infeasible':
                        st.discharged += 1
                    elif v is None:
                        # the symbolic path stopped at an access whose address could not be enumerated: the inputs of this
                        # path are replayed concretely on both builds (a few models), any difference is the violation
                        v2 = wide_path_difference(case, cc, bc.vm, dec, q)
                        if v2 is None:
                            res['inconclusive'].append('%s: unchecked path %s (%s) could not be decided' % (case.name, q.kind, q.info))
                        else:
                            res['violations'].append(v2)
                    else:
                        res['violations'].append(v)
                    continue
                if mode == 'halt':
                    st.discharged += 1
                    continue
                if q.kind == p.kind == 'diverge-output':
                    n = min(len(p.events), len(q.events))
                    d = events_differ_cond(dec.T, p.events[:n], q.events[:n])
                else:
                    d = True if q.kind != p.kind else events_differ_cond(dec.T, p.events, q.events)
                if d is None:
                    st.discharged += 1
                    st.syntactic += 1
                    continue
                m = dec.check(list(q.conds) + ([d] if d is not True else []))
                if m is None:
                    st.discharged += 1
                    continue
                argv = argv_for_compiled(cc, model_argv(bc.vm, m), case.word)
                pc = run_concrete_case(case.with_(unchecked=False), argv)
                pu = run_concrete_case(case.with_(unchecked=True), argv)
                if (pc.kind, conc_events(pc.events)) == (pu.kind, conc_events(pu.events)):
                    res['harness_errors'].append('%s: checked/unchecked difference did not replay (argv %s)' % (case.name, argv))
                else:
                    res['violations'].append(dict(
                        what='--unchecked changes the behaviour of a fault-free run', case=case.name,
                        replay=dict(type='vm-events', src=case.src, word=case.word, stack=case.stack, unchecked=True,
                                    argv=jsonable_argv(argv), expected=[conc_events(pc.events)], expected_kind=pc.kind,
                                    observed=dict(kind=pu.kind, events=conc_events(pu.events), info=str(pu.info)))))
            except Inconclusive as e:
                res['inconclusive'].append('%s: %s' % (case.name, e))
    res['fault_free_paths'] = nfree
    st.queries += dec.nq
    st.solver_s += dec.tq
    res['stats'] = st.as_dict()
    return res
