"""Program families ("templates", DESIGN §4.5).  Every function returns a list of Case objects.
Enumerated parts are deterministic; sampled parts are seeded by VERIF_SEED.

Observation discipline: words are observed with sleep(e), bytes with write(e is byte) / write(b),
markers with write('X'); write(int) is avoided outside C17 because it forks on sign and digit count.
"""
import itertools
import os
import random

from .harness import Case

EX = os.path.join(os.environ.get('HIDC_ROOT', '/repo'), 'examples')


def C(name, src, **arrays):
    return Case(src, arrays=arrays, name=name)


# --------------------------------------------------------------------------------------
# T-seq: sequential semantics (C01)
# --------------------------------------------------------------------------------------
SEQ_PRELUDE = """
int g = 3;
byte gb = 7;
bool gf = true;
string gs = "glob";
int[] ga = [1, 2, 3];
const int[] gc = [4, 5, 6];
byte[] gba = [10, 20, 30];
bool[] gfa = [true, false, true, true, false, false, true, false, true, true];
const int K = 11;
const byte KB = 'k';
int bump(int k) { g = g + k; return g; }
int f(int p) { g += p; return g * 2; }
int h(int a, int b) { return a - b; }
int h3(int a, int b, int c) { return a * 100 + b * 10 + c; }
byte bf(byte b) { gb = b; return b; }
bool pf(int a) { sleep(a); return a > 0; }
bool note(byte m, bool r) { write(m); return r; }
empty m(int[] a, int i, int v) { a[i] = v; }
int sum(const int[] a) { int s = 0; for (int i = 0; i < a.length; i += 1) { s += a[i]; } return s; }
"""


def seq_enumerated():
    P = SEQ_PRELUDE
    out = []

    def T(name, body, sig='int x, int y', extra='', **arrays):
        out.append(C('seq/' + name, P + extra + 'empty @is_you(%s) {\n%s\n}\n' % (sig, body), **arrays))

    # evaluation order with side effects
    T('order-sub', 'sleep(bump(x) - bump(y)); sleep(g);')
    T('order-global-left', 'sleep(g + bump(x)); sleep(g);')
    T('order-global-right', 'sleep(bump(x) * g); sleep(g);')
    T('order-global-cmp', 'if (g < bump(x)) { write(\'T\'); } else { write(\'F\'); } sleep(g);')
    T('order-args', 'sleep(h3(bump(1), bump(x), bump(3))); sleep(g);')
    T('order-literal', 'int[] a = [bump(x), bump(y), g]; sleep(a[0]); sleep(a[1]); sleep(a[2]);')
    T('order-index-rhs', 'int[] a = [0, 0]; a[bump(1) % 2] = bump(x); sleep(a[0]); sleep(a[1]); sleep(g);')
    T('order-compound-elem', 'int[] a = [5, 6]; a[bump(0) % 2] += bump(x); sleep(a[0]); sleep(a[1]);')
    T('order-compound-var', 'int v = y; v -= bump(x); sleep(v); g *= bump(2); sleep(g);')
    T('order-nested-calls', 'sleep(h(f(x), f(y))); sleep(h(h(x, 1), h(2, y)));')
    T('order-byte-global', 'sleep(gb + bf(x is byte)); write(gb);')
    T('order-string-global', 'write(gs[0]); gs = "new"; write(gs[1]); sleep(gs.length);')
    T('order-idx-global', 'ga[g % 3] = bump(1); sleep(ga[0]); sleep(ga[1]); sleep(ga[2]);')
    T('order-byteidx-global', 'gba[g % 3] = bf(x is byte); write(gba[0]); write(gba[1]);')
    T('order-bare-global-index-byte', "gi = 1; gba[gi] = nxtb(x); write(gba[0]); write(gba[1]); write(gba[2]); sleep(gi);", extra="int gi = 0;\nbyte nxtb(int v) { gi = v; return 'n'; }\n")
    T('order-bare-global-index-int', "gi = 2; ga[gi] = nxti(x); sleep(ga[0]); sleep(ga[1]); sleep(ga[2]); sleep(gi);", extra="int gi = 0;\nint nxti(int v) { gi = v; return 77; }\n")
    T('order-bare-global-index-bool', "gi = 3; gfa[gi] = nxto(x); sleep(gfa[3] is int); sleep(gfa[0] is int); sleep(gi);", extra="int gi = 0;\nbool nxto(int v) { gi = v; return false; }\n")
    T('order-bare-global-index-compound', "gi = 0; ga[gi] += nxti(x); gba[gi] += nxtb(y); sleep(ga[0]); write(gba[0]); sleep(gi);", extra="int gi = 0;\nint nxti(int v) { gi = v; return 77; }\nbyte nxtb(int v) { gi = v; return 1; }\n")
    T('order-bare-global-index-read', "gi = 1; sleep(ga[gi] + nxti(x)); write(gba[gi]); sleep(nxti(2) * ga[gi]);", extra="int gi = 0;\nint nxti(int v) { gi = v % 3; if (gi < 0) { gi = 0; } return 7; }\n")
    T('order-local-array-global-index', "byte[] buf = ['a', 'b', 'c']; int canary = 12345; gi = 2; buf[gi] = nxtb(x); write(buf); sleep(canary);", extra="int gi = 0;\nbyte nxtb(int v) { gi = v; return 'n'; }\n")
    # short circuit
    T('short-and', "if (note('a', x > 0) and note('b', y > 0)) { write('T'); } else { write('F'); }")
    T('short-or', "if (note('a', x > 0) or note('b', y > 0)) { write('T'); } else { write('F'); }")
    T('short-value', "bool r = note('a', x > 0) and (note('b', y > 0) or note('c', x == y)); sleep(r is int);")
    T('short-not', "bool r = not (note('a', x > 0) or not note('b', y > 0)); sleep(r is int);")
    T('short-while', "int i = 0; while (i < 3 and note('w', x != i)) { i += 1; } sleep(i);")
    # scoping and shadowing
    T('shadow-global', 'sleep(g); { int g = x; g += 1; sleep(g); { sleep(g); } } sleep(g); bump(1); sleep(g);')
    T('shadow-in-func', 'sleep(g);', extra='')
    T('shadow-param', 'sleep(shadow(x)); sleep(g);', extra='int shadow(int g) { g += 1; return g; }\n')
    T('shadow-loop', 'for (int g = 0; g < 2; g += 1) { sleep(g); } sleep(g);')
    T('scope-blocks', 'int a = x; { int b = y; a += b; } { int c = 5; a += c; } sleep(a);')
    T('const-global', 'sleep(K + x); write(KB); sleep(gc[1] + K);')
    # by value / by reference
    T('by-value', 'int v = x; sleep(chg(v)); sleep(v);', extra='int chg(int p) { p += 1; return p; }\n')
    T('by-ref', 'int[] a = [x, y]; m(a, 0, 9); sleep(a[0]); sleep(a[1]);')
    T('alias', 'int[] a = [x, y]; int[] b = a; b[1] = 7; sleep(a[1]); a[0] = 3; sleep(b[0]); sleep(sum(a));')
    T('by-ref-global', 'm(ga, 1, x); sleep(ga[1]); sleep(sum(ga));')
    T('byte-by-value', 'byte v = x is byte; write(bchg(v)); write(v);', extra='byte bchg(byte p) { p += 1; return p; }\n')
    T('arg-array', 'sleep(sum(xs)); xs[0] = 5; sleep(sum(xs)); sleep(xs.length);', sig='int[] xs', xs=3)
    T('arg-array-byref', 'm(xs, 1, 77); sleep(xs[0]); sleep(xs[1]);', sig='int[] xs', xs=2)
    # overloads
    OV = ("empty o(int a) { write('i'); }\nempty o(byte a) { write('b'); }\nempty o(bool a) { write('o'); }\n"
          "empty o(string a) { write('s'); }\nempty o(const int[] a) { write('I'); }\nempty o(const byte[] a) { write('B'); }\n"
          "empty o(int a, byte b) { write('1'); }\nempty o(byte a, int b) { write('2'); }\nempty o(int a, int b) { write('3'); }\n")
    T('overloads', "o(x); o(x is byte); o(x > 0); o(\"s\"); o([x]); o(['a']); o(gba); o(ga); o(1); o('c'); o(x, 'a'); o('a', x); o(x, x); o('a', 'b'); o(1, 2);", extra=OV)
    OV2 = "int p(int a) { return 1; }\nint p(byte a) { return 2; }\nint q(const byte[] a) { return 3; }\nint q(const int[] a) { return 4; }\n"
    T('overloads2', 'sleep(p(5)); sleep(p(x)); sleep(p(gb)); sleep(p(gb + 1)); sleep(q([1, 2])); sleep(q([x])); sleep(q("ab")); sleep(q([gb]));', extra=OV2)
    # recursion
    T('fact', 'sleep(fact(x % 4));', extra='int fact(int n) { if (n <= 0) { return 1; } return n * fact(n - 1); }\n')
    T('fib', 'sleep(fib(x % 4));', extra='int fib(int n) { if (n < 2) { return n; } return fib(n - 1) + fib(n - 2); }\n')
    T('mutual', 'sleep(ev(x % 4) is int);', extra='bool ev(int n) { if (n <= 0) { return true; } return od(n - 1); }\nbool od(int n) { if (n <= 0) { return false; } return ev(n - 1); }\n')
    T('rec-array', 'int[] a = [x, y, 3]; sleep(rsum(a, 0));', extra='int rsum(const int[] a, int i) { if (i >= a.length) { return 0; } return a[i] + rsum(a, i + 1); }\n')
    # loops
    T('while-count', 'int i = 0; int s = 0; while (i < x % 4) { s += i; i += 1; } sleep(s); sleep(i);')
    T('for-break-continue', "for (int i = 0; i < 4; i += 1) { if (i == x) { continue; } if (i == y) { break; } write('a' + i); } write('.');")
    T('nested-loops', "for (int i = 0; i < 2; i += 1) { for (int j = 0; j < 3; j += 1) { if (j == x) { break; } if (i == y) { continue; } write('0' + i * 3 + j); } } write('.');")
    T('loop-array-body', 'for (int i = 0; i < 3; i += 1) { int[] a = [i, x]; if (i == y) { continue; } sleep(a[0] + a[1]); } sleep(g);')
    T('loop-forever-break', 'int i = x % 4; while (true) { if (i <= 0) { break; } i -= 1; write(\'l\'); } sleep(i);')
    # arrays of each element type
    T('int-array', 'int[] a = [x, y, 5]; a[1] += a[0]; a[2] = a[1] * 2; sleep(a[0]); sleep(a[1]); sleep(a[2]); sleep(a.length);')
    T('byte-array', "byte[] a = [x is byte, 'q', 3]; a[1] = y is byte; a[2] += 1; write(a[0]); write(a[1]); write(a[2]); write(a);")
    T('bool-array', 'bool[] a = [x > 0, false, true, y > 0, x == y, true, false, true, x < y]; a[1] = y > 0; a[8] = not a[8]; for (int i = 0; i < a.length; i += 1) { if (a[i]) { write(\'1\'); } else { write(\'0\'); } }')
    T('bool-array-sym-idx', 'bool[] a = [true, false, false, true, false, false, false, false, true, false]; int i = x % 10; if (i < 0) { i = -i; } a[i] = y > 0; sleep(a[i] is int); sleep(a[(i + 1) % 10] is int);')
    T('vla-int', 'int n = x % 3; if (n < 0) { n = 0; } int a[n + 1]; for (int i = 0; i <= n; i += 1) { a[i] = i * y; } sleep(a[n]); sleep(a.length);')
    T('vla-byte', 'byte a[3]; a[0] = x is byte; a[1] = \'b\'; a[2] = a[0]; write(a);')
    T('vla-bool', 'bool a[10]; for (int i = 0; i < 10; i += 1) { a[i] = i == x; } for (int i = 0; i < 10; i += 1) { sleep(a[i] is int); }')
    T('sym-index', 'int i = x % 3; if (i < 0) { i = -i; } sleep(ga[i]); ga[i] = y; sleep(ga[0] + ga[1] + ga[2]); sleep(gc[i]); write(gba[i]);')
    T('global-bool-array', 'gfa[x % 10] = false; for (int i = 0; i < gfa.length; i += 1) { sleep(gfa[i] is int); }')
    T('string-ops', 'string s = "hello"; write(s[1]); sleep(s.length); s = "yo"; write(s); sleep(s.length); write(pick(x > 0)); write(pick(y > 0)[0]);', extra='string pick(bool b) { if (b) { return "yes"; } return "no"; }\n')
    T('string-array', 'string[] a = ["a", "bc", "def"]; a[1] = "Z"; for (int i = 0; i < 3; i += 1) { write(a[i]); sleep(a[i].length); }')
    T('string-to-bytes', 'const byte[] b = "xyz" is byte[]; write(b[x % 3 * (x % 3)]); sleep(b.length); write(b);')
    T('literal-index', 'sleep([x, y, 3][1]); sleep([x + 1, y][0]); write("abc"[1]); write([\'p\', \'q\'][0]);')
    T('length-forms', 'sleep(ga.length + gc.length + gba.length + gfa.length + "four".length); sleep((ga is bool) is int); sleep(("" is bool) is int);')
    T('bool-cast-value', "bool b = x is bool; sleep(b is int); sleep((not b) is int); if (b == true) { write('T'); } bool[] a = [b, y is bool, false]; sleep(a[1] is int); a[2] = x is bool; sleep(a[2] is int); sleep(((x is byte) is bool) is int);")
    T('vla-then-array', 'int n = x % 3; if (n < 1) { n = 1; } int a[n]; a[n - 1] = 7; int[] b = [y, y, y]; sleep(a[n - 1]); sleep(b[0]); a[0] = 5; sleep(b[2]); sleep(a[0]);')
    T('vla-then-vla', 'int n = x % 3; if (n < 1) { n = 1; } int a[n]; bool f[n + 8]; byte c[n]; a[n - 1] = y; c[0] = 9; f[n + 7] = true; f[0] = true; sleep(a[n - 1]); write(c[0]); sleep(f[n + 7] is int);')
    T('vla-string-then-array', 'int n = x % 3; if (n < 1) { n = 1; } string a[n]; a[n - 1] = "zz"; int[] b = [y, y]; write(a[n - 1]); sleep(b[1]); b[0] = 1; write(a[n - 1]);')
    # many arguments / deep expression temporaries
    T('deep-expr', 'sleep(((x + 1) * (y + 2)) - ((x - 3) * (y - 4)) + (h(x, y) * h(y, x)));')
    T('deep-keep', 'sleep(f(x) + f(y) * (f(1) - f(2)));')
    T('byte-temps', 'byte a = x is byte; byte b = y is byte; sleep(a + b * 2); sleep(bf(a) + bf(b) * bf(3));')
    T('mixed-frame', "byte a = 'a'; int i = x; byte b = 'b'; int j = y; bool t = x > y; write(a); write(b); sleep(i - j); sleep(t is int);")
    T('ret-byte-bool', "write(rb(x)); sleep(rt(x, y) is int);", extra="byte rb(int v) { return v is byte; }\nbool rt(int a, int b) { return a < b; }\n")
    T('terminal-calls', "if (x > 0) { write('w'); all_is_win(); } if (y > 0) { write('b'); all_is_broken(); } write('e');")
    T('flags', "debug(); progress(); sleep(x); debug();")
    # an array literal creates a NEW array each time it is evaluated (second call / next iteration / recursion sees fresh contents)
    T('fresh-literal-calls', "sleep(bumpl(x)); sleep(bumpl(y)); sleep(bumpl(1));", extra="int bumpl(int v) { int[] a = [1, 2, 3]; a[0] += v; a[2] = a[0] + a[1]; return a[2]; }\n")
    T('fresh-literal-loop', "for (int i = 0; i < 3; i += 1) { int[] a = [5, 6]; byte[] t = [0, 0]; bool[] s = [false, false]; sleep(a[0]); write('0' + t[1]); sleep(s[0] is int); a[0] = x + i; t[1] = 7; s[0] = true; }")
    T('fresh-literal-rec', "sleep(recl(x % 3));", extra="int recl(int n) { int[] a = [10, 20]; if (n > 0) { a[0] = recl(n - 1) + 1; } a[1] += a[0]; return a[1]; }\n")
    T('fresh-literal-bytes', "write(tag(x)); write(tag(y)); write(tag(0));", extra="byte tag(int v) { byte[] t = ['a', 'b']; t[0] += v is byte; t[1] = t[0]; return t[1]; }\n")
    T('fresh-literal-strings', "write(nm(x)); write(nm(0));", extra="string nm(int v) { string[] t = [\"p\", \"q\"]; if (v > 0) { t[0] = \"Z\"; } return t[0]; }\n")
    # writing empty byte arrays / strings of every storage class (run-time length 0, constant length 0)
    T('write-empty-vla', "int n = x % 3; byte buf[n]; for (int i = 0; i < n; i += 1) { buf[i] = ('a' + i) is byte; } write('['); write(buf); write(']'); writeln(buf); sleep(buf.length);")
    T('write-empty-consts', "write('['); write(ke); write(']'); writeln(ke); const byte[] le = []; write(le); show(le); show(ke); show(\"\"); show(\"\" is byte[]); write(\"\"); write(']'); byte[] me = []; write(me); writeln(me); sleep(ke.length + le.length + me.length);",
      extra="const byte[] ke = [];\nempty show(const byte[] a) { write('<'); write(a); write('>'); }\n")
    T('write-empty-arg-bytes', "write('['); write(xs); write(']'); writeln(xs); sleep(xs.length);", sig='byte[] xs', xs=0)
    T('write-empty-arg-string', "write('['); write(s); write(']'); writeln(s); write(s is byte[]); sleep(s.length);", sig='string s', s=[0])
    T('write-empty-arg-cbytes', "write('['); write(cs); write(']'); writeln(cs); sleep(cs.length);", sig='const byte[] cs', cs=0)
    # a loop whose body always leaves is still a loop that may run zero times: what follows it is reachable
    T('loop-body-always-leaves', "sleep(lf(x)); sleep(lg(y)); write('.');",
      extra="int lf(int v) { while (v > 3) { return 1; } sleep(v); for (int i = 0; i < v; i += 1) { if (i > 0) { return 2; } else { return 3; } } write('e'); return 4; }\n"
            "int lg(int v) { int n = 0; for (int k = 0; k < 2; k += 1) { while (v > k) { n += 1; break; } while (v < 0) { return n; } n += 10; } return n; }\n")
    T('const-false-loops', "while (DBG) { write('d'); } write('a'); for (; 1 > 2;) { write('x'); } write('b'); while (false) { } for (int i = 0; DBG; i += 1) { write('y'); } write('c'); nop(); write('e'); sleep(x);",
      extra="const bool DBG = false;\nempty nop() { while (DBG) { write('n'); } }\n")
    T('const-true-loops', "int n = 0; while (ON) { n += 1; if (n > x % 3) { break; } } sleep(n); for (; 2 > 1;) { n += 1; if (n > 4) { break; } } sleep(n); sleep(first(y));",
      extra="const bool ON = true;\nint first(int v) { for (int i = 0; ON; i += 1) { if (i * i >= v % 10) { return i; } } }\n")
    # byte / bool globals assigned computed values while their neighbours in the state section hold non-zero data
    T('byte-global-neighbours', "level = x is byte; sleep(score); lives -= 1; sleep(hi); done = x > 3; write(lives); sleep(score + hi); level = (y + 1) is byte; sleep(score); flag2 = not done; sleep(last); "
      "level += 3; lives = level; write(level); write(lives); sleep(done is int); sleep(flag2 is int); sleep(score); sleep(hi); sleep(last);",
      extra="byte level = 1;\nint score = 300;\nbool done = false;\nbyte lives = 3;\nint hi = 77;\nbool flag2 = true;\nint last = 31000;\n")
    # lexical scoping: a local that shadows a global dies with its block, however the block is left
    for ex in ('break', 'continue', 'return'):
        T('shadow-exit-' + ex, "sleep(sh(x)); sleep(g); g += 1; sleep(g);",
          extra="int sh(int v) { for (int i = 0; i < 2; i += 1) { if (i == v) { int g = 50; g += i; sleep(g); %s; } sleep(g); g += 10; } sleep(g); g += 100; return g; }\n" % ('return g' if ex == 'return' else ex))
    T('shadow-exit-bare-block', "sleep(sb(x)); sleep(g);", extra="int sb(int v) { while (true) { { byte gb = 'q'; int g = v; if (g > 0) { break; } } g += 1; gb = 9; break; } g += 5; write(gb); return g; }\n")
    T('shadow-exit-try', "sleep(@st(x)); sleep(g);", extra="int @st(int v) { for (int i = 0; i < 2; i += 1) { try { int g = v; !truth_is_defeat(g > 5); if (g > 0) { continue; } } undo { int g = 70; sleep(g); break; } g += 3; } g += 20; return g; }\n")
    T('shadow-param-and-nested', "sleep(sp(x, y)); sleep(g); sleep(K);", extra="int sp(int g, int K) { if (g > K) { return g + K; } g += 1; { int q = 2; g += q; } return g * K; }\n")
    # constants narrowed to byte at compile time and widened or compared again (truncation must happen where the cast is)
    T('const-cast-chain', "sleep((300 is byte) is int); sleep((-1 is byte) is int); sleep(CM + 0); sleep(((K + 300) is byte) is int); if ((300 is byte) == 44) { write('y'); } else { write('n'); } "
      "byte q = 511 is byte; sleep(q); sleep((CM is int) * 2); sleep(((256 + x) is byte) is int); write(CM); write(300 is byte); if (CM > 200) { write('G'); } sleep((KB is int) + (('a' is int) is byte));",
      extra='const byte CM = -1;\n')
    T('const-cast-narrow-init', "byte m = -1; sleep(m); const byte c = 300; sleep(c); byte[] a = [257, -2, x is byte]; sleep(a[0]); sleep(a[1]); gb = 258; sleep(gb); sleep(bf(259));")
    # dynamic arrays whose length comes from every kind of place, followed by another allocation, written at their last element
    for el, val, obs in (('int', 'x', 'sleep(a[n - 1]);'), ('byte', "'z'", 'write(a[n - 1]);'), ('bool', 'x > y', 'sleep(a[n - 1] is int);'), ('string', '"s"', 'write(a[n - 1]);')):
        for lname, setup, lexp in (('global', 'glen = 11;', 'glen'), ('global-expr', 'glen = 11;', 'glen + 0'), ('local', 'int ln = 11;', 'ln'), ('literal', '', '11'), ('const', '', 'K'),
                                   ('param', '', 'x % 4 + 9'), ('global-13', 'glen = 13;', 'glen')):
            T('vla-%s-len-%s' % (el, lname), "%s %s a[%s]; int n = a.length; int[] b = [x, y, 7]; a[n - 1] = %s; a[0] = %s; b[0] += 1; sleep(n); %s sleep(b[0]); sleep(b[2]);" % (setup, el, lexp, val, val, obs),
              extra='int glen = 3;\n')
    # an element of an array of strings (or a string held elsewhere) indexed by an expression that itself indexes or calls
    T('nested-string-index', "string[] names = [\"lab\", \"bra\"]; write(names[x % 2][key[y % 3] - '0']); write(names[y % 2][idx(x)]); write(gs[key[x % 3] - '0']); "
      "write(pick(names, x)[gba[0] - 10 + y % 2]); string s = names[1]; write(s[key[y % 3] - '0']); write(names[idx(y) % 2][names[0].length - 1 - idx(x)]); write(cnames[x % 2][key[idx(y)] - '0']);",
      extra="const byte[] key = ['0', '1', '2'];\nconst string[] cnames = [\"xyz\", \"uvw\"];\nint idx(int v) { return v % 3; }\nstring pick(const string[] a, int v) { return a[v % 2]; }\n")
    T('nested-array-index', "int[] t = [2, 0, 1]; sleep(ga[t[x % 3]]); sleep(gc[t[t[y % 3]]]); ga[t[x % 3]] = gc[t[y % 3]] + t[h(x, x)]; sleep(ga[0] + ga[1] * 10 + ga[2] * 100); write(gba[t[bump(0) % 3]]); gfa[t[y % 3] + 7] = gfa[t[x % 3]]; sleep(gfa[8] is int);")
    # every kind of string source indexed by every kind of index expression (a string in a register must survive the evaluation of its index)
    SSRC = [('global', 'gs3'), ('local', 'ls'), ('stack-elem', 'names[x % 2]'), ('const-elem', 'cnames[x % 2]'), ('call', 'pick(names, x)'), ('literal', '"pqr"'), ('param', None)]
    SIDX = [('var', 'i'), ('local-string', "ls[i] - '0'"), ('global-string', "gks[i] - '0'"), ('bytes', "kb[i] - '0'"), ('call', 'idx(i + 3)'), ('arith', '(i + 1) % 3'), ('ints', 't[i]'),
            ('nested-elem', "names[1][i] - 'd'"), ('const-elem-string', "cnames[0][i] - 'g'")]
    for (sn, se), (xn, xe) in itertools.product(SSRC, SIDX):
        pre = "string ls = \"102\"; string[] names = [\"abc\", \"def\"]; byte[] kb = ['2', '0', '1']; int[] t = [1, 2, 0]; int i = y % 3;"
        if sn == 'param':
            T('string-index-%s-%s' % (sn, xn), pre + " look(names[x % 2], ls, names, kb, t, i); look(\"uvw\", ls, names, kb, t, i);",
              extra="string gs3 = \"mno\";\nstring gks = \"021\";\nconst string[] cnames = [\"ghi\", \"jkl\"];\nint idx(int v) { return v %% 3; }\n"
                    "empty look(string ps, string ls, const string[] names, const byte[] kb, const int[] t, int i) { write(ps[%s]); }\n" % xe)
        else:
            T('string-index-%s-%s' % (sn, xn), pre + " write(%s[%s]); write('.');" % (se, xe),
              extra="string gs3 = \"mno\";\nstring gks = \"021\";\nconst string[] cnames = [\"ghi\", \"jkl\"];\nint idx(int v) { return v % 3; }\nstring pick(const string[] a, int v) { return a[v % 2]; }\n")
    # constant bool tables whose packed bytes coincide although their lengths differ (global and local), and 0/1 byte tables beside them
    T('packed-bool-tables', "sleep(a3.length); sleep(a5.length); sleep(b9.length); sleep(b16.length); sleep(a5[i % 5] is int); sleep(a3[i % 3] is int); sleep(b16[i % 16] is int); sleep(b9[i % 9] is int); "
      "const bool[] l3 = [false, true, true]; const bool[] l6 = [false, true, true, false, false, false]; sleep(l3.length + l6.length * 10); sleep(l6[i % 6] is int); const byte[] d3 = [0, 1, 1]; write(d3[i % 3]); sleep(l3[i % 3] is int);",
      sig='byte i', extra="const bool[] a3 = [true, false, true];\nconst bool[] a5 = [true, false, true, false, false];\nconst bool[] b9 = [true, true, false, false, true, false, false, false, true];\n"
      "const bool[] b16 = [true, true, false, false, true, false, false, false, true, false, false, false, false, false, false, false];\n")
    return out


def entry_matrix():
    """entry-point argument binding: every allowed scalar/array/mixed signature"""
    out = []

    def T(name, sig, body, **arrays):
        out.append(C('entry/' + name, 'empty @is_you(%s) {\n%s\n}\n' % (sig, body), **arrays))
    T('none', '', "write('k');")
    T('int', 'int a', 'sleep(a);')
    T('byte', 'byte a', 'write(a); sleep(a);')
    T('string', 'string s', 'write(s); sleep(s.length);', s=[3])
    T('string0', 'string s', 'write(s); sleep(s.length);', s=[0])
    T('int-int', 'int a, int b', 'sleep(a); sleep(b);')
    T('int-byte-string', 'int a, byte b, string s', 'sleep(a); write(b); write(s);', s=[2])
    T('string-int', 'string s, int a', 'write(s); sleep(a);', s=[1])
    T('byte-byte-int', 'byte a, byte b, int c', 'write(a); write(b); sleep(c);')
    for n in (0, 1, 3):
        T('ints%d' % n, 'int[] xs', 'sleep(xs.length); for (int i = 0; i < xs.length; i += 1) { sleep(xs[i]); }', xs=n)
        T('cints%d' % n, 'const int[] xs', 'sleep(xs.length); for (int i = 0; i < xs.length; i += 1) { sleep(xs[i]); }', xs=n)
        T('bytes%d' % n, 'byte[] xs', 'sleep(xs.length); write(xs);', xs=n)
        T('cbytes%d' % n, 'const byte[] xs', 'sleep(xs.length); write(xs);', xs=n)
    T('strings0', 'const string[] xs', 'sleep(xs.length);', xs=[])
    T('strings2', 'const string[] xs', 'sleep(xs.length); for (int i = 0; i < xs.length; i += 1) { write(xs[i]); sleep(xs[i].length); }', xs=[2, 1])
    T('int-ints', 'int a, int[] xs', 'sleep(a); sleep(xs.length); sleep(xs[1]);', xs=2)
    T('ints-int', 'int[] xs, int a', 'sleep(a); sleep(xs.length); sleep(xs[0]);', xs=2)
    T('string-ints', 'string mode, const int[] xs', 'write(mode); sleep(xs.length); sleep(xs[0] + xs[1]);', mode=[1], xs=2)
    T('int-strings-byte', 'int a, const string[] xs, byte b', 'sleep(a); write(b); write(xs[0]); write(xs[1]);', xs=[1, 2])
    T('byte-bytes-string', 'byte a, byte[] xs, string s', 'write(a); xs[0] = a; write(xs); write(s);', xs=2, s=[1])
    T('mutate-arg', 'int[] xs', 'xs[0] += 1; xs[1] = xs[0] * 2; sleep(xs[0]); sleep(xs[1]);', xs=2)
    return out


class SeqGen:
    """seeded random sequential programs (port of the design-round generator)"""

    def __init__(self, rnd):
        self.r = rnd
        self.n = 0
        self.ints = ['x', 'y', 'g']
        self.bytes = ['z', 'gb']
        self.bools = ['gf']
        self.iarrs = ['ga', 'gc']
        self.marrs = ['ga']
        self.barrs = ['gba']

    def fresh(self, p):
        self.n += 1
        return '%s%d' % (p, self.n)

    def idx(self, d):
        r = self.r.random()
        if r < 0.6:
            return str(self.r.randrange(3))
        if r < 0.8:
            return '(%s) %% 3' % self.int_e(d - 1)
        return self.int_e(d - 1)

    def int_e(self, d):
        r = self.r
        if d <= 0 or r.random() < 0.25:
            c = r.random()
            if c < 0.45:
                return r.choice(self.ints)
            if c < 0.6:
                return r.choice(self.bytes)
            return str(r.choice([0, 1, 2, 3, 7, 255, 256, 32767, 1000]))
        c = r.random()
        if c < 0.35:
            return '(%s %s %s)' % (self.int_e(d - 1), r.choice(['+', '-', '*', '/', '%']), self.int_e(d - 1))
        if c < 0.45:
            return '(-%s)' % self.int_e(d - 1)
        if c < 0.55:
            return '%s[%s]' % (r.choice(self.iarrs), self.idx(d))
        if c < 0.6:
            return '%s[%s]' % (r.choice(self.barrs), self.idx(d))
        if c < 0.7:
            return 'f(%s)' % self.int_e(d - 1)
        if c < 0.78:
            return 'h(%s, %s)' % (self.int_e(d - 1), self.int_e(d - 1))
        if c < 0.83:
            return 'sum(%s)' % r.choice(self.iarrs)
        if c < 0.88:
            return '(%s is int)' % self.bool_e(d - 1)
        if c < 0.93:
            return '((%s) is byte)' % self.int_e(d - 1)
        if c < 0.96:
            return '%s.length' % r.choice(self.iarrs)
        return '[%s, %s, 5][%s]' % (self.int_e(d - 1), self.int_e(d - 1), self.idx(d))

    def byte_e(self, d):
        r = self.r
        c = r.random()
        if c < 0.4:
            return r.choice(self.bytes)
        if c < 0.6:
            return '((%s) is byte)' % self.int_e(d - 1)
        if c < 0.8:
            return 'bf(%s)' % self.byte_e(d - 1) if d > 0 else r.choice(self.bytes)
        return '%s[%s]' % (r.choice(self.barrs), self.idx(d))

    def bool_e(self, d):
        r = self.r
        if d <= 0 or r.random() < 0.2:
            return r.choice(self.bools + ['true', 'false'])
        c = r.random()
        if c < 0.45:
            return '(%s %s %s)' % (self.int_e(d - 1), r.choice(['==', '!=', '<', '<=', '>', '>=']), self.int_e(d - 1))
        if c < 0.6:
            return '(%s and %s)' % (self.bool_e(d - 1), self.bool_e(d - 1))
        if c < 0.75:
            return '(%s or %s)' % (self.bool_e(d - 1), self.bool_e(d - 1))
        if c < 0.85:
            return '(not %s)' % self.bool_e(d - 1)
        if c < 0.92:
            return 'pf(%s)' % self.int_e(d - 1)
        if c < 0.96:
            return '((%s) is bool)' % self.int_e(d - 1)
        return '(%s == %s)' % (self.bool_e(d - 1), self.bool_e(d - 1))

    def stmt(self, d, loop=False):
        r = self.r
        c = r.random()
        if c < 0.15:
            v = self.fresh('i')
            s = 'int %s = %s;' % (v, self.int_e(2))
            self.ints = self.ints + [v]
            return s
        if c < 0.2:
            v = self.fresh('b')
            s = 'byte %s = %s;' % (v, self.byte_e(2))
            self.bytes = self.bytes + [v]
            return s
        if c < 0.25:
            v = self.fresh('o')
            s = 'bool %s = %s;' % (v, self.bool_e(2))
            self.bools = self.bools + [v]
            return s
        if c < 0.32:
            v = self.fresh('a')
            s = 'int[] %s = [%s, %s, %s];' % (v, self.int_e(1), self.int_e(1), self.int_e(1))
            self.iarrs = self.iarrs + [v]
            self.marrs = self.marrs + [v]
            return s
        if c < 0.42:
            return '%s %s %s;' % (r.choice(self.ints), r.choice(['=', '+=', '-=', '*=', '/=', '%=']), self.int_e(2))
        if c < 0.5:
            return '%s[%s] %s %s;' % (r.choice(self.marrs), self.idx(2), r.choice(['=', '+=', '-=', '*=']), self.int_e(2))
        if c < 0.55:
            return '%s[%s] %s %s;' % (r.choice(self.barrs), self.idx(2), r.choice(['=', '+=']), self.byte_e(1))
        if c < 0.62:
            return 'sleep(%s);' % self.int_e(3)
        if c < 0.68:
            return 'write(%s);' % self.byte_e(2)
        if c < 0.72:
            return 'write(%s);' % self.bool_e(2)
        if c < 0.76:
            return 'm(%s, %s, %s);' % (r.choice(self.marrs), self.idx(2), self.int_e(1))
        if d > 0 and c < 0.86:
            return 'if (%s) %s else %s' % (self.bool_e(2), self.block(d - 1, loop), self.block(d - 1, loop))
        if d > 0 and c < 0.92:
            v = self.fresh('k')
            body = self.block(d - 1, True)
            return 'for (int %s = 0; %s < %s; %s += 1) %s' % (v, v, r.choice(['2', '3', '(x %% 3)' % ()]), v, body)
        if loop and c < 0.95:
            return r.choice(['break;', 'continue;'])
        if d > 0:
            return self.block(d - 1, loop)
        return 'sleep(%s);' % self.int_e(1)

    def block(self, d, loop=False):
        saved = (self.ints, self.bytes, self.bools, self.iarrs, self.marrs, self.barrs)
        out = []
        for _ in range(self.r.randrange(1, 4)):
            s = self.stmt(d, loop)
            out.append(s)
            if s in ('break;', 'continue;'):
                break
        (self.ints, self.bytes, self.bools, self.iarrs, self.marrs, self.barrs) = saved
        return '{ ' + ' '.join(out) + ' }'

    def program(self):
        body = [self.stmt(2) for _ in range(self.r.randrange(2, 6))]
        body.append('sleep(g); write(gb); sleep(ga[0] + ga[1] + ga[2]);')
        return SEQ_PRELUDE + 'empty @is_you(int x, int y, byte z) {\n  ' + '\n  '.join(body) + '\n}\n'


def seq_random(seed, n):
    out = []
    for i in range(n):
        s = seed * 100003 + i
        out.append(C('seq/random-%d' % s, SeqGen(random.Random(s)).program()))
    return out



# --------------------------------------------------------------------------------------
# every operator in every position (C01, C03, C15; C09 decides the values against bit-vector formulas)
# --------------------------------------------------------------------------------------
def op_positions():
    out = []
    pre = "int keep(int v) { return v; }\n"

    def T(name, body, sig='int a, int b'):
        out.append(C('oppos/' + name, pre + 'empty @is_you(%s) {\n%s\n}\n' % (sig, body)))
    cmps = {'lt': '<', 'le': '<=', 'gt': '>', 'ge': '>=', 'eq': '==', 'ne': '!='}
    for n, op in cmps.items():
        T('if-' + n, "if (a %s b) { write('t'); } else { write('f'); } write('.');" % op)
        T('if-const-' + n, "if (a %s -1) { write('t'); } else { write('f'); } if (0 %s b) { write('T'); } write('.');" % (op, op))
        T('while-' + n, "int k = 0; while (a %s b) { write('w'); k += 1; if (k > 1) { break; } a = b; } write('.');" % op)
        T('value-' + n, "bool t = a %s b; sleep(t is int); sleep(keep((b %s a) is int));" % (op, op))
        T('not-' + n, "if (not (a %s b)) { write('n'); } else { write('y'); } bool t = not (b %s a); sleep(t is int);" % (op, op))
        T('andor-' + n, "if (a %s b and b %s 3 or a %s 0) { write('t'); } else { write('f'); } write('.');" % (op, op, op))
        T('byte-' + n, "if (p %s a) { write('t'); } else { write('f'); } bool t = p %s q; sleep(t is int); if (p %s 200) { write('u'); }" % (op, op, op), sig='byte p, byte q, int a')
        T('for-' + n, "for (int i = a %% 3; i %s b %% 3 + 1; i += 1) { write('i'); if (i > 3) { break; } } write('.');" % op)
    for n, op in (('add', '+'), ('sub', '-'), ('mul', '*'), ('div', '/'), ('mod', '%')):
        T('arith-' + n, "sleep(a %s b); int c = a; c %s= b; sleep(c); sleep(keep(a) %s keep(b));" % (op, op, op))
        T('arith-byte-' + n, "sleep(p %s q); byte r = (p %s q) is byte; write(r); sleep(p %s a);" % (op, op, op), sig='byte p, byte q, int a')
    T('unary', "sleep(-a); sleep(+a); sleep((not a) is int); sleep(-(-b)); sleep((not (not b)) is int); if (not a) { write('z'); }")
    T('casts', "sleep((a is byte) is int); sleep((a is bool) is int); sleep(((a is bool) is byte) is int); write(a is byte); if (a is bool) { write('t'); } if ((a is byte) is bool) { write('u'); }")
    T('write-int', "write(a); write('.');")
    T('writeln-int-bool', "writeln(a > b); writeln(b); write('.');")
    T('write-str-arg', "write(s); writeln(s); write(s[0]); sleep(s.length);", sig='string s')
    return out


# --------------------------------------------------------------------------------------
# use-site matrix: every kind of expression in every place the generator consumes an operand (C01, C03, C05, C15)
# --------------------------------------------------------------------------------------
US_PRELUDE = """
int g = 3;
byte gb = 7;
bool gf = true;
string gs = "glob";
int[] ga = [1, 2, 0];
const int[] gc = [2, 0, 1];
byte[] gba = [1, 0, 2];
bool[] gfa = [true, false, true, true, false, false, true, false, true, true];
const bool[] gcf = [true, false, true];
const int K = 2;
const byte KB = 1;
const string KS = "klm";
int idf(int v) { return v; }
int two(int a, int b) { return a * 4 + b; }
bool pf(int v) { return v > 1; }
bool andf(bool a, bool b) { return a and b; }
byte bidf(byte v) { return v; }
"""
US_INT = [('lit', '1'), ('local', 'x'), ('local2', 'n'), ('global', 'g'), ('const', 'K'), ('stack-elem', 'a[i]'), ('global-elem', 'ga[i]'), ('const-elem', 'gc[i]'), ('param-elem', 'xs[i]'),
          ('byte-local', 'b'), ('byte-global', 'gb'), ('byte-elem', 'gba[i]'), ('string-elem', 'gs[i]'), ('str-length', 'gs.length'), ('arr-length', 'a.length'), ('call', 'idf(x)'), ('call2', 'two(i, n)'),
          ('add', 'x + n'), ('mul-global', 'i * g'), ('neg', '-x'), ('mod', 'x % 3'), ('div', 'x / n'), ('narrow', '(x is byte)'), ('narrow-computed', '((x + 256) is byte)'), ('bool-int', '(t is int)'),
          ('elem-of-elem', 'ga[gc[i]]'), ('call-elem', 'idf(a[i])'), ('spec', '(idf(x) ?? n)'), ('const-byte', 'KB'), ('byte-call', 'bidf(b)'),
          ('literal-string-elem', '"abc"[i]'), ('const-string-elem', 'KS[i]'), ('global-string-length', 'KS.length')]
US_BOOL = [('lit', 'true'), ('local', 't'), ('global', 'gf'), ('elem', 'gfa[i]'), ('stack-elem', 'fa[i]'), ('lt', 'x < n'), ('eq', 'x == n'), ('ge-const', 'x >= -1'), ('not', 'not t'), ('not-cmp', 'not (x < n)'),
           ('and', 't and x > 0'), ('or', 't or x > 0'), ('call', 'pf(x)'), ('int-bool', '(x is bool)'), ('str-bool', '(gs is bool)'), ('byte-bool', '(b is bool)'), ('and-or', 'x < n and n < 3 or t'),
           ('not-and', 'not (t and x > 0)'), ('eq-bool', 't == gf'), ('spec', '(pf(x) ?? t)')]
US_INT_SITES = [
    ('value', 'sleep({e});'),
    ('store-index-word', 'a[{e}] = 5; sleep(a[0] + a[1] * 3 + a[2] * 9);'),
    ('store-index-byte', "ba[{e}] = 'z'; write(ba);"),
    ('store-index-bool', 'fa[{e}] = x > 0; sleep((fa[0] is int) + (fa[1] is int) * 2 + (fa[2] is int) * 4);'),
    ('store-index-global', 'ga[{e}] = n; sleep(ga[0] + ga[1] * 3 + ga[2] * 9);'),
    ('compound-index', 'a[{e}] += n; sleep(a[0] + a[1] * 3 + a[2] * 9); ba[{e}] -= 1; write(ba);'),
    ('load-index', "sleep(a[{e}]); write(ba[{e}]); sleep(fa[{e}] is int); write(gs[{e}]); sleep(gc[{e}]); sleep(gcf[{e}] is int); sleep(gfa[{e}] is int);"),
    ('store-value', 'a[1] = {e}; sleep(a[1]); g = {e}; sleep(g); n = {e}; sleep(n);'),
    ('compound-value', 'a[1] += {e}; sleep(a[1]); g -= {e}; sleep(g); n *= {e}; sleep(n);'),
    ('vla-length', "int v[({e}) % 4]; write('k'); sleep(v.length); bool w[({e}) % 3 + 7]; w[6] = true; sleep(w.length); sleep(w[6] is int); byte u[(({e}) % 2 + 1) * 3]; u[2] = 'u'; write(u[2]);"),
    ('call-arg', 'sleep(two({e}, 1)); sleep(two(1, {e})); sleep(two({e}, {e}));'),
    ('literal-elem', 'int[] q = [1, {e}, 3]; sleep(q[1]); sleep(q[2]);'),
    ('narrow-init', 'byte nb = ({e}) is byte; write(nb); byte[] q = [({e}) is byte, 9]; write(q);'),
    ('arith-operand', 'sleep({e} + g); sleep(g - {e}); sleep({e} * {e});'),
    ('computed-left', "sleep((x + 1) + {e}); sleep((x * 2) - {e}); if ((n + 1) < {e}) {{ write('l'); }} sleep(idf(x) * {e});"),
    ('cmp-branch', "if ({e} < n) {{ write('l'); }} else {{ write('g'); }} if (n == {e}) {{ write('e'); }}"),
    ('spec-operand', 'sleep({e} ?? n); sleep(idf(n) ?? {e});'),
    ('return', 'sleep(ret(x, n, i));'),
    ('for-bound', "for (int k = 0; k < {e}; k += 1) {{ write('f'); if (k > 1) {{ break; }} }}"),
]
US_BOOL_SITES = [
    ('value', 'sleep(({e}) is int);'),
    ('branch', "if ({e}) {{ write('T'); }} else {{ write('F'); }}"),
    ('while', "while ({e}) {{ write('w'); break; }} write('.');"),
    ('not-branch', "if (not ({e})) {{ write('N'); }} else {{ write('Y'); }}"),
    ('defeat-undo', "try {{ write('a'); !truth_is_defeat({e}); write('b'); }} undo {{ write('c'); }}"),
    ('defeat-stop', "try {{ write('a'); !truth_is_defeat({e}); write('b'); }} stop {{ write('c'); }}"),
    ('store', 'fa[1] = {e}; sleep((fa[0] is int) + (fa[1] is int) * 2 + (fa[2] is int) * 4); gf = {e}; sleep(gf is int);'),
    ('literal-elem', 'bool[] q = [true, {e}, false]; sleep((q[0] is int) + (q[1] is int) * 2 + (q[2] is int) * 4);'),
    ('call-arg', 'sleep(andf({e}, true) is int); sleep(andf(t, {e}) is int);'),
    ('logic-operand', 'sleep((({e}) and gf) is int); sleep((gf or ({e})) is int);'),
    ('return', 'sleep(bret(x, n, i) is int);'),
    ('write', 'write({e});'),
]


def usesite_matrix():
    out = []

    def mk(name, kinds, sites, eb):
        for (kn, e), (sn, site) in itertools.product(kinds, sites):
            if sn == 'spec-operand' and ('??' in e or kn in ('byte-local', 'byte-global', 'byte-elem', 'string-elem', 'narrow', 'narrow-computed', 'const-byte', 'byte-call', 'literal-string-elem', 'const-string-elem')):
                continue        # nested speculation / operands of different types are rejected by the front end
            if sn.startswith('defeat-') and '??' in e:
                continue        # no speculation inside a try body
            body = site.format(e=e)
            needs_spec_ctx = '??' in body
            extra = ''
            if sn == 'return':
                if '??' in e:
                    continue        # ?? is only allowed in you-functions
                extra = ('%s(int x, int n, int i) { int[] a = [0, 2, 1]; int[] xs = [1, 0, 2]; byte b = 2; bool t = x > n; bool[] fa = [true, false, true]; return %s; }\n'
                         % ('int ret' if eb == 'int' else 'bool bret', e))
            src = (US_PRELUDE + extra + 'empty @is_you(int x, int n, int i, int[] xs) {\n int[] a = [0, 2, 1]; byte[] ba = [%s, %s, %s]; bool[] fa = [true, false, true]; byte b = 2; bool t = x > n;\n %s\n write(\'.\');\n}\n'
                   % ("'p'", "'q'", "'r'", body))
            out.append(C('usesite/%s/%s/%s' % (name, sn, kn), src, xs=3))
    mk('int', US_INT, US_INT_SITES, 'int')
    mk('bool', US_BOOL, US_BOOL_SITES, 'bool')
    return out

# --------------------------------------------------------------------------------------
# T-time: time travel (C02)
# --------------------------------------------------------------------------------------
TIME_PRELUDE = """
int g = 0;
int ord(int a) { g += 1; return a + g; }
empty !d0(int a) { write('d'); !truth_is_defeat(a > 2); write('e'); }
empty !d1(int a) { write('p'); !d0(a + 1); write('q'); }
int !dv(int a) { !truth_is_defeat(a == 0); return a * 2; }
empty !pd(int a) {
    write('<');
    bool t = false;
    preempt { t = true; write('!'); }
    !truth_is_defeat(not t and a > 1);
    write('>');
}
empty !pe(int a) {
    write('[');
    preempt { write('!'); g += 10; }
    !truth_is_defeat(a > 1);
    write(']');
}
"""


def try_unit(kind, k, var):
    """one try statement of a given kind using marker letters based on k and the int expression var"""
    a, b, c = chr(65 + 3 * k), chr(66 + 3 * k), chr(67 + 3 * k)
    if kind == 'undo':
        return "try { write('%s'); !truth_is_defeat(%s > 0); write('%s'); } undo { write('%s'); }" % (a, var, b, c)
    if kind == 'stop':
        return "try { write('%s'); !truth_is_defeat(%s > 0); write('%s'); } stop { write('%s'); }" % (a, var, b, c)
    if kind == 'undo-call':
        return "try { write('%s'); !d0(%s); write('%s'); } undo { write('%s'); }" % (a, var, b, c)
    if kind == 'stop-call':
        return "try { write('%s'); !d1(%s); write('%s'); } stop { write('%s'); }" % (a, var, b, c)
    if kind == 'spec':
        return "sleep(ord(%s) ?? 3); write('%s');" % (var, a)
    if kind == 'preempt':
        return ("try { write('%s'); preempt { write('%s'); %s = 0; } !truth_is_defeat(%s > 1); } undo { write('%s'); }"
                % (a, b, var, var, c))
    if kind == 'preempt-stop':
        return ("try { write('%s'); preempt { write('%s'); %s = 0; } !truth_is_defeat(%s > 1); } stop { write('%s'); }"
                % (a, b, var, var, c))
    if kind == 'pdfunc':
        return "try { write('%s'); !pd(%s); write('%s'); } undo { write('%s'); }" % (a, var, b, c)
    if kind == 'pdfunc-stop':
        return "try { write('%s'); !pd(%s); !truth_is_defeat(%s > 3); write('%s'); } stop { write('%s'); }" % (a, var, var, b, c)
    if kind == 'pefunc':
        return "try { write('%s'); !pe(%s); write('%s'); } undo { write('%s'); }" % (a, var, b, c)
    if kind == 'pefunc-stop':
        return "try { write('%s'); !pe(%s); write('%s'); } stop { write('%s'); }" % (a, var, b, c)
    raise ValueError(kind)


TRY_KINDS = ['undo', 'stop', 'undo-call', 'stop-call', 'spec', 'preempt', 'preempt-stop', 'pdfunc', 'pdfunc-stop', 'pefunc', 'pefunc-stop']


def time_enumerated(tier='quick'):
    P = TIME_PRELUDE
    out = []

    def T(name, body, sig='int x, int y', extra='', **arrays):
        out.append(C('time/' + name, P + extra + 'empty @is_you(%s) {\n%s\n}\n' % (sig, body), **arrays))
    # single constructs
    for k in TRY_KINDS:
        T('one-' + k, try_unit(k, 0, 'x') + " sleep(g); write('.');")
    # histories: ordered pairs (and triples in the thorough tier) in one activation
    for a, b in itertools.product(TRY_KINDS, repeat=2):
        T('pair-%s-%s' % (a, b), try_unit(a, 0, 'x') + '\n' + try_unit(b, 1, 'y') + " sleep(g); write('.');")
    triples = list(itertools.product(['undo', 'stop', 'stop-call', 'spec', 'pdfunc', 'preempt-stop', 'pefunc-stop'], repeat=3))
    if tier != 'thorough':
        triples = random.Random(7).sample(triples, 30)
    for a, b, c in triples:
        T('triple-%s-%s-%s' % (a, b, c), 'int z = x - y;\n' + try_unit(a, 0, 'x') + '\n' + try_unit(b, 1, 'y') + '\n' + try_unit(c, 2, 'z') + " write('.');", sig='int x, int y')
    # across calls
    for a, b in itertools.product(['undo', 'stop', 'stop-call', 'pdfunc-stop'], repeat=2):
        T('calls-%s-%s' % (a, b), "@sub(x); " + try_unit(b, 1, 'y') + " @sub(y); write('.');",
          extra='empty @sub(int v) { %s }\n' % try_unit(a, 0, 'v'))
    # inside loops with symbolic trip count
    for k in ['undo', 'stop', 'stop-call', 'preempt-stop', 'pdfunc', 'pefunc-stop', 'spec']:
        T('loop-' + k, "for (int i = 0; i < y %% 3; i += 1) { %s x -= 1; } write('.');" % try_unit(k, 0, 'x'))
    # exits out of a try
    for h in ('undo', 'stop'):
        T('exit-return-' + h, "@r(x); write('.');", extra="empty @r(int v) { try { write('a'); if (v > 1) { return; } !truth_is_defeat(v > 0); write('b'); } %s { write('h'); } write('c'); }\n" % h)
        T('exit-break-' + h, "for (int i = 0; i < 3; i += 1) { try { write('a'); if (i == x) { break; } if (i == y) { continue; } !truth_is_defeat(i == 1); write('b'); } %s { write('h'); } write('c'); } write('.');" % h)
        T('exit-return-value-' + h, "sleep(@rv(x)); sleep(@rv(y)); write('.');", extra="int @rv(int v) { try { if (v > 1) { return 10; } !truth_is_defeat(v > 0); return 20; } %s { return 30; } }\n" % h)
        T('deep-defeat-' + h, "try { write('a'); !d1(x); write('b'); !d1(y); write('c'); } %s { write('h'); } write('.');" % h)
        T('array-in-try-' + h, "int[] o = [x, y]; try { int[] a = [x, y, 3]; a[1] += 1; o[0] = a[1]; !truth_is_defeat(a[1] > 2); sleep(a[1]); } %s { sleep(o[0]); write('h'); } int[] z = [7, 8]; sleep(z[1] + o[1]); write('.');" % h)
        T('value-defeat-' + h, "try { sleep(!dv(x)); sleep(!dv(y)); } %s { write('h'); } write('.');" % h)
        T('handler-try-' + h, "try { !truth_is_defeat(x > 0); write('b'); } %s { write('h'); try { !truth_is_defeat(y > 0); write('B'); } undo { write('U'); } } write('.');" % h)
        T('stop-frame-' + h, "int a = x; byte b = 'q'; try { int c = y; a += c; !d1(a); write('n'); } %s { write(b); sleep(a); } sleep(a); write('.');" % h)
    for h in ('undo', 'stop'):
        # a loop with break / continue INSIDE the try body, defeat afterwards in the same body
        T('loop-in-try-' + h, "try { for (int i = 0; i < 3; i += 1) { if (i == x) { break; } if (i == y) { continue; } write('a' + i); } !truth_is_defeat(y > 0); write('n'); } %s { write('h'); } write('.');" % h)
        T('while-in-try-call-' + h, "try { int i = 0; while (true) { i += 1; if (i > x %% 3) { break; } write('w'); } !d0(y); write('n'); } %s { write('h'); } write('.');" % h)
        T('loop-in-try-in-loop-' + h, "for (int k = 0; k < 2; k += 1) { try { for (int i = 0; i < 2; i += 1) { if (i == x) { continue; } if (k == y) { break; } write('a' + i); } !truth_is_defeat(k == 1); write('n'); } %s { write('h'); } } write('.');" % h)
    # the same defeat function used first under try/undo in the entry point and later under try/stop in another you-function
    # (function bodies are generated in order of first reference)
    for first, second in itertools.product(['undo', 'stop'], repeat=2):
        T('shared-defeat-%s-then-%s' % (first, second),
          "try { write('a'); !d0(x); write('b'); } %s { write('c'); } @later(y); write('.');" % first,
          extra="empty @later(int v) { try { write('A'); !d1(v); write('B'); } %s { write('C'); } }\n" % second)
        T('shared-own-defeat-%s-then-%s' % (first, second),
          "try { write('a'); !mine(x); write('b'); } %s { write('c'); } @later(y); @later(x); write('.');" % first,
          extra="empty !mine(int a) { write('m'); !truth_is_defeat(a > 1); write('M'); }\nempty @later(int v) { try { write('A'); !mine(v); write('B'); } %s { write('C'); } }\n" % second)
    # a constant argument of !truth_is_defeat (folded by the compiler) inside a defeat function, as the first defeat site of a try
    for h in ('undo', 'stop'):
        for kname, kexpr in (('lit-true', 'true'), ('lit-false', 'false'), ('const-global', 'KT'), ('folded', '1 < 2'), ('const-local', 'kl')):
            T('const-defeat-%s-%s' % (kname, h), "try { write('a'); if (x > 9) { !cd(); } write('b'); } %s { write('c'); } write('.');" % h,
              extra="const bool KT = true;\nempty !cd() { const bool kl = true; write('d'); !truth_is_defeat(%s); write('e'); }\n" % kexpr)
        T('const-defeat-direct-%s' % h, "try { write('a'); if (x > 9) { !truth_is_defeat(KT); } !truth_is_defeat(false); write('b'); } %s { write('c'); } write('.');" % h, extra="const bool KT = true;\n")
        T('const-defeat-you-%s' % h, "@w(x); write('.');", extra="const bool KT = true;\nempty !cd() { write('d'); !truth_is_defeat(KT); }\nempty @w(int v) { try { if (v > 9) { !cd(); } write('b'); } %s { write('c'); } }\n" % h)
    # try bodies that always leave (return / break) and whose defeat calls sit inside expressions
    for h in ('undo', 'stop'):
        T('try-return-defeat-expr-' + h, "sleep(@q(x)); sleep(@q(y)); write('.');",
          extra="int !half(int v) { write('h'); !truth_is_defeat(v %% 2 == 1); return v / 2; }\nint @q(int v) { try { return !half(v); } %s { write('s'); } write('a'); return 0 - 1; }\n" % h)
        T('try-decl-defeat-expr-' + h, "sleep(@q(x)); write('.');",
          extra="int !half(int v) { write('h'); !truth_is_defeat(v %% 2 == 1); return v / 2; }\nint @q(int v) { try { int r = !half(v); return r + 1; } %s { write('s'); } write('a'); return 0 - 1; }\n" % h)
        T('try-break-defeat-expr-' + h, "int v = x % 4; for (int i = 0; i < 3; i += 1) { try { int r = !half(v); write('k'); break; } " + h + " { write('s'); } write('c'); v += 1; } sleep(v); write('.');",
          extra="int !half(int v) { write('h'); !truth_is_defeat(v % 2 == 1); return v / 2; }\n")
        T('try-two-callee-defeats-' + h, "for (int i = 0; i < 3; i += 1) { try { write('t'); !chk(x + i); write('n'); !chk(y + i); write('m'); } " + h + " { write('s'); } } @more(x); write('.');",
          extra="empty !chk(int v) { write('c'); !truth_is_defeat(v % 2 == 0); }\nempty @more(int v) { try { !chk(v); !chk(v + 1); write('n'); } " + h + " { write('S'); } try { !chk(v + 1); write('N'); } " + h + " { write('T'); } }\n")
    # several try/stop blocks in one function, another try/stop function running in between, defeat raised inside callees
    T('two-try-stop-one-function', "sleep(@two(x, y)); @other(x); sleep(@two(y, x)); write('.');",
      extra="empty !dd(int v) { write('d'); !truth_is_defeat(v > 0); }\nempty @other(int v) { try { !dd(v); write('o'); } stop { write('O'); } }\n"
            "int @two(int a, int b) { int r = 0; try { !dd(a); r += 1; } stop { write('1'); r += 10; } @other(b); try { !dd(b); r += 2; } stop { write('2'); r += 20; } if (a > 5) { try { !dd(a - 6); r += 4; } stop { r += 40; } } return r; }\n")
    T('try-stop-nested-callee-frames', "sleep(@deep(x, y)); sleep(@deep(y, x)); write('.');",
      extra="empty !dd(int v) { int[] pad = [v, v]; !truth_is_defeat(pad[1] > 0); }\nempty !d2(int v) { int q = v * 2; !dd(q - v); write('k'); }\n"
            "int @deep(int a, int b) { int keep = a * 3; try { !d2(b); !d2(a); return keep + 1; } stop { write('s'); } try { !d2(b - 1); return keep + 2; } stop { return keep + 3; } }\n")
    # preempt varieties
    T('preempt-two', "try { preempt { write('1'); x = 0; } preempt { write('2'); y = 0; } !truth_is_defeat(x > 0 or y > 0); write('n'); } undo { write('u'); } write('.');")
    T('preempt-nested', "try { preempt { write('1'); preempt { write('2'); y = 0; } x = 0; } !truth_is_defeat(x > 0); !truth_is_defeat(y > 0); write('n'); } undo { write('u'); } write('.');")
    T('preempt-loop', "try { for (int i = 0; i < 3; i += 1) { preempt { write('a' + i); x -= 1; } } !truth_is_defeat(x > 0); write('n'); } undo { write('u'); } write('.');")
    T('preempt-return', "sleep(@m(x, y)); write('.');", extra="int @m(int a, int b) { try { if (a > b) { preempt { return a; } } if (b > 0) { preempt { return b; } } !is_defeat(); } undo { return 0; } }\n")
    T('preempt-rec', "try { !rec(x % 3, y); write('n'); } undo { write('u'); } write('.');", extra="empty !rec(int n, int v) { write('r'); if (n > 0) { !rec(n - 1, v); } preempt { write('P'); return; } !truth_is_defeat(v > 0 and n == 0); }\n")
    T('retprot', "try { !pq(x); !truth_is_defeat(y > 0); write('n'); } undo { write('u'); } write('.');", extra="empty !pq(int v) { if (v > 0) { preempt { write('P'); } } write('q'); }\n")
    T('retprot-stop', "try { !pq(x); !truth_is_defeat(y > 0); write('n'); } stop { write('s'); } write('.');", extra="empty !pq(int v) { if (v > 0) { preempt { write('P'); } } write('q'); }\n")
    # speculation
    T('spec-basic', "sleep(ord(x) ?? y); sleep(g); write('.');")
    T('spec-bool', "bool b = (x > 0) ?? (y > 0); sleep(b is int); write('.');")
    T('spec-byte', "byte b = bsel(x) ?? 'a'; write(b); write('.');", extra="byte bsel(int v) { write('s'); return v is byte; }\n")
    T('spec-side', "sleep(ord(x) ?? ord(y)); sleep(g); write('.');")
    T('spec-in-expr', "sleep((ord(x) ?? 2) + (ord(y) ?? 3)); sleep(g); write('.');")
    T('spec-global-right', "g = y; sleep(setg(x) ?? g); sleep(g); write('.');", extra="int setg(int v) { g = v; return v; }\n")
    T('spec-cond', "if ((ord(x) ?? 5) == 5) { write('T'); } else { write('F'); } sleep(g);")
    T('spec-then-try', "sleep(ord(x) ?? 2); try { !truth_is_defeat(y > 0); write('b'); } stop { write('s'); } sleep(ord(y) ?? 4); write('.');")
    # you-calls
    T('you-chain', "@a(x); @a(y); write('.');", extra="empty @a(int v) { try { !d0(v); write('n'); } stop { write('s'); @b(v); } }\nempty @b(int v) { try { !truth_is_defeat(v > 3); write('m'); } undo { write('u'); } }\n")
    # every shape of a !truth_is_defeat argument (each has its own lowering: comparison, or-chain, constant, negation peeled off,
    # int-to-bool, general bool value) under real and virtualised defeat, directly and inside a defeat function
    DFORMS = ['not (x < 1)', 'not (x >= y)', 'x > 0 or y > 5', 'not (x < 1 or y > 5)', 'x is bool', 'not (x is bool)', 'bt', 'not bt', 'x > 0 and y > 0',
              'not (x > 0 and y > 0)', '(x > 0) == (y > 0)', 'x != 0', 'pos(x)', 'not pos(y)', 'not (not (x > y))', 'x - y', 'not ((x - y) is bool)', "gb == 'k' or x == y"]
    for i, form in enumerate(DFORMS):
        for h in ('undo', 'stop'):
            T('dform-%d-direct-%s' % (i, h), "bool bt = x > y; try { write('a'); !truth_is_defeat(%s); write('b'); } %s { write('c'); } write('.');" % (form if form != 'x - y' else '(x - y) is bool', h),
              extra="byte gb = 'k';\nbool pos(int v) { return v > 0; }\n")
            T('dform-%d-callee-%s' % (i, h), "try { write('a'); !df(x, y); write('b'); } %s { write('c'); } write('.');" % h,
              extra="byte gb = 'k';\nbool pos(int v) { return v > 0; }\nempty !df(int x, int y) { bool bt = x > y; write('d'); !truth_is_defeat(%s); write('e'); }\n" % (form if form != 'x - y' else '(x - y) is bool'))
    # a try inside a handler (every pairing of kinds), both bodies defeated, followed by a try that reaches defeat through a defeat function:
    # the defeat target the inner handler restores must be the one that was current when the inner try was entered
    for h1, h2, h3 in itertools.product(('undo', 'stop'), repeat=3):
        T('handler-nest-%s-%s-then-%s' % (h1, h2, h3),
          "try { write('a'); !truth_is_defeat(x > 0); write('b'); } %s { write('h'); try { write('A'); !truth_is_defeat(y > 0); write('B'); } %s { write('H'); } write('i'); } "
          "try { write('t'); !d0(x + y); write('n'); } %s { write('u'); } write('.');" % (h1, h2, h3))
    T('handler-nest-three-deep', "try { !truth_is_defeat(x > 0); write('b'); } stop { write('1'); try { !d0(y); write('B'); } stop { write('2'); try { !truth_is_defeat(x > y); write('C'); } stop { write('3'); } write('j'); } write('i'); } "
      "try { write('t'); !d1(x); write('n'); } undo { write('u'); } try { write('T'); !d0(y); write('N'); } stop { write('S'); } write('.');")
    T('handler-nest-in-loop', "for (int k = 0; k < 2; k += 1) { try { !truth_is_defeat(x > k); write('b'); } stop { write('h'); try { !d0(y + k); write('B'); } stop { write('H'); } } try { write('t'); !d0(x + k); write('n'); } undo { write('u'); } } write('.');")
    # several try/stop blocks in one function where the lexically first one is skipped at run time (in a false branch, a loop that
    # runs zero times, or after a you-call), and a later one is defeated: the handler must restore the frame of *this* activation
    T('first-try-skipped-if', "sleep(@cl(x)); sleep(@cl(y)); write('.');",
      extra="empty !dd(int v) { int[] pad = [v, v]; !truth_is_defeat(pad[1] > 0); }\nint @cl(int n) { int keep = n * 3; if (n > 2) { try { !dd(n - 5); keep += 1; } stop { write('1'); keep += 10; } } "
            "try { !dd(n); keep += 2; } stop { write('2'); keep += 20; } return keep; }\n")
    T('first-try-skipped-loop', "sleep(@cl(x % 3, y)); write('.');",
      extra="empty !dd(int v) { int[] pad = [v, v]; !truth_is_defeat(pad[1] > 0); }\nempty @sub(int v) { try { !dd(v); write('o'); } stop { write('O'); } }\n"
            "int @cl(int n, int m) { int keep = m * 3; for (int i = 0; i < n; i += 1) { try { !dd(m - i); keep += 1; } stop { write('1'); keep += 10; } @sub(i); } try { !dd(m); keep += 2; } stop { write('2'); keep += 20; } return keep; }\n")
    T('first-try-skipped-return-value', "sleep(@cl(x, y) + 1); sleep(@cl(y, x) * 2); write('.');",
      extra="int !dv2(int v) { !truth_is_defeat(v > 3); return v * 2; }\nint @cl(int a, int b) { if (a > b) { try { return !dv2(a); } stop { write('1'); } } try { return !dv2(b) + a; } stop { write('2'); } return a - b; }\n")
    # ?? whose value is consumed through every register route: returned, left / right operand of arithmetic and comparison, with a non-literal guess
    T('spec-consumers', "sleep(@sr(x, y)); sleep((ord(x) ?? y) + g); sleep(g - (ord(y) ?? x)); if ((ord(x) ?? y) < y) { write('l'); } else { write('g'); } int[] a = [ord(x) ?? y, y ?? ord(x)]; sleep(a[0]); sleep(a[1]); sleep(g); write('.');",
      extra="int @sr(int a, int b) { return ord(a) ?? b; }\n")
    return out


def time_examples():
    out = []

    def ex(name, fn, subst, **arrays):
        src = open(os.path.join(EX, fn)).read()
        for a, b in subst:
            assert a in src, (fn, a)
            src = src.replace(a, b)
        out.append(C('example/' + name, src, **arrays))
    for n in (1, 2, 3):
        ex('max-%d' % n, 'max.hid', [('writeln(@max(nums))', 'sleep(@max(nums))')], nums=n)
    for n in (0, 1, 2, 3):
        ex('mergesort-%d' % n, 'mergesort.hid', [('write(arr[i]);', 'sleep(arr[i]);')], arr=n)
    return out


class TimeGen:
    def __init__(s, rnd):
        s.r = rnd
        s.n = 0

    def ie(s, d=1):
        r = s.r
        c = r.random()
        if d <= 0 or c < 0.4:
            return r.choice(['x', 'y', 'g', '0', '1', '2', '3'])
        if c < 0.7:
            return '(%s %s %s)' % (s.ie(d - 1), r.choice('+-'), s.ie(d - 1))
        if c < 0.85:
            return 'ord(%s)' % s.ie(d - 1)
        return '(%s %% 4)' % s.ie(d - 1)

    def be(s):
        return '(%s %s %s)' % (s.ie(), s.r.choice(['==', '!=', '<', '>', '<=', '>=']), s.ie())

    def mark(s):
        s.n += 1
        return "write('%s');" % chr(65 + s.n % 26)

    def try_stmt(s, d, loop):
        r = s.r
        c = r.random()
        if c < 0.2:
            return s.mark()
        if c < 0.3:
            return '!truth_is_defeat(%s);' % s.be()
        if c < 0.36:
            return '!is_defeat();'
        if c < 0.46:
            return '!d0(%s);' % s.ie()
        if c < 0.52:
            return '!d1(%s);' % s.ie()
        if c < 0.58:
            return 'sleep(!dv(%s));' % s.ie()
        if c < 0.62:
            return '!pd(%s);' % s.ie()
        if c < 0.66:
            return '!pe(%s);' % s.ie()
        if c < 0.76:
            return 'preempt ' + s.try_block(d - 1, loop)
        if c < 0.84 and d > 0:
            return 'if (%s) %s else %s' % (s.be(), s.try_block(d - 1, loop), s.try_block(d - 1, loop))
        if c < 0.88:
            return '%s %s %s;' % (r.choice(['x', 'y', 'g']), r.choice(['=', '+=', '-=']), s.ie())
        if c < 0.92 and loop:
            return r.choice(['break;', 'continue;'])
        if c < 0.95:
            return 'return;'
        if d > 0:
            s.n += 1
            k = 'k%d' % s.n
            return 'for (int %s = 0; %s < 2; %s += 1) %s' % (k, k, k, s.try_block(d - 1, True))
        return s.mark()

    def try_block(s, d, loop):
        out = []
        for _ in range(s.r.randrange(1, 4)):
            st = s.try_stmt(d, loop)
            out.append(st)
            if st in ('break;', 'continue;', 'return;', '!is_defeat();'):
                break
        return '{ ' + ' '.join(out) + ' }'

    def you_stmt(s, d, loop):
        r = s.r
        c = r.random()
        if c < 0.2:
            return s.mark()
        if c < 0.55:
            h = r.choice(['undo', 'stop'])
            return 'try %s %s { %s %s }' % (s.try_block(2, loop), h, s.mark(), s.you_stmt(0, loop) if r.random() < 0.3 else '')
        if c < 0.65:
            return 'sleep(%s ?? %s);' % (s.ie(), s.ie())
        if c < 0.72:
            return 'sleep(ord(%s) ?? %s);' % (s.ie(), r.choice(['1', '2', 'x']))
        if c < 0.8:
            return '%s %s %s;' % (r.choice(['x', 'y', 'g']), r.choice(['=', '+=', '-=']), s.ie())
        if c < 0.88 and d > 0:
            return 'if (%s) %s else %s' % (s.be(), s.you_block(d - 1, loop), s.you_block(d - 1, loop))
        if c < 0.94 and d > 0:
            s.n += 1
            k = 'k%d' % s.n
            return 'for (int %s = 0; %s < 2; %s += 1) %s' % (k, k, k, s.you_block(d - 1, True))
        if loop and c < 0.97:
            return r.choice(['break;', 'continue;'])
        return '@sub(%s);' % s.ie() if d > 0 else s.mark()

    def you_block(s, d, loop):
        out = []
        for _ in range(s.r.randrange(1, 4)):
            st = s.you_stmt(d, loop)
            out.append(st)
            if st in ('break;', 'continue;'):
                break
        return '{ ' + ' '.join(out) + ' }'

    def program(s):
        sub = 'empty @sub(int x) { int y = 1; %s %s }\n' % (s.you_stmt(0, False), s.you_stmt(0, False))
        body = [s.you_stmt(2, False) for _ in range(s.r.randrange(2, 5))]
        return TIME_PRELUDE + sub + 'empty @is_you(int x, int y) {\n  ' + '\n  '.join(body) + "\n  sleep(g); write('.');\n}\n"


def time_random(seed, n):
    out = []
    for i in range(n):
        s = seed * 100003 + i
        out.append(C('time/random-%d' % s, TimeGen(random.Random(s)).program()))
    return out


# --------------------------------------------------------------------------------------
# T-cf: control-flow skeletons (C16)
# --------------------------------------------------------------------------------------
class CfGen:
    def __init__(s, r):
        s.r = r
        s.n = 0

    def c(s):
        return s.r.choice(['a > 0', 'b > 0', 'a == b', 'a < b', 'true', 'false', 'a != 1', 'c > 0', 'c == a'])

    def m(s):
        s.n += 1
        return "write('%s');" % chr(65 + s.n % 26)

    def stmt(s, d, kind, loop, intry):
        r = s.r
        x = r.random()
        if x < 0.2:
            return s.m()
        if x < 0.35:
            return 'return a + 1;' if kind != 'empty' else 'return;'
        if x < 0.42 and loop:
            return r.choice(['break;', 'continue;'])
        if x < 0.48 and intry:
            return '!is_defeat();'
        if x < 0.52 and intry:
            return '!truth_is_defeat(%s);' % s.c()
        if x < 0.55:
            return r.choice(['all_is_win();', 'all_is_broken();'])
        if d > 0 and x < 0.7:
            return 'if (%s) %s else %s' % (s.c(), s.block(d - 1, kind, loop, intry), s.block(d - 1, kind, loop, intry))
        if d > 0 and x < 0.75:
            return 'if (%s) %s' % (s.c(), s.block(d - 1, kind, loop, intry))
        if d > 0 and x < 0.85:
            cond = r.choice(['true', 'true', s.c(), 'c > 0'])
            body = s.block(d - 1, kind, True, intry)
            if cond != 'true':
                # counter-bounded: the condition variable is consumed so that the loop terminates
                return 'for (int t%d = 0; t%d < 2 and %s; t%d += 1) %s' % (s.n, s.n, cond, s.n, body)
            return 'while (true) %s' % body
        if d > 0 and x < 0.93 and s.flavor == 'you' and not intry:
            return 'try %s %s %s' % (s.block(d - 1, kind, loop, True), r.choice(['undo', 'stop']), s.block(d - 1, kind, loop, False))
        if d > 0 and x < 0.97 and intry:
            return 'preempt %s' % s.block(d - 1, kind, loop, intry)
        return r.choice(['a = 0;', 'c = 0;', 'b = 1;'])

    def block(s, d, kind, loop, intry):
        return '{ ' + ' '.join(s.stmt(d, kind, loop, intry) for _ in range(s.r.randrange(1, 4))) + ' }'

    def program(s):
        s.flavor = s.r.choice(['you', 'you', 'ord', 'defeat'])
        name = {'you': '@f', 'ord': 'f', 'defeat': '!f'}[s.flavor]
        kind = s.r.choice(['int', 'int', 'empty'])
        body = s.block(3, kind, False, s.flavor == 'defeat')
        call = ('sleep(%s(a, b, c));' if kind == 'int' else '%s(a, b, c);') % name
        if s.flavor == 'defeat':
            call = "try { %s write('t'); } stop { write('s'); }" % call
        return ("%s %s(int a, int b, int c) %s\nempty sentinel() { write('#'); write('#'); all_is_broken(); }\n"
                "empty @is_you(int a, int b, int c) { %s write('.'); }\n" % (kind, name, body, call))


def cf_random(seed, n):
    out = []
    for i in range(n):
        s = seed * 100003 + i
        out.append(C('cf/random-%d' % s, CfGen(random.Random(s)).program()))
    return out


def cf_enumerated():
    """small bodies built from the exit-relevant statements, exhaustively to length 2 plus nestings"""
    atoms = ["write('m');", 'return a;', 'all_is_win();', 'all_is_broken();',
             'if (a > 0) { return 1; }', 'if (a > 0) { return 1; } else { return 2; }',
             'if (a > 0) { return 1; } else { write(\'e\'); }',
             'while (true) { if (b > 0) { return 3; } b += 1; }',
             'while (true) { if (b > 0) { break; } b += 1; }',
             'while (b > 0) { return 4; }',
             'while (true) { write(\'w\'); all_is_win(); }',
             'for (;;) { if (b > 1) { return 5; } b += 1; continue; }',
             'while (true) { if (b < 2) { b += 1; continue; } return b; }',
             'for (int i = 0; i < 2; i += 1) { if (i == b) { continue; } if (i == a) { return 6; } }',
             '{ return 7; }', '{ { if (a == b) { return 8; } } }']
    you_atoms = ["try { !truth_is_defeat(a > 0); return 9; } undo { return 10; }",
                 "try { !truth_is_defeat(a > 0); return 9; } stop { write('s'); }",
                 "try { !is_defeat(); } stop { return 11; }",
                 "try { !is_defeat(); } undo { return 12; }",
                 "try { preempt { return 13; } !truth_is_defeat(a > 0); } undo { return 14; }",
                 "try { while (true) { !truth_is_defeat(b > 2); b += 1; } } stop { return 15; }",
                 "try { while (true) { if (b > 2) { break; } b += 1; } !truth_is_defeat(a > 0); } stop { return 16; }",
                 "try { if (a > 0) { return 17; } } undo { return 18; }"]
    out = []
    bodies = [(x,) for x in atoms] + list(itertools.product(atoms[:10], atoms[:10]))
    for i, b in enumerate(bodies):
        src = ("int f(int a, int b) { b = b %% 3; %s }\nempty sentinel() { write('#'); write('#'); all_is_broken(); }\n"
               "empty @is_you(int a, int b) { sleep(f(a, b)); write('.'); }\n" % ' '.join(b))
        out.append(C('cf/enum-%d' % i, src))
    ybodies = [(x,) for x in you_atoms] + list(itertools.product(you_atoms, atoms[:6])) + list(itertools.product(atoms[4:10], you_atoms))
    for i, b in enumerate(ybodies):
        src = ("int @f(int a, int b) { b = b %% 3; %s }\nempty sentinel() { write('#'); write('#'); all_is_broken(); }\n"
               "empty @is_you(int a, int b) { sleep(@f(a, b)); write('.'); }\n" % ' '.join(b))
        out.append(C('cf/you-enum-%d' % i, src))
    # nested loops: the exits of the inner loop belong to the inner loop, also when the outer loop has none of its own and is the last statement
    nested = ["while (true) { while (true) { if (b > 1) { return 20; } b += 1; if (b == 1) { break; } } write('o'); }",
              "while (true) { for (int i = 0; i < 3; i += 1) { if (i == a) { break; } if (i == b) { continue; } write('i'); } b += 1; if (b > 2) { return 21; } }",
              "for (;;) { while (b < 2) { b += 1; if (a > 0) { break; } } if (b >= 2) { return 22; } b += 1; }",
              "while (true) { while (true) { while (true) { if (a > 0) { break; } a = 1; } b += 1; if (b > 1) { break; } } if (b > 2) { return 23; } }",
              "while (b < 2) { while (true) { b += 1; if (b > 0) { break; } } write('x'); } return 24;",
              "for (int i = 0; i < 2; i += 1) { for (int j = 0; j < 2; j += 1) { if (j == b) { continue; } if (i == a) { break; } write('a' + i * 2 + j); } write('|'); } return 26;",
              "while (true) { for (int i = 0; i < 2; i += 1) { if (i == a) { continue; } write('c'); } while (true) { b += 1; break; } if (b > 1) { return 27; } }"]
    # loops whose condition is a constant false (literal, const variable, folded comparison): they complete at once, what follows is reachable,
    # and a value-returning function ending in one must be rejected
    for j, cond in enumerate(('false', 'TRACE', 'ROUNDS > 0', '0 is bool', 'not true')):
        out.append(C('cf/const-false-loop-%d' % j, "const bool TRACE = false;\nconst int ROUNDS = 0;\nint f(int a, int b) { while (%s) { write('w'); a += 1; } for (int i = 0; %s; i += 1) { write('x'); } return a + 1; }\n"
                     "empty g(int a) { write('g'); while (%s) { write('w'); } }\nempty sentinel() { write('#'); write('#'); all_is_broken(); }\nempty @is_you(int a, int b) { sleep(f(a, b)); g(a); write('.'); g(b); write('.'); }\n" % (cond, cond, cond)))
    for i, b in enumerate(nested):
        out.append(C('cf/nested-%d' % i, "int f(int a, int b) { b = b %% 3; %s }\nempty sentinel() { write('#'); write('#'); all_is_broken(); }\n"
                     "empty @is_you(int a, int b) { sleep(f(a, b)); write('.'); }\n" % b))
        if 'return 2' in b and not b.rstrip().endswith(';'):
            import re as _re
            eb = _re.sub(r'return \d+;', 'return;', b)
            out.append(C('cf/nested-empty-%d' % i, "empty g(int a, int b) { b = b %% 3; %s }\nempty sentinel() { write('#'); write('#'); all_is_broken(); }\n"
                         "empty @is_you(int a, int b) { g(a, b); write('.'); g(b, a); write('.'); }\n" % eb))
    return out


# --------------------------------------------------------------------------------------
# T-fault (C05)
# --------------------------------------------------------------------------------------
def fault_templates():
    out = []

    def T(name, src, **arrays):
        out.append(C('fault/' + name, src, **arrays))
    mark = "byte mk(byte c) { write(c); return c; }\nint mi(byte c, int v) { write(c); return v; }\n"
    # division / modulo
    for op in ('/', '%'):
        for tl, tr in (('int', 'int'), ('byte', 'int'), ('int', 'byte'), ('byte', 'byte')):
            T('div-%s-%s-%s' % ('div' if op == '/' else 'mod', tl, tr),
              mark + "empty @is_you(%s a, %s b) { write('p'); sleep(mi('l', a) %s mi('r', b)); write('q'); }\n" % (tl, tr, op))
        T('div-local-%s' % ('div' if op == '/' else 'mod'), "empty @is_you(int a, int b) { int x = a; int y = b; write('p'); x %s= y; sleep(x); write('q'); }\n" % op)
        T('div-global-%s' % ('div' if op == '/' else 'mod'), "int gx = 0; int gy = 0;\nempty @is_you(int a, int b) { gx = a; gy = b; write('p'); gx %s= gy; sleep(gx); sleep(a %s gy); write('q'); }\n" % (op, op))
        T('div-elem-%s' % ('div' if op == '/' else 'mod'), mark + "empty @is_you(int a, int b) { int[] v = [a, b]; write('p'); v[0] %s= mi('r', v[1]); sleep(v[0]); write('q'); }\n" % op)
        T('div-byteelem-%s' % ('div' if op == '/' else 'mod'), "empty @is_you(byte a, byte b) { byte[] v = [a, b]; write('p'); sleep(v[0] %s v[1]); write('q'); }\n" % op)
        T('div-const-left-%s' % ('div' if op == '/' else 'mod'), "empty @is_you(int b) { write('p'); sleep(100 %s b); write('q'); }\n" % op)
        T('div-in-cond-%s' % ('div' if op == '/' else 'mod'), "empty @is_you(int a, int b) { write('p'); if (a %s b > 1) { write('T'); } else { write('F'); } write('q'); }\n" % op)
        T('div-in-defeat-%s' % ('div' if op == '/' else 'mod'), "empty @is_you(int a, int b) { write('p'); try { !truth_is_defeat(a %s b > 1); write('n'); } undo { write('u'); } write('q'); }\n" % op)
    for op in ('/', '%'):
        nm = 'div' if op == '/' else 'mod'
        T('div-const-zero-%s' % nm, mark + "const int zero = 0;\nempty @is_you(int a, byte b) { write('p'); if (a > 5) { sleep(mi('l', a) %s 0); } if (a < -5) { sleep(a %s zero); } if (a == 1) { sleep(b %s (3 - 3)); } write('q'); }\n" % (op, op, op))
        T('div-const-zero-assign-%s' % nm, "const int zero = 0;\nint gq = 7;\nempty @is_you(int a) { int x = a; int[] v = [a, 2]; write('p'); if (a > 5) { x %s= 0; } if (a < -5) { v[1] %s= zero; } if (a == 1) { gq %s= 0; } sleep(x); write('q'); }\n" % (op, op, op))
        T('div-const-nonzero-%s' % nm, "const int two = 2;\nempty @is_you(int a) { write('p'); sleep(a %s 2); sleep(a %s two); sleep(a %s (-1)); sleep(a %s 1); write('q'); }\n" % (op, op, op, op))
    # index faults: read / write / compound, int / byte / bool arrays, stack / global / const / parameter, strings
    for el, lit, cast in (('int', '[1, 2, 3]', ''), ('byte', "['a', 'b', 'c']", ''), ('bool', '[true, false, true]', ' is int')):
        obs = {'int': 'sleep(%s);', 'byte': 'write(%s);', 'bool': 'sleep((%s) is int);'}[el]
        val = {'int': '7', 'byte': "'z'", 'bool': 'false'}[el]
        T('idx-read-stack-' + el, mark + "empty @is_you(int i) { %s[] v = %s; v[0] = v[1]; write('p'); %s write('q'); }\n" % (el, lit, obs % "v[mi('i', i)]"))
        T('idx-write-stack-' + el, mark + "empty @is_you(int i) { %s[] v = %s; write('p'); v[mi('i', i)] = %s; write('q'); %s %s %s }\n" % (el, lit, 'mk(\'r\')' if el == 'byte' else val, obs % 'v[0]', obs % 'v[1]', obs % 'v[2]'))
        T('idx-read-global-' + el, "%s[] gv = %s;\nempty @is_you(int i) { write('p'); %s write('q'); }\n" % (el, lit, obs % 'gv[i]'))
        T('idx-write-global-' + el, "%s[] gv = %s;\nempty @is_you(int i) { write('p'); gv[i] = %s; write('q'); %s }\n" % (el, lit, val, obs % 'gv[1]'))
        T('idx-read-const-' + el, "const %s[] gv = %s;\nempty @is_you(int i) { write('p'); %s write('q'); }\n" % (el, lit, obs % 'gv[i]'))
        T('idx-read-param-' + el, "empty rd(const %s[] v, int i) { write('p'); %s write('q'); }\nempty @is_you(int i) { %s[] a = %s; rd(a, i); rd(%s, i); }\n" % (el, obs % 'v[i]', el, lit, lit))
        T('idx-write-param-' + el, "empty wr(%s[] v, int i) { write('p'); v[i] = %s; write('q'); }\nempty @is_you(int i) { %s[] a = %s; wr(a, i); %s }\n" % (el, val, el, lit, obs % 'a[2]'))
        if el == 'int':
            T('idx-compound-' + el, mark + "empty @is_you(int i) { %s[] v = %s; write('p'); v[mi('i', i)] += mi('r', 1)%s; write('q'); %s }\n" % (el, lit, '' if el == 'int' else '', obs % 'v[1]'))
    for n in (0, 1, 3):
        T('idx-arg-ints-%d' % n, "empty @is_you(int i, int[] xs) { write('p'); sleep(xs[i]); xs[i] = 1; write('q'); }\n", xs=n)
        T('idx-arg-bytes-%d' % n, "empty @is_you(int i, const byte[] xs) { write('p'); write(xs[i]); write('q'); }\n", xs=n)
        T('idx-arg-string-%d' % n, "empty @is_you(int i, string s) { write('p'); write(s[i]); write('q'); }\n", s=[n])
        T('idx-arg-strings-%d' % n, "empty @is_you(int i, const string[] xs) { write('p'); write(xs[i]); write('q'); }\n", xs=[1] * n)
    T('idx-compound-byte', mark + "empty @is_you(int i) { byte[] v = ['a', 'b', 'c']; write('p'); v[mi('i', i)] += mk('r'); write('q'); write(v[1]); }\n")
    for el, lit in (('int', '[1, 2, 3]'), ('byte', "['a', 'b', 'c']"), ('bool', '[true, false, true]')):
        obs = {'int': 'sleep(%s);', 'byte': 'write(%s);', 'bool': 'sleep((%s) is int);'}[el]
        val = {'int': '7', 'byte': "'z'", 'bool': 'false'}[el]
        for k, ix in (('len', '3'), ('last', '2'), ('past', '4'), ('neg', '(-1)'), ('folded', '(1 + 2)'), ('constvar', 'KL')):
            T('idx-const-%s-stack-%s' % (k, el), "const int KL = 3;\nempty @is_you(int x) { %s[] v = %s; int canary = 4321; write('p'); %s v[%s] = %s; write('q'); sleep(canary); }\n" % (el, lit, obs % ('v[%s]' % ix), ix, val))
            T('idx-const-%s-global-%s' % (k, el), "const int KL = 3;\n%s[] gv = %s;\nint after = 99;\nempty @is_you(int x) { write('p'); %s gv[%s] = %s; write('q'); sleep(after); }\n" % (el, lit, obs % ('gv[%s]' % ix), ix, val))
            T('idx-const-%s-constarr-%s' % (k, el), "const int KL = 3;\nconst %s[] gv = %s;\nempty @is_you(int x) { write('p'); %s write('q'); }\n" % (el, lit, obs % ('gv[%s]' % ix)))
    T('idx-const-zero-length', "int z[0];\nempty @is_you(int x) { int[] e = []; write('p'); if (x > 0) { sleep(e[0]); } z[0] = 1; write('q'); }\n")
    T('idx-const-string-len', "empty @is_you(int x) { write('p'); if (x > 0) { write(\"abc\"[3]); } write(\"abc\"[2]); string s = \"xy\"; write(s[2]); write('q'); }\n")
    T('idx-const-fixed-global', "int gz[4];\nempty @is_you(int x) { write('p'); gz[3] = 1; if (x > 0) { gz[4] = 2; } write('q'); }\n")
    T('idx-string-literal', "empty @is_you(int i) { write('p'); write(\"hello\"[i]); write('q'); }\n")
    T('idx-string-var', "empty @is_you(int i, int k) { string s = \"ab\"; if (k > 0) { s = \"wxyz\"; } write('p'); write(s[i]); write('q'); }\n")
    T('idx-string-bytes', "empty @is_you(int i) { const byte[] b = \"hey\" is byte[]; write('p'); write(b[i]); write('q'); }\n")
    T('idx-bool-10', "empty @is_you(int i) { bool[] v = [true, false, true, false, true, false, true, false, true, true]; write('p'); sleep(v[i] is int); v[i] = false; write('q'); }\n")
    T('idx-literal-direct', "empty @is_you(int i, int a) { write('p'); sleep([a, 2, 3][i]); write('q'); }\n")
    T('idx-vla', "empty @is_you(int i, int n) { if (n < 0 or n > 3) { n = 2; } int v[n]; write('p'); v[i] = 5; sleep(v[i]); write('q'); }\n")
    # dynamic array length
    for el in ('int', 'byte', 'bool', 'string'):
        T('vla-len-' + el, "empty @is_you(int n) { write('p'); %s v[n]; write('q'); sleep(v.length); }\n" % el)
        T('vla-len-index-' + el, "empty @is_you(int n, int i) { write('p'); %s v[n]; write('q'); %s write('r'); }\n" % (el, {'int': 'v[i] = 1;', 'byte': "v[i] = 'a';", 'bool': 'v[i] = true;', 'string': 'v[i] = "s";'}[el]))
    T('vla-len-expr', "empty @is_you(int a, int b) { write('p'); int v[a - b]; write('q'); sleep(v.length); }\n")
    T('vla-len-global-const', "int gv[3];\nempty @is_you(int i) { write('p'); gv[i] = 4; sleep(gv[i]); write('q'); }\n")
    # nonlocal preempt
    T('nonlocal-preempt', "empty !baba(int v) { if (v > 0) { preempt { write('P'); } } write('b'); }\nempty @is_you(int a, int b) { try { write('t'); !baba(a); !truth_is_defeat(b > 0); write('n'); } undo { write('u'); } write('q'); }\n")
    T('nonlocal-preempt-else', "empty !baba(int v) { if (v > 0) { write('x'); } else { preempt { write('P'); } } write('b'); }\nempty @is_you(int a, int b) { try { write('t'); !baba(a); !truth_is_defeat(b > 0); write('n'); } undo { write('u'); } write('q'); }\n")
    T('nonlocal-preempt-loop', "empty !baba(int v) { for (int i = 0; i < v % 3; i += 1) { preempt { write('P'); } } write('b'); }\nempty @is_you(int a, int b) { try { write('t'); !baba(a); !truth_is_defeat(b > 0); write('n'); } undo { write('u'); } write('q'); }\n")
    T('nonlocal-preempt-stop', "empty !baba(int v) { preempt { write('P'); } write('b'); }\nempty @is_you(int a, int b) { try { write('t'); !baba(a); !truth_is_defeat(b > 0); write('n'); } stop { write('s'); } write('q'); }\n")
    T('nonlocal-preempt-nested', "empty !inner(int v) { preempt { write('P'); } write('i'); }\nempty !outer(int v) { !inner(v); !truth_is_defeat(v > 1); write('o'); }\nempty @is_you(int a, int b) { try { write('t'); !outer(a); write('n'); } undo { write('u'); } write('q'); }\n")
    # return protection belongs to preemptive defeat functions only: other functions (generated before or after them) return into
    # unavoidable defeat without a fault
    T('nonlocal-preempt-other-after', "empty !baba(int v) { if (v > 0) { preempt { write('P'); } } write('b'); }\nint plain(int v) { write('f'); return v + 1; }\nempty !plaind(int v) { write('g'); }\n"
      "empty @is_you(int a, int b) { try { write('t'); !baba(a); int r = plain(b); !plaind(r); !truth_is_defeat(r > 1); write('n'); } undo { write('u'); } write('q'); }\n")
    T('nonlocal-preempt-other-before', "int plain(int v) { write('f'); return v + 1; }\nempty !baba(int v) { if (v > 0) { preempt { write('P'); } } write('b'); }\n"
      "empty @is_you(int a, int b) { try { write('t'); int r = plain(b); !baba(a); r = plain(r); !truth_is_defeat(r > 2); write('n'); } undo { write('u'); } write('q'); }\n")
    T('nonlocal-preempt-value', "int !val(int v) { preempt { return 1; } return v; }\nempty @is_you(int a, int b) { try { sleep(!val(a)); !truth_is_defeat(b > 0); write('n'); } undo { write('u'); } write('q'); }\n")
    # ... the same with one fault site per program and an explicit predicate (C05 pred tasks; the reference interpreter takes folded logic from the front end)
    for op, k in itertools.product(('and', 'or'), ('true', 'false', 'KT', 'not KT', 'VERBOSE')):
        kk = k.replace(' ', '')
        T('logic-div-const-left-%s-%s' % (op, kk), "const bool KT = true;\nconst bool VERBOSE = false;\nempty @is_you(int a, int b) { write('p'); if ((10 / b == 1) %s %s) { write('t'); } else { write('f'); } write('q'); }\n" % (op, k))
        T('logic-mod-div-const-left-%s-%s' % (op, kk), "const bool KT = true;\nconst bool VERBOSE = false;\nempty @is_you(int a, int b) { write('p'); bool r = (a %% b == 1) %s %s; sleep(r is int); write('q'); }\n" % (op, k))
        T('logic-idx-%s-%s' % (op, kk), "const bool KT = true;\nconst bool VERBOSE = false;\nint[] ga = [1, 2, 3];\nempty @is_you(int i) { write('p'); if ((ga[i] > 1) %s %s) { write('t'); } else { write('f'); } write('q'); }\n" % (op, k))
        T('logic-idx-string-%s-%s' % (op, kk), "const bool KT = true;\nconst bool VERBOSE = false;\nempty @is_you(int i) { write('p'); bool r = (\"abc\"[i] == 'b') %s %s; sleep(r is int); write('q'); }\n" % (op, k))
    # a faulting operand next to a constant operand of a logical operator (the constant decides the value, the fault still happens)
    for op, k in itertools.product(('and', 'or'), ('true', 'false', 'KT', 'not KT', 'VERBOSE')):
        T('logic-const-%s-%s' % (op, k.replace(' ', '')), "const bool KT = true;\nconst bool VERBOSE = false;\nint[] ga = [1, 2, 3];\nempty @is_you(int a, int b) { write('p'); if ((10 / a == 1) %s %s) { write('t'); } else { write('f'); } "
          "write('q'); bool r = (ga[b] > 1) %s %s; sleep(r is int); write('s'); if (%s %s (7 %% a == 1)) { write('T'); } write('u'); }\n" % (op, k, op, k, k, op))
    return out


# --------------------------------------------------------------------------------------
# T-scope (C08) and allocation sites (C04)
# --------------------------------------------------------------------------------------
def scope_templates():
    out = []

    def T(name, body, sig='int x, int y', extra='', **arrays):
        out.append(C('scope/' + name, extra + 'empty @is_you(%s) {\n%s\n}\n' % (sig, body), **arrays))
    ALLOC = {'lit': 'int[] a = [i, x, 3];', 'vla': 'int a[2]; a[0] = i; a[1] = x;', 'byte': "byte[] a = ['a', x is byte, 'c', 'd', 'e'];",
             'bool': 'bool a[9]; a[0] = true;', 'two': 'int[] a = [i, x]; byte[] b2 = [1, 2, 3];', 'alias': 'int[] a0 = [i, x, 5]; int[] a = a0;'}
    USE = {'lit': 'sleep(a[0] + a[1]);', 'vla': 'sleep(a[0] + a[1]);', 'byte': 'write(a[1]);', 'bool': 'sleep(a[0] is int);', 'two': 'sleep(a[1] + b2[2]);', 'alias': 'sleep(a[1] + a0[2]);'}
    for k in ALLOC:
        T('loop-fall-' + k, "int[] keep = [7, 8]; for (int i = 0; i < y %% 4; i += 1) { %s %s } sleep(keep[0] + keep[1]);" % (ALLOC[k], USE[k]))
        T('loop-continue-' + k, "int[] keep = [7, 8]; for (int i = 0; i < 4; i += 1) { %s if (i == y) { continue; } %s } sleep(keep[1]);" % (ALLOC[k], USE[k]))
        T('loop-break-' + k, "int[] keep = [7, 8]; for (int i = 0; i < 4; i += 1) { %s if (i == y) { break; } %s } sleep(keep[1]);" % (ALLOC[k], USE[k]))
        T('nested-exit-' + k, "int[] keep = [7, 8]; for (int i = 0; i < 3; i += 1) { int[] o = [i]; { %s { int[] in2 = [4, 5]; if (i == y) { continue; } if (i == x) { break; } sleep(in2[1]); } %s } sleep(o[0]); } sleep(keep[0]);" % (ALLOC[k], USE[k]))
        T('return-' + k, "int[] keep = [7, 8]; sleep(fn(x, y)); sleep(fn(y, x)); sleep(keep[0] + keep[1]);", extra="int fn(int x, int i) { %s if (i > 0) { int[] more = [1, 2]; return more[1] + i; } %s return 0; }\n" % (ALLOC[k], USE[k]))
        T('block-' + k, "int[] keep = [7, 8]; int i = y; { %s %s } { %s %s } sleep(keep[0]);" % (ALLOC[k], USE[k], ALLOC[k], USE[k]))
        T('stop-' + k, "int[] keep = [7, 8]; for (int i = 0; i < 3; i += 1) { try { %s !truth_is_defeat(i == y); %s } stop { write('s'); } } sleep(keep[1]);" % (ALLOC[k], USE[k]),
          extra='')
        T('stop-deep-' + k, "int[] keep = [7, 8]; for (int i = 0; i < 3; i += 1) { try { %s !dd(i == y); %s } stop { write('s'); } } sleep(keep[1]);" % (ALLOC[k], USE[k]),
          extra="empty !dd(bool c) { int[] inner = [1, 2, 3]; !ee(c, inner); }\nempty !ee(bool c, const int[] r) { byte[] z = [1]; !truth_is_defeat(c and r[0] == 1); }\n")
        T('undo-' + k, "int[] keep = [7, 8]; for (int i = 0; i < 3; i += 1) { try { %s !truth_is_defeat(i == y); %s } undo { write('u'); } } sleep(keep[1]);" % (ALLOC[k], USE[k]))
        T('try-exit-' + k, "int[] keep = [7, 8]; for (int i = 0; i < 3; i += 1) { try { %s if (i == y) { continue; } if (i == x) { break; } !truth_is_defeat(i == 2); %s } stop { write('s'); } } sleep(keep[1]);" % (ALLOC[k], USE[k]))
    T('two-calls', "int[] keep = [7, 8]; sleep(two(x)); sleep(two(y)); sleep(keep[0]);", extra="int two(int v) { int[] a = [v, v]; byte[] b = [1, 2, 3]; return a[1] + b[2]; }\n")
    T('call-in-literal', "int[] keep = [7, 8]; int[] a = [two(x), two(y), keep[0]]; sleep(a[0] + a[1] + a[2]);", extra="int two(int v) { int[] a = [v, v]; return a[1] * 2; }\n")
    T('passed-array', "int[] a = [x, y, 3]; for (int i = 0; i < y % 3; i += 1) { upd(a, i); } sleep(a[0] + a[1] + a[2]);", extra="empty upd(int[] v, int i) { int[] tmp = [v[i], 1]; v[i] = tmp[0] + tmp[1]; }\n")
    T('while-vla-grow', "int n = 0; while (n < y % 4) { int a[n + 1]; a[n] = n; n += 1; sleep(a[n - 1]); } sleep(n);")
    # a literal AND a dynamically sized array live in the body when the exit is taken
    for ex in ('break', 'continue', 'return 7'):
        T('mixed-static-dynamic-' + ex.split()[0], "sleep(f(x)); sleep(f(y)); sleep(f(x + 1));",
          extra="int f(int v) { int n = 0; for (int i = 0; i < 3; i += 1) { int[] lit = [i, v]; int scratch[i + 1]; scratch[i] = lit[1]; n += scratch[i]; if (i == v) { %s; } byte[] more = ['m', 'n', 'o']; n += more[1]; } return n; }\n" % ex)
    T('mixed-dynamic-static-block', "sleep(f(x)); sleep(f(y));", extra="int f(int v) { int n = v % 3 + 1; { int a[n]; int[] b = [v, 2]; bool c[n + 8]; a[n - 1] = b[0]; c[n] = true; if (v > 4) { return a[n - 1]; } } { string[] s = [\"a\"]; int d[n]; d[0] = 5; return d[0] + n; } }\n")
    # the body of a loop ends in a try whose body always leaves and whose defeat call sits in an expression
    for h in ('undo', 'stop'):
        T('loop-array-try-return-' + h, "sleep(@f(x)); sleep(@f(y)); write('.');",
          extra="int !g(const int[] a, int i) { !truth_is_defeat(a[i %% 2] > 5); return a[0]; }\nint @f(int v) { for (int i = 0; i < 3; i += 1) { int[] a = [v + i, i]; try { int r = !g(a, i); return r; } %s { write('h'); } } return 0 - 1; }\n" % h)
        T('loop-array-try-break-' + h, "for (int i = 0; i < 3; i += 1) { byte[] a = ['a', x is byte]; try { !truth_is_defeat(a[1] > 'a' + i); break; } %s { write('h'); } } int[] z = [1, 2]; sleep(z[1]); write('.');" % h)
    T('return-expr-allocates', "sleep(f(x)); sleep(f(y));", extra="int pick(const int[] a, const int[] b, int i) { return a[i] * 100 + b[i]; }\nint f(int v) { int[] a = [v, v + 1, v + 2]; return pick(a, [v + 7, 8, 9], 1) + a[2]; }\n")
    T('return-expr-callee-array', "sleep(f(x));", extra="int g(int v) { int[] t = [v * 2, 77, 78]; return t[0] + t[2]; }\nint f(int v) { int[] a = [v, v + 1, v + 2]; byte[] b = ['a', 'b']; return g(v) + a[1] + a[2] * b[1]; }\n")
    T('return-expr-literal-index', "sleep(f(x, y));", extra="int f(int v, int w) { int[] a = [v, w]; if (v > w) { return [w, v, 3][1] + a[0]; } bool[] c = [v > 0, w > 0]; return [9, 8][0] * a[1] + (c[1] is int); }\n")
    T('return-byte-expr-allocates', "write(f(x));", extra="byte last(const byte[] s) { return s[s.length - 1]; }\nbyte f(int v) { byte[] a = [v is byte, 'k']; return last(a) + last([1, 2, v is byte]) + a[0]; }\n")
    T('return-in-loop-allocates', "sleep(f(x));", extra="int s2(const int[] a) { return a[0] + a[1]; }\nint f(int v) { for (int i = 0; i < 3; i += 1) { int[] a = [i, v]; if (i == v % 3) { return s2(a) * 10 + s2([a[1], a[0] + 1]); } } return 0; }\n")
    T('rec-arrays', "sleep(rec(x % 3));", extra="int rec(int n) { int[] a = [n, n + 1]; if (n <= 0) { return a[1]; } int r = rec(n - 1); return r + a[0]; }\n")
    # array literals used as temporaries (call argument, indexed literal) of every element type and of sizes that are not a multiple of the
    # word size, evaluated repeatedly: the footprint of the loop must not depend on the number of iterations
    T('literal-temporaries-in-loop', "int[] keep = [7, 8]; int s = 0; for (int i = 0; i < y % 4; i += 1) { show([x is byte, 'b', 'c']); s += [i, x, 3][i % 3]; s += ([true, false, i > 1][i % 3]) is int; show(['q']); s += cnt([i > 0, true, false, true, false]); } sleep(s); sleep(keep[0] + keep[1]);",
      extra="empty show(const byte[] a) { write(a); }\nint cnt(const bool[] a) { int n = 0; for (int i = 0; i < a.length; i += 1) { if (a[i]) { n += 1; } } return n; }\n")
    # the entry point called by the program itself: its returns release what the activation allocated
    T('entry-point-recursion', "int[] mine = [n, 7, 9]; byte[] tag = ['e', n is byte]; if (n > 0 and n < 3) { @is_you(n - 1); int[] more = [n, n]; @is_you(0); sleep(more[1]); } if (n == 5) { return; } write(tag[0]); sleep(mine[0]);", sig='int n')
    T('entry-point-loop-calls', "if (n == 0) { int[] a = [1, 2, 3]; if (a[0] == 1) { return; } } for (int i = 0; i < n % 4; i += 1) { byte[] b = ['k', i is byte]; @is_you(0); write(b[0]); } write('.');", sig='int n')
    return out


def alloc_templates():
    """C04: every allocation-site kind, every callee incl. library routines, meant to be run at every stack size"""
    out = []

    def T(name, body, sig='int x, int y', extra='', **arrays):
        out.append(C('alloc/' + name, extra + 'empty @is_you(%s) {\n%s\n}\n' % (sig, body), **arrays))
    T('lit-int', 'int[] a = [x, y, 3]; sleep(a[0]); sleep(a[2]);')
    T('lit-byte', "byte[] a = [x is byte, 'b', 'c', 'd', 'e']; write(a);")
    T('lit-bool', 'bool[] a = [x > 0, true, false, y > 0, true, false, true, false, true]; sleep(a[0] is int); sleep(a[8] is int);')
    T('lit-string', 'string[] a = ["a", "bc"]; write(a[1]);')
    T('lit-nested-index', 'int[] b = [x, [y, y, y, y, y, y, y, y][3]]; sleep(b[0]); sleep(b[1]);')
    T('lit-nested-call', 'int[] a = [x, x, x, x, f6(y, y, y, y, y, y)]; sleep(a[1]); sleep(a[4]);', extra='int f6(int a, int b, int c, int d, int e, int g) { return a + g; }\n')
    T('lit-elem-temps', 'int[] a = [x + y * 2, (x - y) * (x + y), h(x, y) + h(y, x)]; sleep(a[0]); sleep(a[1]); sleep(a[2]);', extra='int h(int a, int b) { return a - b; }\n')
    T('lit-bool-calls', 'bool[] a = [p(x), true, p(y), false, p(x + y), true, true, false, p(1)]; sleep(a[0] is int); sleep(a[4] is int);', extra='bool p(int v) { int[] t = [v, v]; return t[1] > 0; }\n')
    T('lit-elems-callee-arrays', 'int[] a = [s3(x, 2, 3), s3(4, y, 6), 7]; sleep(a[0]); sleep(a[1]); sleep(a[2]); byte[] b = [tag(x), tag(y), 33]; write(b);',
      extra="int s3(int a, int b, int c) { int[] t = [a, b, c]; return t[0] + t[1] + t[2]; }\nbyte tag(int v) { byte[] t = ['o', 'k', v is byte]; return t[2]; }\n")
    T('repeat-array-calls', "int canary = 1000; int s = 0; for (int i = 0; i < 12; i += 1) { s += mark(x, i); } sleep(s); sleep(canary); write(tagb(y)); write(tagb(x)); sleep(canary);",
      extra="int mark(int v, int k) { int[] a = [v, k, v, k]; if (k > 20) { return 0; } return a[0] + a[3]; }\nbyte tagb(int v) { byte[] t = [v is byte, 'q', 'r']; for (int i = 0; i < 2; i += 1) { if (t[i] == 'q') { return t[0]; } } return t[2]; }\n")
    T('lit-nested-literal-arg', 'int[] a = [first([x, 1]), 20, 30, 40, ((x + 1) * (y + 2)) - ((x - 3) * (y - 4)) + h(x, y) * h(y, x)]; sleep(a[0]); sleep(a[1]); sleep(a[2]); sleep(a[3]); sleep(a[4]);',
      extra='int first(const int[] v) { return v[0]; }\nint h(int a, int b) { return a - b; }\n')
    # ... and a later element that is the high-water mark of the whole function (deep right-nested product over non-constant globals)
    T('lit-nested-literal-arg-deep', 'int[] a = [first([x, 1]), 20, 30, 40, (ga+gb)*((gc+gd)*((ge+gf)*((gg+gh)*((ga+gc)*((gb+gd)*((gc+ge)*((gd+gf)*((ge+gg)*((gf+gh)*((ga+gd)*(ga+x)))))))))))]; '
      'sleep(a[0]); sleep(a[1]); sleep(a[2]); sleep(a[3]); sleep(a[4]);',
      extra='int first(const int[] v) { return v[0]; }\nint ga = 1; int gb = 2; int gc = 3; int gd = 4; int ge = 5; int gf = 6; int gg = 7; int gh = 8;\n')
    T('lit-nested-literal-mid-deep', "byte[] a = ['s', lastb([x is byte, 'q']), 't', (((((((gb + y) * 2 + gb) * 3 + gb) * 5 + gb) * 7 + gb) * 11 + (gb * (gb + (gb * (gb + (gb * (gb + (gb * (gb + x))))))))) is byte), 'u']; write(a);",
      extra='byte lastb(const byte[] v) { return v[v.length - 1]; }\nint gb = 2;\n')
    T('lit-nested-literal-arg-bytes', "byte[] a = [lastb(['p', x is byte]), 'b', 'c', lastb([1, 2, (x + y) is byte])]; write(a);", extra='byte lastb(const byte[] v) { return v[v.length - 1]; }\n')
    for el in ('int', 'byte', 'bool', 'string'):
        T('vla-' + el, "int n = x; %s v[n]; write('k'); sleep(v.length);" % el)
        T('vla-after-lit-' + el, "int[] a = [1, 2, 3]; %s v[x]; write('k'); sleep(a[2]); sleep(v.length);" % el)
    for el, val in (('bool', 'true'), ('int', '5'), ('byte', "'z'")):
        T('vla-store-canary-' + el, "int canary = 1001; %s flags[x]; int after = 2002; write('k'); if (y >= 0 and y < 3) { flags[y] = %s; } sleep(canary); sleep(after);" % (el, val))
    T('vla-two', "int a[x]; int b[y]; write('k'); sleep(a.length + b.length);")
    T('vla-then-array', "int n = x % 3; if (n < 1) { n = 1; } int a[n]; a[n - 1] = 7; int[] b = [y, y, y]; sleep(a[n - 1]); sleep(b[0]); a[0] = 5; sleep(b[2]); sleep(a[0]);")
    T('vla-then-call', "int n = x % 3; if (n < 1) { n = 1; } int a[n]; a[n - 1] = 7; sleep(mk(y)); sleep(a[n - 1]);", extra='int mk(int v) { int[] t = [v, v, v]; return t[2]; }\n')
    T('vla-in-loop', "for (int i = 0; i < 3; i += 1) { int a[x]; if (x > 0) { a[0] = i; sleep(a[0]); } } write('k');")
    T('vla-in-try', "try { int a[x]; if (x > 0) { a[0] = 1; } !truth_is_defeat(y > 0); write('n'); } stop { write('s'); } int b[2]; b[1] = 5; sleep(b[1]);")
    T('lit-in-loop-try', "for (int i = 0; i < 2; i += 1) { try { int[] a = [i, x, y]; !truth_is_defeat(a[1] > 0); sleep(a[2]); } undo { write('u'); } }")
    T('call-chain', 'sleep(c1(x));', extra='int c1(int v) { int[] a = [v, 1]; return c2(a[0]) + a[1]; }\nint c2(int v) { byte[] b = [1, 2, 3]; return c3(v) + b[2]; }\nint c3(int v) { int t = v * 2; return t + 1; }\n')
    T('write-int', 'int[] a = [1, 2, 3]; write(x); sleep(a[0]); sleep(a[1]); sleep(a[2]);')
    T('write-int-bytes', "byte[] a = [1, 2, 3, 4, 5, 6]; write(x); write(a[5]); write(a[4]); write(a[3]);")
    T('write-bool', 'int[] a = [1, 2, 3]; write(x > 0); sleep(a[2]);')
    T('write-string', 'int[] a = [1, 2, 3]; write("hey"); sleep(a[2]);')
    T('write-bytes-state', "byte[] a = ['a', x is byte, 'c']; write(a); sleep(a[1]);")
    T('write-bytes-const', 'int[] a = [1, 2, 3]; write("abc" is byte[]); sleep(a[2]);')
    T('writeln-int', 'byte[] a = [1, 2, 3]; writeln(x); write(a[2]);')
    T('deep-temps', 'int[] a = [1, 2]; sleep(((x + 1) * (y + 2)) - ((x - 3) * (y - 4)) + a[1]);')
    T('byte-temps', "byte[] a = [1, 2, 3]; byte p = x is byte; byte q = y is byte; sleep(p + q * 2 + a[2]);")
    T('array-assign-temps', 'int[] a = [1, 2, 3]; a[x % 3 * (x % 3)] += y * 2; sleep(a[0] + a[1] + a[2]);')
    T('bool-assign-temps', 'bool[] a = [true, false, true]; a[1] = x > y; sleep(a[1] is int); sleep(a[2] is int);')
    T('recursion', 'sleep(r(x % 3));', extra='int r(int n) { int[] a = [n, 2]; if (n <= 0) { return a[1]; } return r(n - 1) + a[0]; }\n')
    T('defeat-funcs', "try { !d1(x); write('n'); } stop { write('s'); } int[] z = [1, 2]; sleep(z[1]);", extra="empty !d0(int a) { int[] t = [a, a]; !truth_is_defeat(t[1] > 2); }\nempty !d1(int a) { byte[] b = [1, 2, 3]; !d0(a + b[0]); }\n")
    T('stop-loop-callee-array', "int ok = 0; for (int i = 0; i < 6; i += 1) { try { !probe(x + i); ok += 1; } stop { write('s'); } } sleep(ok); int[] z = [1, 2]; sleep(z[1]);",
      extra="empty !probe(int v) { int[] scratch = [v, v, v, v]; !truth_is_defeat(scratch[3] % 2 == 0); }\n")
    T('global-index-store', "byte[] buf = ['a', 'b', 'c']; int canary = 12345; gi = 2; buf[gi] = nxtb(x); write(buf); sleep(canary);", extra="int gi = 0;\nbyte nxtb(int v) { gi = v; return 'n'; }\n")
    T('global-index-store-int', "int[] buf = [1, 2, 3]; gi = 1; buf[gi] = nxti(x); sleep(buf[1]); sleep(gi);", extra="int gi = 0;\nint nxti(int v) { gi = v; return 9; }\n")
    T('byte-deepest-slot', "byte[] a = [1, 2, 3]; byte b = x is byte; bool t = y > 0; write(b); sleep(t is int); write(a[2]);")
    T('byte-deepest-callee', "byte[] a = [1, 2, 3]; write(low(x)); write(a[2]);", extra="byte low(int v) { int w = v * 2; byte r = w is byte; return r; }\n")
    T('args-array', 'xs[0] = 7; int[] a = [xs[0], xs[1]]; sleep(a[0] + a[1]);', sig='int[] xs', xs=2)
    # state addresses on both sides of the sign bit of a 16-bit word: at the largest accepted stack the entry frame ends at 32770, and the
    # 30000-byte global lies wholly above 32767 (address arithmetic and every guard must be unsigned)
    T('high-addresses', "write(gmsg); write(smsg); big[29999] = x is byte; big[y % 4 + 100] = 'm'; int[] a = [x, y, 3]; byte[] b = ['p', y is byte]; sleep(r(x % 3)); sleep(a[1]); write(b[1]); write(big[29999]); write(big[100 + y % 4]); sleep(a[0]); write(tab[x % 2]); write(gmsg); gmsg[3] = y is byte; write(gmsg); write(smsg);",
      extra='byte[] gmsg = [104, 101, 108, 108, 111, 119, 111, 114, 108, 100];\nstring smsg = "state";\nbyte big[30000];\nconst byte[] tab = [7, 9];\nint r(int n) { int[] t = [n, 2]; if (n <= 0) { return t[1]; } return r(n - 1) + t[0]; }\n')
    T('spec', 'int[] a = [1, 2]; sleep(h(x) ?? y); sleep(a[1]);', extra='int h(int v) { int[] t = [v, v, v]; return t[2]; }\n')
    return out
