"""Shared term library (DESIGN §4.6): VM and reference interpreter build machine values
through these functions so that equal computations give syntactically equal z3 terms.

A *word* is a Python int in [0, 2^B) or a z3 BitVec(B).  A *byte* is an int in [0,256)
or a z3 BitVec(8).  Conditions are Python bools or z3 Bools.
"""
try:
    import z3
except ImportError:      # concrete-only use (spasm shim under /venv's python)
    z3 = None


def isc(v):
    return isinstance(v, int)


class Inconclusive(Exception):
    """solver said unknown / resource bound hit: never counted as a pass"""


class Terms:
    def __init__(self, W):
        self.W = W
        self.B = 8 * W
        self.M = (1 << self.B) - 1
        self.SMIN = 1 << (self.B - 1)

    # ---- basic
    def Z(self, v, bits=None):
        bits = bits or self.B
        return z3.BitVecVal(v, bits) if isc(v) else v

    def simp(self, t):
        t = z3.simplify(t)
        if z3.is_bv_value(t):
            return t.as_long()
        return t

    def simpb(self, c):
        if isinstance(c, bool):
            return c
        c = z3.simplify(c)
        if z3.is_true(c):
            return True
        if z3.is_false(c):
            return False
        return c

    def signed(self, v):
        return v - (1 << self.B) if v >> (self.B - 1) else v

    # ---- arithmetic (wrap-around, floor division)
    def arith(self, op, l, r):
        B, M = self.B, self.M
        if isc(l) and isc(r):
            if op == 'add': return (l + r) & M
            if op == 'sub': return (l - r) & M
            if op == 'mul': return (l * r) & M
            if op == 'and': return l & r
            if op == 'or': return l | r
            if op == 'xor': return l ^ r
            sl, sr = self.signed(l), self.signed(r)
            if op == 'div': return (sl // sr) & M
            if op == 'mod': return (sl % sr) & M
            if op == 'asl': return (l << r) & M
            if op == 'asr': return (sl >> r) & M
            raise ValueError(op)
        l, r = self.Z(l), self.Z(r)
        if op in ('div', 'mod'):
            q = l / r                      # bvsdiv: truncating
            rem = z3.SRem(l, r)
            adj = z3.And(rem != 0, (rem < 0) != (r < 0))
            v = z3.If(adj, q - 1, q) if op == 'div' else z3.If(adj, rem + r, rem)
        elif op == 'add': v = l + r
        elif op == 'sub': v = l - r
        elif op == 'mul': v = l * r
        elif op == 'and': v = l & r
        elif op == 'or': v = l | r
        elif op == 'xor': v = l ^ r
        elif op == 'asl': v = l << r
        elif op == 'asr': v = l >> r
        else:
            raise ValueError(op)
        return self.simp(v)

    def cmp(self, op, l, r):
        if isc(l) and isc(r):
            sl, sr = self.signed(l), self.signed(r)
            return {'eq': l == r, 'ne': l != r, 'lt': sl < sr, 'gt': sl > sr, 'le': sl <= sr, 'ge': sl >= sr,
                    'ltu': l < r, 'gtu': l > r, 'leu': l <= r, 'geu': l >= r}[op]
        l, r = self.Z(l), self.Z(r)
        c = {'eq': lambda: l == r, 'ne': lambda: l != r, 'lt': lambda: l < r, 'gt': lambda: l > r,
             'le': lambda: l <= r, 'ge': lambda: l >= r,
             'ltu': lambda: z3.ULT(l, r), 'gtu': lambda: z3.UGT(l, r),
             'leu': lambda: z3.ULE(l, r), 'geu': lambda: z3.UGE(l, r)}[op]()
        return self.simpb(c)

    def b2w(self, c):
        if isinstance(c, bool):
            return int(c)
        return self.simp(z3.If(c, self.Z(1), self.Z(0)))

    def low_byte_word(self, v):
        """word -> word holding only its low byte (zero-extended)"""
        if isc(v):
            return v & 0xFF
        return self.simp(z3.ZeroExt(self.B - 8, z3.Extract(7, 0, v)))

    def byte_of(self, v):
        """word/byte -> byte value (int or BV8)"""
        if isc(v):
            return v & 0xFF
        if v.size() == 8:
            return v
        return self.simp(z3.Extract(7, 0, v))

    def zext(self, b):
        """byte -> word"""
        if isc(b):
            return b & 0xFF
        if b.size() == self.B:
            return b
        return self.simp(z3.ZeroExt(self.B - 8, b))

    def not_(self, c):
        if isinstance(c, bool):
            return not c
        return self.simpb(z3.Not(c))


def ev_equal_cond(T, e1, e2):
    """condition under which two events are equal: Python bool or z3 Bool"""
    if e1[0] != e2[0]:
        return False
    if e1[0] == 'flag':
        return e1[1] == e2[1]
    a, b = e1[1], e2[1]
    if isc(a) and isc(b):
        return a == b
    if e1[0] == 'out':
        a, b = T.Z(a, 8), T.Z(b, 8)
    else:
        a, b = T.Z(a), T.Z(b)
    if z3.eq(a, b):
        return True
    return T.simpb(a == b)


def events_differ_cond(T, ev1, ev2):
    """None if certainly equal; True if certainly different; else a z3 Bool (differ)"""
    if len(ev1) != len(ev2):
        return True
    cs = []
    for a, b in zip(ev1, ev2):
        c = ev_equal_cond(T, a, b)
        if c is False:
            return True
        if c is not True:
            cs.append(c)
    if not cs:
        return None
    return z3.Not(z3.And(*cs)) if len(cs) > 1 else z3.Not(cs[0])


def fmt_events(ev, limit=40):
    out = []
    for e in ev[:limit]:
        if e[0] == 'out':
            v = e[1]
            out.append(('o:%r' % chr(v)) if isc(v) and 32 <= v < 127 else ('o:%s' % (v,)))
        elif e[0] == 'sleep':
            out.append('s:%s' % (e[1],))
        else:
            out.append('f:%s' % e[1])
    if len(ev) > limit:
        out.append('...+%d' % (len(ev) - limit))
    return ' '.join(out)


def events_bytes(ev):
    """concrete events -> (bytes, flags, sleeps)"""
    return (bytes(e[1] for e in ev if e[0] == 'out'),
            [e[1] for e in ev if e[0] == 'flag'],
            [e[1] for e in ev if e[0] == 'sleep'])
