"""hv: verification machinery for hidc (see /verif/DESIGN.md)."""
