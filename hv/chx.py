"""CrossHair runner (engine CH, DESIGN §2.2).

Harness files live in /verif/ch/<group>_*.py.  Conventions:
  lemma_*    PEP316 contract `post: __return__`; must come back "Confirmed over all paths"
  twin_*     reachability / vacuity twin of a lemma: must come back with a counterexample
  finding_*  a known finding: a counterexample is expected and printed as KNOWN-FINDING (key in FINDING_KEY of the module);
             "Confirmed" means the defect is gone (the fixed tree), which is fine
Every verdict is classified; "Not confirmed" / "Unable to meet precondition" are inconclusive, never passes.
Counterexamples are replayed by a plain CPython call of the same function before they are reported.
"""
import ast
import importlib.util
import os
import re
import subprocess
import sys
import time
from concurrent.futures import ThreadPoolExecutor

VERIF = os.path.dirname(os.path.dirname(os.path.abspath(__file__)))
CH = os.path.join(VERIF, 'ch')


def functions(path):
    tree = ast.parse(open(path).read())
    out = []
    for n in tree.body:
        if isinstance(n, ast.FunctionDef) and n.name.split('_')[0] in ('lemma', 'twin', 'finding'):
            doc = ast.get_docstring(n) or ''
            tmo = None
            m = re.search(r'timeout:\s*(\d+)', doc)
            if m:
                tmo = int(m.group(1))
            out.append((n.name, n.lineno + 1, tmo))
    return out


def expand_splits(path, tmpdir):
    """A harness module may define SPLITS = {'lemma_x': ('param', n)}: the lemma is then checked as n separate conditions
    lemma_x__<v> with param fixed to v (written as real source files, CrossHair needs source), so that they run in parallel.
    Returns [(generated file, function name, line, timeout, label)] and the set of lemma names that were split."""
    src = open(path).read()
    tree = ast.parse(src)
    splits = {}
    for n in tree.body:
        if isinstance(n, ast.Assign) and any(isinstance(t, ast.Name) and t.id == 'SPLITS' for t in n.targets):
            splits = ast.literal_eval(n.value)
    out = []
    done = set()
    if not splits:
        return out, done
    funcs = {n.name: n for n in tree.body if isinstance(n, ast.FunctionDef)}
    base = os.path.basename(path)[:-3]
    for name, sp in splits.items():
        param = sp[0]
        rng_ = range(sp[1]) if len(sp) == 2 else range(sp[1], sp[2])
        fn = funcs[name]
        doc = ast.get_docstring(fn) or ''
        tmo = None
        m = re.search(r'timeout:\s*(\d+)', doc)
        if m:
            tmo = int(m.group(1))
        pres = [l.strip() for l in doc.splitlines() if l.strip().startswith('pre:')]
        args = [a.arg for a in fn.args.args]
        others = [a for a in args if a != param]
        for v in rng_:
            gname = '%s__%s%d' % (name, param, v)
            gfile = os.path.join(tmpdir, '%s__%s.py' % (base, gname))
            pre_lines = '\n'.join('    ' + re.sub(r'\b%s\b' % re.escape(param), str(v), l) for l in pres)
            call = ', '.join(str(v) if a == param else a for a in args)
            # the wrapper is a COPY of the lemma's body with the split parameter bound (not a call of the lemma: CrossHair
            # enforces the contracts of callees and silently ignores paths on which a callee's postcondition fails)
            body_src = '\n'.join('    ' + l for stmt in fn.body[1 if ast.get_docstring(fn) is not None else 0:] for l in ast.unparse(stmt).splitlines())
            code = ('import importlib.util, sys\n_spec = importlib.util.spec_from_file_location(%r, %r)\n_base = importlib.util.module_from_spec(_spec)\nsys.modules[_spec.name] = _base\n'
                    '_spec.loader.exec_module(_base)\nglobals().update({k: v for k, v in vars(_base).items() if not k.startswith("__")})\n\n\n'
                    'def %s(%s) -> bool:\n    """\n%s\n    post: __return__\n    """\n    %s = %d\n%s\n'
                    % (base + '_base', path, gname, ', '.join('%s: int' % a for a in others), pre_lines, param, v, body_src))
            open(gfile, 'w').write(code)
            line = code[:code.index('def ' + gname)].count('\n') + 2
            out.append((gfile, gname, line, tmo, '%s[%s=%d]' % (name, param, v)))
        done.add(name)
    return out, done


def run_one(path, name, line, timeout):
    env = dict(os.environ, PYTHONPATH=os.environ.get('HIDC_ROOT', '/repo') + ':' + VERIF, PYTHONDONTWRITEBYTECODE='1', PYTHONHASHSEED='0')
    t = time.time()
    try:
        r = subprocess.run([sys.executable, '-m', 'crosshair', 'check', '--report_all', '--per_condition_timeout', str(timeout),
                            '--per_path_timeout', str(max(5, timeout // 4)), '%s:%d' % (path, line)],
                           capture_output=True, text=True, env=env, timeout=timeout * 3 + 60)
        out = r.stdout + r.stderr
    except subprocess.TimeoutExpired:
        out = 'info: Not confirmed. (process timeout)'
    verdict, detail = 'unknown', out.strip()[-400:]
    for l in out.splitlines():
        if 'Confirmed over all paths' in l:
            verdict = 'confirmed'
        elif ': error:' in l:
            verdict, detail = 'counterexample', l.split(': error:', 1)[1].strip()
            break
        elif 'Not confirmed' in l:
            verdict = 'not-confirmed'
        elif 'Unable to meet precondition' in l:
            verdict = 'no-precondition'
    return dict(file=os.path.basename(path), name=name, verdict=verdict, detail=detail, wall=round(time.time() - t, 1))


def replay(path, name, detail):
    """re-run the counterexample on plain CPython: True if the function really returns falsy / raises"""
    m = re.search(r'when calling (\w+)\((.*)\)\s*\(which', detail, re.S)
    if not m:
        m = re.search(r'when calling (\w+)\((.*)\)', detail, re.S)
    if not m:
        return None, 'cannot parse counterexample'
    call = '%s(%s)' % (m.group(1), m.group(2))
    spec = importlib.util.spec_from_file_location('chmod_' + os.path.basename(path)[:-3], path)
    mod = importlib.util.module_from_spec(spec)
    root = os.environ.get('HIDC_ROOT', '/repo')
    if root not in sys.path:
        sys.path.insert(0, root)
    spec.loader.exec_module(mod)
    try:
        v = eval(call, vars(mod))
    except Exception as e:     # noqa: BLE001
        return True, '%s raises %s: %s' % (call, type(e).__name__, e)
    return (not v), '%s returns %r' % (call, v)


def run_into(rep, group, per_condition_timeout=30, procs=None):
    files = sorted(f for f in os.listdir(CH) if f.startswith(group + '_') and f.endswith('.py'))
    import tempfile
    tmpdir = tempfile.mkdtemp(prefix='chsplit_')
    jobs = []
    labels = {}
    thorough = os.environ.get('VERIF_TIER', 'quick') == 'thorough'
    for f in files:
        p = os.path.join(CH, f)
        gen, done = expand_splits(p, tmpdir)
        skip = set()
        if not thorough:
            for n in ast.parse(open(p).read()).body:
                if isinstance(n, ast.Assign) and any(isinstance(t, ast.Name) and t.id == 'THOROUGH_ONLY' for t in n.targets):
                    skip = set(ast.literal_eval(n.value))
        rep.cov.setdefault('crosshair_thorough_only_skipped', [])
        rep.cov['crosshair_thorough_only_skipped'] += sorted(skip)
        gen = [g for g in gen if g[4].split('[')[0] not in skip]
        done |= skip
        for name, line, tmo in functions(p):
            if name in done:
                continue
            jobs.append((p, name, line, tmo or per_condition_timeout))
        for gfile, gname, line, tmo, label in gen:
            jobs.append((gfile, gname, line, tmo or per_condition_timeout))
            labels[(gfile, gname)] = '%s:%s' % (f, label)
    procs = procs or int(os.environ.get('VERIF_PROCS', '0')) or 16
    t0 = time.time()
    results = []
    with ThreadPoolExecutor(procs) as ex:
        for r in ex.map(lambda j: run_one(*j), jobs):
            results.append(r)
    n_conf = 0
    for (p, name, line, tmo), r in zip(jobs, results):
        rep.counts['evaluations'] += 1
        rep.counts['obligations'] += 1
        kind = name.split('_')[0]
        label = labels.get((p, name)) or '%s:%s' % (r['file'], name)
        v = r['verdict']
        if kind == 'lemma':
            if v == 'confirmed':
                rep.counts['discharged'] += 1
                n_conf += 1
                rep.distinct_keys.add(label)
            elif v == 'counterexample':
                ok, how = replay(p, name, r['detail'])
                if ok:
                    rep.violation(dict(what='CrossHair counterexample for %s: %s' % (label, how), case=label,
                                       replay=dict(type='python-call', file=p, call=r['detail'])))
                else:
                    rep.harness_errors.append('CrossHair counterexample for %s did not replay on CPython: %s (%s)' % (label, r['detail'][:200], how))
            else:
                rep.inconclusive.append('CrossHair %s: %s (%ss)' % (label, v, tmo))
        elif kind == 'twin':
            if v == 'counterexample':
                rep.counts['discharged'] += 1
                rep.distinct_keys.add(label)
            elif v == 'confirmed':
                rep.harness_errors.append('vacuity twin %s was confirmed: the harness does not reach its assertion' % label)
            else:
                rep.inconclusive.append('CrossHair twin %s: %s' % (label, v))
        else:   # finding
            spec = importlib.util.spec_from_file_location('chf_' + r['file'][:-3], p)
            mod = importlib.util.module_from_spec(spec)
            try:
                spec.loader.exec_module(mod)
                key = getattr(mod, 'FINDING_KEY', {}).get(name)
            except Exception:     # noqa: BLE001
                key = None
            if v == 'counterexample':
                ok, how = replay(p, name, r['detail'])
                if ok and key:
                    rep.known_finding_seen(key)
                    if key not in rep.known_seen:
                        rep.violation(dict(what='%s: %s' % (label, how), case=label, replay=dict(type='python-call', file=p, call=r['detail'])))
                    rep.counts['discharged'] += 1
                elif ok:
                    rep.violation(dict(what='%s: %s' % (label, how), case=label, replay=dict(type='python-call', file=p, call=r['detail'])))
                else:
                    rep.harness_errors.append('finding %s did not replay: %s' % (label, how))
            elif v == 'confirmed':
                rep.counts['discharged'] += 1
            else:
                rep.inconclusive.append('CrossHair finding %s: %s' % (label, v))
        rep.cov.setdefault('crosshair_seconds_per_condition', {})[label] = r['wall']
        rep.cov['crosshair_per_condition_cap_s'] = per_condition_timeout
        if len(rep.samples) < 12 and kind != 'twin':
            rep.sample(dict(crosshair=label, verdict=v, wall_s=r['wall'], detail=r['detail'][:160] if v != 'confirmed' else ''))
    import shutil
    shutil.rmtree(tmpdir, ignore_errors=True)
    rep.cov['crosshair_functions'] = rep.cov.get('crosshair_functions', 0) + len(jobs)
    rep.cov['crosshair_confirmed_over_all_paths'] = rep.cov.get('crosshair_confirmed_over_all_paths', 0) + n_conf
    rep.cov['crosshair_wall_s'] = round(rep.cov.get('crosshair_wall_s', 0) + time.time() - t0, 1)
    rep.cov.setdefault('crosshair_verdicts', {}).update({'%s:%s' % (r['file'], r['name']): r['verdict'] for r in results})
    return results
