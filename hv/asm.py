"""Strict assembler for the textual Sphinx assembly emitted by hidc.

Trusted base (DESIGN §3/§4.1).  It parses the *bytes lines* produced by
CodeGen.gen_lines(): %argv/%format/%section, labels, .word/.byte/.zero/.ascii/.arg,
`;` comments outside quotes, operand expressions with `Nw` word offsets, character
immediates with escapes, `[e]` state operands, `{e}` const operands.

Strictness is the "assembler accepts the output" oracle of C10/C13: unknown escapes,
unterminated quotes, undefined/duplicate labels, negative .zero, unknown mnemonics,
wrong operand counts are all AsmError.
"""
import re


class AsmError(Exception):
    pass


ESC = {'n': 10, 'r': 13, 't': 9, '0': 0, '\\': 92, "'": 39, '"': 34}

# mnemonic -> number of operands
OPS = {
    'halt': 0, 'j': 1, 'yield': 1, 'sleep': 1, 'flag': 1, 'mov': 2,
    'heq': 2, 'hne': 2, 'hlt': 2, 'hgt': 2, 'hle': 2, 'hge': 2,
    'hltu': 2, 'hgtu': 2, 'hleu': 2, 'hgeu': 2,
    'add': 3, 'sub': 3, 'mul': 3, 'div': 3, 'mod': 3, 'and': 3, 'or': 3, 'xor': 3,
    'asl': 3, 'asr': 3,
    'lws': 2, 'lwc': 2, 'lbs': 2, 'lbc': 2, 'lwso': 3, 'lwco': 3, 'lbso': 3, 'lbco': 3,
    'sws': 2, 'sbs': 2, 'swso': 3, 'sbso': 3,
}
# instructions whose first operand must be a state destination `[imm]`
DEST_OPS = {'mov', 'add', 'sub', 'mul', 'div', 'mod', 'and', 'or', 'xor', 'asl', 'asr',
            'lws', 'lwc', 'lbs', 'lbc', 'lwso', 'lwco', 'lbso', 'lbco'}


def unescape(body: bytes) -> bytes:
    out = bytearray()
    i = 0
    while i < len(body):
        c = body[i]
        if c == 92:
            if i + 1 >= len(body):
                raise AsmError('dangling backslash in %r' % body)
            d = chr(body[i + 1])
            if d == 'x':
                h = body[i + 2:i + 4]
                if len(h) != 2 or not re.fullmatch(rb'[0-9a-fA-F]{2}', h):
                    raise AsmError('bad \\x escape in %r' % body)
                out.append(int(h, 16))
                i += 4
            elif d in ESC:
                out.append(ESC[d])
                i += 2
            else:
                raise AsmError('unknown escape \\%s in %r' % (d, body))
        else:
            if c < 0x20 or c > 0x7e:
                raise AsmError('raw non-printable byte 0x%02x in quoted text' % c)
            out.append(c)
            i += 1
    return bytes(out)


TOK = re.compile(rb"""\s*(?:
    (?P<num>0x[0-9a-fA-F]+|\d+)(?P<w>w)? |
    (?P<chr>'(?:[^'\\]|\\x[0-9a-fA-F]{2}|\\[^x])') |
    (?P<name>\$?[A-Za-z_][A-Za-z_0-9]*) |
    (?P<op>[-+*&()\[\]{},])
)""", re.X)


def split_comment(line: bytes) -> bytes:
    out = bytearray()
    q = None
    i = 0
    while i < len(line):
        c = line[i:i + 1]
        if q:
            out += c
            if c == b'\\':
                out += line[i + 1:i + 2]
                i += 1
            elif c == q:
                q = None
        else:
            if c == b';':
                break
            if c in (b'"', b"'"):
                q = c
            out += c
        i += 1
    if q:
        raise AsmError('unterminated quote: %r' % line)
    return bytes(out).strip()


def tokenize(b: bytes):
    toks = []
    pos = 0
    b = b.strip()
    while pos < len(b):
        m = TOK.match(b, pos)
        if not m or m.end() == pos:
            raise AsmError('bad operand text %r' % b[pos:])
        pos = m.end()
        if m.group('num') is not None:
            toks.append(('num', int(m.group('num'), 0), bool(m.group('w'))))
        elif m.group('chr') is not None:
            v = unescape(m.group('chr')[1:-1])
            if len(v) != 1:
                raise AsmError('bad character immediate %r' % m.group('chr'))
            toks.append(('num', v[0], False))
        elif m.group('name') is not None:
            toks.append(('name', m.group('name').decode()))
        else:
            toks.append(('op', m.group('op').decode()))
    return toks


def split_args(toks):
    args = [[]]
    depth = 0
    for t in toks:
        if t == ('op', ',') and depth == 0:
            args.append([])
            continue
        if t[0] == 'op' and t[1] in '([{':
            depth += 1
        if t[0] == 'op' and t[1] in ')]}':
            depth -= 1
        args[-1].append(t)
    if depth != 0:
        raise AsmError('unbalanced brackets')
    if args == [[]]:
        return []
    if any(not a for a in args):
        raise AsmError('empty operand')
    return args


class Operand:
    """kind: 'imm' | 'state' | 'const'; toks: expression tokens; base: first name in toks"""
    __slots__ = ('kind', 'toks', 'val', 'text', 'raw')

    def __init__(self, kind, toks):
        self.kind, self.toks = kind, toks
        self.val = None   # filled in by Program.resolve()
        self.text = None
        self.raw = None   # unmasked value of the expression

    def __repr__(self):
        return '%s:%r' % (self.kind, self.toks)


def mk_operand(toks):
    if toks[0] == ('op', '['):
        if toks[-1] != ('op', ']'):
            raise AsmError('bad state operand')
        return Operand('state', toks[1:-1])
    if toks[0] == ('op', '{'):
        if toks[-1] != ('op', '}'):
            raise AsmError('bad const operand')
        return Operand('const', toks[1:-1])
    return Operand('imm', toks)


class Instr:
    __slots__ = ('op', 'args', 'src', 'lineno')

    def __init__(self, op, args, src, lineno):
        self.op, self.args, self.src, self.lineno = op, args, src, lineno

    def __repr__(self):
        return self.src


def const_eval(toks, labels, W, special=None):
    """immediate expression: atoms combined left-to-right with + - & *, unary -, parens"""
    pos = 0

    def atom():
        nonlocal pos
        if pos >= len(toks):
            raise AsmError('truncated expression %r' % (toks,))
        t = toks[pos]
        if t[0] == 'num':
            pos += 1
            return t[1] * (W if t[2] else 1)
        if t[0] == 'name':
            pos += 1
            if t[1].startswith('$'):
                if special is None or t[1] not in special:
                    raise AsmError('special %s not available here' % t[1])
                return special[t[1]]
            if t[1] not in labels:
                raise AsmError('undefined label ' + t[1])
            return labels[t[1]][1]
        if t == ('op', '-'):
            pos += 1
            return -atom()
        if t == ('op', '+'):
            pos += 1
            return atom()
        if t == ('op', '('):
            pos += 1
            v = expr()
            if pos >= len(toks) or toks[pos] != ('op', ')'):
                raise AsmError('missing )')
            pos += 1
            return v
        raise AsmError('bad expression %r' % (toks,))

    def expr():
        nonlocal pos
        v = atom()
        while pos < len(toks) and toks[pos][0] == 'op' and toks[pos][1] in '+-&*':
            o = toks[pos][1]
            pos += 1
            r = atom()
            v = v + r if o == '+' else v - r if o == '-' else v & r if o == '&' else v * r
        return v

    v = expr()
    if pos != len(toks):
        raise AsmError('trailing tokens %r' % (toks,))
    return v


class Program:
    """Assembled program.

    word     : word size in bytes
    labels   : name -> (section, address / instruction index)
    code     : [Instr]
    items    : section -> [(addr, kind, payload...)] data items in order
    size     : section -> size in bytes
    argv     : list of argv specs from %argv
    """

    def label_addr(self, name):
        return self.labels[name][1]

    def code_labels_at(self, idx):
        return [n for n, (s, a) in self.labels.items() if s == 'code' and a == idx]


def arg_size(fmt, params, spec, W):
    if fmt == 'word':
        return W * spec['n']
    if fmt == 'byte':
        return spec['n']
    if fmt == 'asciip':
        lens = spec['lens']
        if 'array' in params:
            return W * len(lens) + sum(W + n for n in lens)
        return W + lens[0]
    raise AsmError('unknown .arg format ' + fmt)


def norm_spec(spec):
    """argument model: {'values': [...]} concrete (ints or bytes) or {'n': k} symbolic words/bytes or
    {'lens': [..]} symbolic strings; normalised to always carry n / lens"""
    s = dict(spec)
    if 'values' in s:
        v = s['values']
        if v and isinstance(v[0], (bytes, bytearray)):
            s['lens'] = [len(x) for x in v]
        else:
            s['n'] = len(v)
            if not v:
                s.setdefault('lens', [])
    if 'lens' in s and 'n' not in s:
        s['n'] = len(s['lens'])
    if 'n' in s and 'lens' not in s:
        s['lens'] = [0] * 0
    return s


def assemble(lines, argspec=None):
    P = Program()
    P.word = 2
    P.labels = {}
    P.code = []
    P.argv = []
    P.output_format = None
    items = {'state': [], 'const': []}
    size = {'state': 0, 'const': 0}
    sec = None
    argspec = {k: norm_spec(v) for k, v in (argspec or {}).items()}
    P.argspec = argspec
    pending = []   # (lineno, section, kind, tokens) to evaluate after all labels are known
    for lineno, raw in enumerate(lines):
        if not isinstance(raw, (bytes, bytearray)):
            raise AsmError('line %d is not bytes' % lineno)
        if b'\n' in raw or b'\r' in raw:
            raise AsmError('line %d contains a raw line break' % lineno)
        line = split_comment(bytes(raw))
        if not line:
            continue
        if line.startswith(b'%'):
            parts = line.split()
            if parts[0] == b'%argv':
                P.argv = [p.decode() for p in parts[1:]]
            elif parts[0] == b'%format':
                if len(parts) != 3:
                    raise AsmError('bad %%format %r' % line)
                if parts[1] == b'word':
                    P.word = int(parts[2])
                    if P.word < 1:
                        raise AsmError('bad word size')
                elif parts[1] == b'output':
                    P.output_format = parts[2].decode()
                else:
                    raise AsmError('unknown %%format %r' % line)
            elif parts[0] == b'%section':
                sec = parts[1].decode()
                if sec not in ('state', 'const', 'code'):
                    raise AsmError('unknown section %r' % sec)
            else:
                raise AsmError('unknown directive %r' % line)
            continue
        if sec is None:
            raise AsmError('content before %%section: %r' % line)
        m = re.match(rb'([A-Za-z_][A-Za-z_0-9]*):\s*(.*)$', line)
        if m:
            name = m.group(1).decode()
            if name in P.labels:
                raise AsmError('duplicate label ' + name)
            P.labels[name] = (sec, len(P.code) if sec == 'code' else size[sec])
            line = m.group(2).strip()
            if not line:
                continue
        W = P.word
        if sec == 'code':
            mm = re.match(rb'([a-z]+)(?:\s+(.*))?$', line)
            if not mm:
                raise AsmError('bad instruction %r' % line)
            op = mm.group(1).decode()
            if op not in OPS:
                raise AsmError('unknown mnemonic %r' % op)
            rest = mm.group(2) or b''
            if op == 'flag':
                name = rest.decode().strip()
                if not re.fullmatch(r'[A-Za-z_][A-Za-z_0-9]*', name):
                    raise AsmError('bad flag name %r' % name)
                args = [name]
            else:
                args = [mk_operand(a) for a in split_args(tokenize(rest))]
                if len(args) != OPS[op]:
                    raise AsmError('%s takes %d operands: %r' % (op, OPS[op], line))
                if op in DEST_OPS and args[0].kind != 'state':
                    raise AsmError('destination of %s must be [imm]: %r' % (op, line))
                for a in args:
                    a.text = None
            P.code.append(Instr(op, args, line.decode(), lineno))
            continue
        mm = re.match(rb'\.([a-z]+)(?:\s+(.*))?$', line)
        if not mm:
            raise AsmError('bad data line %r' % line)
        d, rest = mm.group(1).decode(), (mm.group(2) or b'')
        if d == 'word':
            for a in split_args(tokenize(rest)):
                items[sec].append([size[sec], 'word', a])
                size[sec] += W
        elif d == 'byte':
            for a in split_args(tokenize(rest)):
                items[sec].append([size[sec], 'byte', a])
                size[sec] += 1
        elif d == 'zero':
            n = const_eval(tokenize(rest), {}, W)
            if n < 0:
                raise AsmError('negative .zero %d' % n)
            items[sec].append([size[sec], 'zero', n])
            size[sec] += n
        elif d == 'ascii':
            rest = rest.strip()
            if not (len(rest) >= 2 and rest.startswith(b'"') and rest.endswith(b'"')):
                raise AsmError('bad .ascii %r' % rest)
            body = rest[1:-1]
            # the closing quote must be the first unescaped quote
            i = 0
            while i < len(body):
                if body[i] == 92:
                    i += 2
                    continue
                if body[i] == 34:
                    raise AsmError('unescaped quote inside .ascii %r' % rest)
                i += 1
            if i != len(body):
                raise AsmError('dangling backslash in .ascii %r' % rest)
            data = unescape(body)
            items[sec].append([size[sec], 'bytes', data])
            size[sec] += len(data)
        elif d == 'arg':
            parts = rest.decode().split()
            if len(parts) < 2:
                raise AsmError('bad .arg %r' % rest)
            name, fmt = parts[0], parts[1]
            if name not in argspec:
                raise AsmError('no argument model for .arg ' + name)
            spec = argspec[name]
            items[sec].append([size[sec], 'arg', name, fmt, tuple(parts[2:]), spec])
            size[sec] += arg_size(fmt, parts[2:], spec, W)
        else:
            raise AsmError('unknown data directive .' + d)
    P.items = items
    P.size = size
    # array-argument count for `$argc - k`
    P.argc_array = 0
    for p in P.argv:
        if p.startswith('[<'):
            name = p[2:].split('>')[0]
            if name in argspec:
                P.argc_array = argspec[name]['n']
    nfixed = sum(1 for p in P.argv if not p.startswith('[<'))
    P.special = {'$argc': P.argc_array + nfixed}
    # resolve all operand expressions now (catches undefined labels)
    M = (1 << (8 * P.word)) - 1
    for ins in P.code:
        if ins.op == 'flag':
            continue
        for a in ins.args:
            a.raw = const_eval(a.toks, P.labels, P.word, P.special)
            a.val = a.raw & M
            names = [t[1] for t in a.toks if t[0] == 'name']
            a.text = names[0] if names else None
    for s in ('state', 'const'):
        for it in items[s]:
            if it[1] in ('word', 'byte'):
                v = const_eval(it[2], P.labels, P.word, P.special)
                it.append(v & (M if it[1] == 'word' else 0xFF))
    for s in ('state', 'const'):
        if size[s] > M + 1:
            raise AsmError('%s section does not fit the address space' % s)
    return P


def bind_argv(lines, args):
    """Concrete command line -> argspec, following the %argv / .arg lines of the program."""
    argv_spec = []
    fmts = {}
    for l in lines:
        s = l.strip()
        if s.startswith(b'%argv'):
            argv_spec = [p.decode() for p in s.split()[1:]]
        i = s.find(b'.arg ')
        if i >= 0 and (i == 0 or s[:i].rstrip().endswith(b':')):
            parts = s[i:].decode().split()
            fmts[parts[1]] = parts[2]
    before, after, var = [], [], None
    for p in argv_spec:
        if p.startswith('[<'):
            var = p[2:].split('>')[0]
        elif var is None:
            before.append(p[1:-1])
        else:
            after.append(p[1:-1])
    args = list(args)
    nfix = len(before) + len(after)
    if (var is None and len(args) != nfix) or len(args) < nfix:
        raise ValueError('bad argument count')
    raw = {}
    for n, a in zip(before, args):
        raw[n] = [a]
    if after:
        for n, a in zip(after, args[len(args) - len(after):]):
            raw[n] = [a]
    if var is not None:
        raw[var] = args[len(before):len(args) - len(after)]
    spec = {}
    for n, vals in raw.items():
        f = fmts.get(n, 'word')
        if f in ('word', 'byte'):
            spec[n] = {'values': [int(v) for v in vals], 'n': len(vals)}
        else:
            bs = [v.encode('utf-8') if isinstance(v, str) else bytes(v) for v in vals]
            spec[n] = {'values': bs, 'lens': [len(b) for b in bs], 'n': len(bs)}
    return spec
