"""VM monitors keyed on the generator's label vocabulary and state words (DESIGN §4.3, C04/C08/C16).

All monitors need concrete fp/ap: the VM is run with `concretize_dests` = {ap} so that a dynamic array
allocation with a symbolic size forks on the feasible sizes.
"""
import re

from .terms import isc
from .vm import Monitor, Violation, Unspecified

STDLIB_TOP = ('all_is_win', 'all_is_broken', 'stack_overflow', 'division_by_zero', 'out_of_bounds', 'nonlocal_preempt',
              'write_const_byte_array', 'write_string', 'write_state_byte_array', 'write_bool', 'write_int')


class ProgInfo:
    """addresses and extents derived from the assembled program"""

    def __init__(self, P):
        self.P = P
        L = P.labels
        W = P.word
        self.W = W
        self.addr = {n: a for n, (s, a) in L.items() if s == 'state'}
        self.ap, self.fp = self.addr['ap'], self.addr['fp']
        self.stack_start, self.stack_end = self.addr['stack_start'], self.addr['stack_end']
        self.try_fp = self.addr.get('try_fp')
        self.defeat = self.addr.get('defeat')
        # global data objects: state labels at/after stack_end except the try context
        glob = sorted((a, n) for n, a in self.addr.items() if a >= self.stack_end and n not in ('stack_end', 'try_fp', 'defeat'))
        ends = sorted(set([a for a, _ in glob] + [a for n, a in self.addr.items() if n in ('try_fp', 'defeat')] + [P.size['state']]))
        self.globals = []
        for a, n in glob:
            e = min(x for x in ends if x > a) if any(x > a for x in ends) else P.size['state']
            self.globals.append((a, e, n))
        # code: function extents and label index
        self.code_labels = {}
        for n, (s, a) in L.items():
            if s == 'code':
                self.code_labels.setdefault(a, []).append(n)
        starts = sorted(a for a, ns in self.code_labels.items() if any(n.startswith('func_') or n in STDLIB_TOP for n in ns))
        self.func_of = []
        cur, j = -1, 0
        for i in range(len(P.code)):
            while j < len(starts) and starts[j] <= i:
                cur = starts[j]
                j += 1
            self.func_of.append(cur)
        self.func_starts = set(starts)
        self.stdlib_start = min((a for a, ns in self.code_labels.items() if 'all_is_win' in ns), default=len(P.code))
        self.label_at = self.code_labels

    def in_global(self, a, n):
        for s, e, _ in self.globals:
            if s <= a and a + n <= e:
                return True
        return False


def info_of(vm):
    pi = getattr(vm, '_proginfo', None)
    if pi is None:
        pi = vm._proginfo = ProgInfo(vm.P)
    return pi


def cur(vm, st, addr):
    v = vm.get(st.mem, addr, vm.W, vm.sizes['state'])
    return v


class AccessMonitor(Monitor):
    """C04: every load/store/jump is classified and checked against live ap/fp and array extents"""

    def init(self, vm):
        info_of(vm)
        return {'ext': (), 'nacc': 0}

    def dest_write(self, vm, st, ins, dest, value):
        pi = info_of(vm)
        if dest == pi.ap:
            old = cur(vm, st, pi.ap)
            if not isc(value) or not isc(old):
                raise Unspecified('ap is symbolic (monitor needs concretize_dests)')
            ext = st.m['ext']
            if value > old:
                if value > pi.stack_end:
                    raise Violation('ap advanced past the end of the stack', ap=value)
                st.m['ext'] = ext + ((old, value),)
            elif value < old:
                keep = tuple(e for e in ext if e[0] < value)
                if keep and keep[-1][1] > value:
                    raise Violation('ap restored into the middle of a live array', ap=value, extent=keep[-1])
                if value < pi.stack_start:
                    raise Violation('ap moved below the stack', ap=value)
                st.m['ext'] = keep
        elif dest in (pi.fp,):
            if isc(value) and not (pi.stack_start <= value <= pi.stack_end):
                raise Violation('fp outside the stack', fp=value)

    def access(self, vm, st, ins, kind, addr, n):
        pi = info_of(vm)
        st.m['nacc'] += 1
        op = ins.op
        if len(op) == 4:
            base = ins.args[1] if kind == 'load' else ins.args[0]
        else:
            base = ins.args[1] if kind == 'load' else ins.args[0]
        ap, fp = cur(vm, st, pi.ap), cur(vm, st, pi.fp)
        if not isc(ap) or not isc(fp):
            raise Unspecified('ap/fp symbolic in access monitor')
        frame = base.kind == 'state' and base.val == pi.fp
        if frame:
            if not (ap <= addr and addr + n <= fp):
                raise Violation('frame %s outside [ap, fp)' % kind, addr=addr, n=n, ap=ap, fp=fp)
            return
        if base.kind == 'imm' and len(op) == 4:
            # element access at an offset from a labelled object: the label must name a global data object of the state section and the
            # access must stay inside that object (a const-section address used on the state section lands in the registers or the stack)
            for s, e, _ in pi.globals:
                if s <= base.val < e or (s == e == base.val):
                    if s <= addr and addr + n <= e:
                        return
                    raise Violation('element %s outside the global object it is based on' % kind, addr=addr, n=n, object=(s, e))
            raise Violation('element %s based on an address that is not a global object of the state section' % kind, addr=addr, n=n, base=base.val)
        if base.kind == 'imm':
            # direct access to a labelled object (global scalar / register): must be a global data object or a register word
            if pi.in_global(addr, n):
                return
            if 0 <= addr and addr + n <= pi.stack_start:
                return      # the register file (ap, fp, r0..): `lbs [d], r2` reads the low byte of a register (int -> byte narrowing)
            raise Violation('direct %s outside any global object' % kind, addr=addr, n=n)
        # access through a computed origin: inside one live stack array, or one global object
        for s, e in st.m['ext']:
            if s <= addr and addr + n <= e:
                return
        if pi.in_global(addr, n):
            return
        if st.pc >= pi.stdlib_start and ap <= addr and addr + n <= fp:
            return      # library routines use the free frame area below their frame (write_int's digit buffer)
        raise Violation('element %s outside every live array and global' % kind, addr=addr, n=n, ap=ap, fp=fp,
                        extents=list(st.m['ext'])[-4:])

    def wide(self, vm, st, ins, kind, addr, n, conds):
        """a state access whose address has too many feasible values to enumerate: is some value outside every region the
        access is entitled to?  (decided by the solver; a model is a concrete out-of-region access)"""
        import z3
        pi = info_of(vm)
        ap, fp = cur(vm, st, pi.ap), cur(vm, st, pi.fp)
        if not isc(ap) or not isc(fp):
            return
        base = ins.args[1] if kind == 'load' else ins.args[0]
        B = vm.B
        a = addr

        def inside(lo, hi):
            return z3.And(z3.UGE(a, z3.BitVecVal(lo, B)), z3.ULE(a, z3.BitVecVal(hi - n, B))) if hi - n >= lo else z3.BoolVal(False)
        if base.kind == 'state' and base.val == pi.fp:
            allowed = [inside(ap, fp)]
        else:
            allowed = [inside(s, e) for s, e in st.m['ext']] + [inside(s, e) for s, e, _ in pi.globals]
            if st.pc >= pi.stdlib_start:
                allowed.append(inside(ap, fp))
        bad = z3.Not(z3.Or(*allowed)) if allowed else z3.BoolVal(True)
        if vm.feasible(conds, bad):
            m = vm.model(list(conds) + [bad])
            raise Violation('%s through an unchecked index: the address can fall outside every live array and global' % kind,
                            example_address=m.eval(a, True).as_long() if m is not None else None, ap=ap, fp=fp, _conds=[bad])

    def jump(self, vm, st, ins, tgt, operand):
        if operand.kind != 'imm':
            pi = info_of(vm)
            if tgt not in pi.label_at:
                raise Violation('computed jump to an address that is not a label', target=tgt)


class ScopeMonitor(Monitor):
    """C08: (fp, ap) at loop heads / loop exits / call returns / stop-handler entry / function return"""

    def init(self, vm):
        pi = info_of(vm)
        if not hasattr(pi, 'scope_labels'):
            pi.scope_labels = {}
            for a, ns in pi.code_labels.items():
                for n in ns:
                    m = re.match(r'(loop|break|continue)_(\d+)$', n)
                    if m:
                        pi.scope_labels.setdefault(a, []).append((m.group(1), int(m.group(2))))
        return {'loops': (), 'calls': (), 'funcs': (), 'try': None, 'pending_stop': None, 'nchk': 0}

    def _fpap(self, vm, st):
        pi = info_of(vm)
        fp, ap = cur(vm, st, pi.fp), cur(vm, st, pi.ap)
        if not isc(fp) or not isc(ap):
            raise Unspecified('ap/fp symbolic in scope monitor')
        return fp, ap

    def step(self, vm, st, pc, ins, conds):
        pi = info_of(vm)
        if pc in pi.func_starts and pc < pi.stdlib_start:
            fp, ap = self._fpap(vm, st)
            st.m['funcs'] = st.m['funcs'] + ((pc, fp, ap),)
        labs = pi.scope_labels.get(pc)
        if not labs:
            return
        fp, ap = self._fpap(vm, st)
        for kind, k in labs:
            loops = dict(((kk, f), a) for kk, f, a in st.m['loops'])
            if kind == 'loop':
                if st.prev_pc == pc - 1 or (k, fp) not in loops:
                    loops[(k, fp)] = ap
                    st.m['loops'] = tuple((kk, f, a) for (kk, f), a in loops.items())
                else:
                    st.m['nchk'] += 1
                    if loops[(k, fp)] != ap:
                        raise Violation('ap at loop head differs from ap at loop entry (footprint depends on iterations)',
                                        loop=k, ap=ap, entry_ap=loops[(k, fp)])
            else:
                if (k, fp) in loops:
                    st.m['nchk'] += 1
                    if loops[(k, fp)] != ap:
                        raise Violation('ap at %s_%d differs from ap at loop entry' % (kind, k), ap=ap, entry_ap=loops[(k, fp)])

    def dest_write(self, vm, st, ins, dest, value):
        pi = info_of(vm)
        if dest == pi.fp and ins.op == 'add' and ins.args[1].kind == 'state' and ins.args[1].val == pi.fp and ins.args[2].kind == 'imm':
            off = vm.T.signed(ins.args[2].val)
            fp, ap = self._fpap(vm, st)
            if off <= 0 and st.pc < pi.stdlib_start and not self._is_end_call(vm, st):
                st.m['calls'] = st.m['calls'] + ((fp, ap),)
            else:
                if not st.m['calls']:
                    return
                rfp, rap = st.m['calls'][-1]
                st.m['calls'] = st.m['calls'][:-1]
                st.m['nchk'] += 1
                if value != rfp or ap != rap:
                    raise Violation('(fp, ap) after a call differ from their values before it', fp=value, ap=ap, before=(rfp, rap))
        elif pi.try_fp is not None and dest == pi.try_fp:
            fp, ap = self._fpap(vm, st)
            st.m['try'] = (fp, ap, len(st.m['calls']), len(st.m['funcs']))
        elif dest == pi.fp and ins.op == 'mov' and ins.args[1].kind == 'state' and ins.args[1].val == pi.try_fp:
            t = st.m['try']
            if t is not None:
                st.m['calls'] = st.m['calls'][:t[2]]
                st.m['funcs'] = st.m['funcs'][:t[3]]
                st.m['pending_stop'] = t
                if value != t[0]:
                    raise Violation('stop handler restores fp to a value other than fp at try entry', fp=value, entry_fp=t[0])
        elif dest == pi.ap and st.m['pending_stop'] is not None:
            t = st.m['pending_stop']
            st.m['pending_stop'] = None
            st.m['nchk'] += 1
            if value != t[1]:
                raise Violation('stop handler restores ap to a value other than ap at try entry', ap=value, entry_ap=t[1])

    def _is_end_call(self, vm, st):
        pi = info_of(vm)
        return any(n.startswith('end_call_') for n in pi.label_at.get(st.pc, ()))

    def jump(self, vm, st, ins, tgt, operand):
        pi = info_of(vm)
        if operand.kind != 'state' or operand.val == pi.defeat or st.pc >= pi.stdlib_start:
            return
        # a return: ap must be what it was at function entry
        if not st.m['funcs']:
            return
        f, ffp, fap = st.m['funcs'][-1]
        fp, ap = self._fpap(vm, st)
        if pi.func_of[st.pc] == f and fp == ffp:
            st.m['nchk'] += 1
            st.m['funcs'] = st.m['funcs'][:-1]
            if ap != fap:
                raise Violation('ap at function return differs from ap at function entry', ap=ap, entry_ap=fap)


class FalloffMonitor(Monitor):
    """C16: the pc never moves from one function's extent into the next without a taken jump, and every return (a jump
    through a register) goes to the instruction after the call that created the activation"""

    def init(self, vm):
        pi = info_of(vm)
        aw = pi.P.labels.get('all_is_win')
        return {'ret': ((pi.stack_end, aw[1]),) if aw else (), 'nret': 0}

    def step(self, vm, st, pc, ins, conds):
        pp = st.prev_pc
        if pp is not None and pc == pp + 1:
            fo = info_of(vm).func_of
            if fo[pc] != fo[pp]:
                raise Violation('control fell off the end of a function into the next one', frm=pp, to=pc,
                                to_labels=info_of(vm).label_at.get(pc))

    def jump(self, vm, st, ins, tgt, operand):
        pi = info_of(vm)
        fp = cur(vm, st, pi.fp)
        if not isc(fp):
            return
        code = vm.P.code
        if operand.kind == 'imm':
            # a call: an unconditional jump (j f / halt) to the first instruction of a function or library routine;
            # the activation is identified by the callee frame pointer, which the call sequence has already set
            if tgt in pi.func_starts and st.pc + 1 < len(code) and code[st.pc + 1].op == 'halt':
                st.m['ret'] = tuple((f, r) for f, r in st.m['ret'] if f != fp) + ((fp, st.pc + 2),)
            return
        if operand.kind != 'state' or operand.val == pi.defeat:
            return
        # a return
        exp = dict(st.m['ret']).get(fp)
        if exp is None:
            return
        st.m['nret'] += 1
        if tgt != exp:
            raise Violation('a return does not go back to its caller', target=tgt, target_labels=pi.label_at.get(tgt), expected=exp,
                            expected_labels=pi.label_at.get(exp), fp=fp)
