"""RX engine (DESIGN §2.3): the lexer's own compiled patterns, parsed with CPython's re._parser and translated to z3
regular-expression terms (ASCII reading of \\d \\w \\s), so that z3's sequence theory can decide language-level
obligations for strings of unbounded length."""
import re._parser as sp
from re._constants import (LITERAL, NOT_LITERAL, ANY, IN, NEGATE, RANGE, CATEGORY, MAX_REPEAT, MIN_REPEAT, MAXREPEAT, SUBPATTERN, BRANCH,
                           CATEGORY_DIGIT, CATEGORY_SPACE, CATEGORY_WORD)
import z3

ALLC = z3.AllChar(z3.ReSort(z3.StringSort()))
D = z3.Range('0', '9')
AL = z3.Union(z3.Range('a', 'z'), z3.Range('A', 'Z'), z3.Re('_'))
H = z3.Union(D, z3.Range('a', 'f'), z3.Range('A', 'F'))
WS = z3.Union(*[z3.Re(c) for c in ' \t\n\r\x0b\x0c'])


def neg(r):
    return z3.Intersect(ALLC, z3.Complement(r))


def cls_ascii(cat):
    if cat == CATEGORY_DIGIT:
        return D
    if cat == CATEGORY_SPACE:
        return WS
    if cat == CATEGORY_WORD:
        return z3.Union(D, AL)
    raise NotImplementedError(cat)


def tr(items):
    parts = []
    for op, av in items:
        if op == LITERAL:
            parts.append(z3.Re(chr(av)))
        elif op == NOT_LITERAL:
            parts.append(neg(z3.Re(chr(av))))
        elif op is ANY:
            parts.append(neg(z3.Re('\n')))
        elif op == IN:
            n = False
            alts = []
            for o, a in av:
                if o == NEGATE:
                    n = True
                elif o == LITERAL:
                    alts.append(z3.Re(chr(a)))
                elif o == RANGE:
                    alts.append(z3.Range(chr(a[0]), chr(a[1])))
                elif o == CATEGORY:
                    alts.append(cls_ascii(a))
                else:
                    raise NotImplementedError(o)
            u = alts[0] if len(alts) == 1 else z3.Union(*alts)
            parts.append(neg(u) if n else u)
        elif op in (MAX_REPEAT, MIN_REPEAT):
            lo, hi, sub = av
            r = tr(sub)
            if hi == MAXREPEAT:
                parts.append(z3.Star(r) if lo == 0 else z3.Plus(r) if lo == 1 else z3.Concat(*([r] * lo + [z3.Star(r)])))
            elif lo == hi:
                parts.append(r if lo == 1 else z3.Concat(*([r] * lo)))
            else:
                parts.append(z3.Loop(r, lo, hi))
        elif op == SUBPATTERN:
            parts.append(tr(av[3]))
        elif op == BRANCH:
            parts.append(z3.Union(*[tr(b) for b in av[1]]))
        else:
            raise NotImplementedError(op)
    if not parts:
        return z3.Re('')
    return parts[0] if len(parts) == 1 else z3.Concat(*parts)


def pat(p):
    """compiled re.Pattern -> z3 regular expression"""
    return tr(list(sp.parse(p.pattern)))


def lit(prefix, dig):
    body = z3.Concat(dig, z3.Star(z3.Concat(z3.Option(z3.Re('_')), dig)))
    return z3.Concat(z3.Re(prefix), body) if prefix else body


def spec_grammars():
    """the documented lexical grammar, written independently of the implementation's patterns"""
    return {
        'dec_literal': lit('', D),
        'hex_literal': lit('0x', H),
        'oct_literal': lit('0o', z3.Range('0', '7')),
        'bin_literal': lit('0b', z3.Range('0', '1')),
        'ident_pattern': z3.Concat(AL, z3.Star(z3.Union(AL, D))),
        'string_text': z3.Plus(neg(z3.Union(z3.Re('\\'), z3.Re('"')))),
        'byte_escape': z3.Concat(z3.Re('\\x'), H, H),
        'unicode_escape': z3.Concat(z3.Re('\\u{'), z3.Plus(H), z3.Re('}')),
        'ignore': z3.Union(z3.Concat(z3.Star(WS), z3.Re('//'), z3.Star(neg(z3.Re('\n')))), z3.Plus(WS)),
    }
