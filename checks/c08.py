"""C08 — every scope exit releases exactly what the scope allocated: (fp, ap) monitors on the symbolic VM
at loop heads / exits, call returns, stop-handler entry and function return (T-scope and the other
families); 'never released early' is decided as VM vs reference-interpreter equivalence on the T-scope programs
(an array released too soon is overwritten by the next allocation) and by the tight-stack differential of C04."""
import os
import sys
import time

sys.path.insert(0, os.path.dirname(os.path.dirname(os.path.abspath(__file__))))
from hv.report import Report
from hv import families as F
from hv.famcheck import run_tasks
from hv.vmri import case_to_task, task_to_case

PID = 'C08'


def scope_task(task):
    from hv import hidc as H
    from hv.harness import build, Stats, Decider, model_argv, argv_for_compiled, jsonable_argv, conc_events
    from hv.monitors import ScopeMonitor
    from hv.terms import Inconclusive, fmt_events
    case = task_to_case(task)
    res = dict(name=case.name, violations=[], inconclusive=[], harness_errors=[], status='ok')
    try:
        compiled = H.compile_src(case.src, case.word, case.stack, case.unchecked)
    except H.CompilerError as e:
        res['status'] = 'rejected'
        if not task.get('allow_reject'):
            res['harness_errors'].append('template %s does not compile: %s' % (case.name, e))
        return res
    b = build(case, compiled=compiled, monitor=ScopeMonitor(), max_steps=task.get('max_steps', 8000), concretize_ap=True, addr_cap=100,
              deadline=time.time() + 120)
    paths = b.vm.run()
    st = Stats()
    st.add_vm(b.vm, paths)
    dec = Decider(case.word)
    res['npaths'] = len(paths)
    res['path_kinds'] = sorted({p.kind for p in paths})
    res['witness'] = fmt_events(paths[0].events, 8) if paths else ''
    nchk = 0
    for p in paths:
        if p.m:
            nchk += p.m.get('nchk', 0)
        if p.kind in ('bound', 'unknown'):
            res['inconclusive'].append('%s: path %s (%s)' % (case.name, p.kind, p.info))
            continue
        if p.kind == 'unspecified' and 'more than' in str(p.info):
            if case.unchecked:
                # an access through an index the program never constrained: without run-time checks that is undefined behaviour
                # (README), outside the property; counted, not claimed
                res['excluded_undefined'] = res.get('excluded_undefined', 0) + 1
                continue
            res['inconclusive'].append('%s: %s' % (case.name, p.info))
            continue
        if p.kind != 'violation':
            continue
        st.obligations += 1
        try:
            m = dec.check(p.conds)
        except Inconclusive as e:
            res['inconclusive'].append('%s: %s' % (case.name, e))
            continue
        if m is None:
            st.discharged += 1
            continue
        argv = argv_for_compiled(compiled, model_argv(b.vm, m), case.word)
        bc = build(case, argv=argv, compiled=compiled, monitor=ScopeMonitor(), max_steps=100000, concretize_ap=True)
        r = bc.vm.run()
        if len(r) == 1 and r[0].kind == 'violation':
            res['violations'].append(dict(what='scope exit does not restore the stack: %s' % r[0].info.get('what'), case=case.name, detail={k: str(v) for k, v in r[0].info.items()},
                                          replay=dict(type='vm-monitor', monitor='hv.monitors.ScopeMonitor', src=case.src, word=case.word, stack=case.stack,
                                                      unchecked=case.unchecked, argv=jsonable_argv(argv))))
        else:
            res['harness_errors'].append('%s: scope violation did not replay: %s' % (case.name, p.info))
    st.obligations += nchk
    st.discharged += nchk
    st.syntactic += nchk
    res['monitor_checks'] = nchk
    st.queries += dec.nq
    st.solver_s += dec.tq
    res['stats'] = st.as_dict()
    return res


def main():
    rep = Report(PID, 'model_checking', 'symbolic execution of the emitted assembly (z3) with (fp, ap) equality monitors at scope boundaries')
    quick = rep.tier == 'quick'
    cases = (F.scope_templates() + F.alloc_templates() + F.time_enumerated(rep.tier)[::3 if quick else 1] + F.seq_enumerated()[::2 if quick else 1]
             + F.seq_random(rep.seed, 60 if quick else 600) + F.time_random(rep.seed, 40 if quick else 400) + F.time_examples())
    tasks = []
    widths = [2] if quick else [2, 3, 4]
    for W in widths:
        for i, c in enumerate(cases):
            if 'alloc/vla' in c.name and ('vla-int' in c.name or 'vla-byte' in c.name or 'vla-bool' in c.name or 'vla-string' in c.name or 'two' in c.name or 'in-loop' in c.name or 'in-try' in c.name or 'after-lit' in c.name or 'vla-store' in c.name):
                stack = 24      # unconstrained symbolic lengths: keep the number of feasible sizes small
            else:
                stack = 200 if 'mergesort' in c.name else 96
            tasks.append(case_to_task(c.with_(word=W, stack=stack), allow_reject='random' in c.name))
            if (not quick or i % 4 == 0) and 'alloc/vla' not in c.name and 'random' not in c.name:
                tasks.append(case_to_task(c.with_(word=W, stack=stack, unchecked=True, name=c.name + '/unchecked'), allow_reject='random' in c.name))
    tot = [0]

    def on_result(r):
        tot[0] += r.get('monitor_checks', 0)
        rep.cov['unchecked_paths_with_unconstrained_index_excluded'] = rep.cov.get('unchecked_paths_with_unconstrained_index_excluded', 0) + r.get('excluded_undefined', 0)
    run_tasks(rep, tasks, worker=scope_task, on_result=on_result)
    # "arrays that are still in scope are never released early": an early release is invisible to the (fp, ap) equalities at
    # scope boundaries, but the next allocation then overwrites the live array -- decided as VM vs reference interpreter
    # equivalence on the scope templates (all inputs symbolic)
    from hv.vmri import check_case
    etasks = [case_to_task(c.with_(word=W, stack=96)) for W in widths for c in F.scope_templates()]
    run_tasks(rep, etasks, worker=check_case, limit=600, sample_every=9)
    rep.cov['early_release_equivalence_programs'] = len(etasks)
    rep.cov['monitor_equalities_checked'] = tot[0]
    rep.cov['states'] = rep.counts['instructions']
    rep.cov['transitions'] = rep.counts['instructions']
    rep.cov['traces_validated_against_impl'] = rep.counts['paths']
    rep.rule = ('T-scope: arrays (literal, VLA, byte, bool, two at once, aliased) x nested blocks x exit route (fall-through, break, continue, return, stop, undo) x '
                'symbolic trip counts x two calls in a row; plus allocation-site, sequential, time-travel and random families; distinct = template x word x build')
    rep.functions_encoded = ['emitted code of CodeGen.pop / reset_ap / gen_block cleanup / return, break, continue lowering / eval_func_call fp rebasing / stop handler prologue']
    rep.bounds = dict(word_sizes=widths, instructions_per_path=8000, trip_counts='<= 4', outside='the unchecked build with lengths that overflow the stack (undefined)')
    rep.assumptions = ['Sphinx machine model (DESIGN section 3)', 'label vocabulary of generator.py (loop_N, break_N, continue_N, end_call_N) identifies scope boundaries',
                       'unchecked builds: paths with more than 100 feasible array sizes are inconclusive, not passes']
    return rep.finish()


if __name__ == '__main__':
    sys.exit(main())
