"""C14 — compile-time evaluation is invisible.

(1) CrossHair on the folder itself (ch/c14_fold.py): operands are symbolic Python integers.
(2) SVM twin programs: the same expression with literals / const variables and with run-time variables.
    Partially constant forms (x OP c, c OP x, (x OP c1) OP c2, (c1 OP c2) OP x, casts of x) are decided by the solver for
    every x: the variable program's paths, with the literal substituted, must equal the constant program's paths.
    Fully constant forms are compared on a boundary grid, and a constant expression must be rejected at compile time
    exactly when its run-time twin faults.
Known finding (known_findings.json, fold-int-no-wrap): folding never wraps at the word size; constant expressions with an
operand or folded intermediate outside the signed word range are excluded from the obligations and demonstrated separately.
"""
import itertools
import os
import sys

sys.path.insert(0, os.path.dirname(os.path.dirname(os.path.abspath(__file__))))
from hv.report import Report
from hv.famcheck import run_tasks

PID = 'C14'
OPS = ['+', '-', '*', '/', '%', '==', '!=', '<', '<=', '>', '>=']


def grid(W):
    smax = (1 << (8 * W - 1)) - 1
    return [0, 1, -1, 2, 3, 10, 127, 128, 255, 256, -128, -256, 1000, smax, -smax, smax - 1, -smax - 1]


def lit(v, W):
    smax = (1 << (8 * W - 1)) - 1
    if v == -smax - 1:
        return '(-%d - 1)' % smax
    return '(%d)' % v if v < 0 else str(v)


def exact(op, a, b):
    if op in ('/', '%') and b == 0:
        return None
    return {'+': lambda: a + b, '-': lambda: a - b, '*': lambda: a * b, '/': lambda: a // b, '%': lambda: a % b,
            '==': lambda: int(a == b), '!=': lambda: int(a != b), '<': lambda: int(a < b), '<=': lambda: int(a <= b),
            '>': lambda: int(a > b), '>=': lambda: int(a >= b)}[op]()


def in_range(v, W):
    return v is not None and -(1 << (8 * W - 1)) <= v < (1 << (8 * W - 1))


def obs(expr, is_bool):
    return 'sleep((%s) is int);' % expr if is_bool else 'sleep(%s);' % expr


def twin_task(task):
    """constant program vs variable program, variable inputs bound to the constants by substitution"""
    import z3
    from hv import hidc as H
    from hv.harness import Case, build, Stats, Decider, model_argv, argv_for_compiled, jsonable_argv, conc_events, run_concrete_case
    from hv.equiv import compare
    from hv.terms import Inconclusive, fmt_events
    W = task['W']
    res = dict(name=task['name'], violations=[], inconclusive=[], harness_errors=[], known=[], status='ok')
    st = Stats()
    csrc, vsrc, bind = task['csrc'], task['vsrc'], task['bind']
    # variable program, all inputs symbolic
    vcase = Case(vsrc, word=W, stack=64, name=task['name'] + '/var')
    try:
        bv = build(vcase, max_steps=4000)
    except H.CompilerError as e:
        res['harness_errors'].append('%s: variable form does not compile: %s' % (task['name'], e))
        return res
    vpaths = bv.vm.run()
    st.add_vm(bv.vm, vpaths)
    # bind the named inputs to their literal values
    subs = []
    for name, val in bind.items():
        sym = bv.vm.inputs[name][0]
        subs.append((sym, z3.BitVecVal(val, sym.size())))

    def sub(t):
        if isinstance(t, (bool, int)) or t is None:
            return t
        return z3.simplify(z3.substitute(t, *subs))
    vcases = []
    for p in vpaths:
        if p.kind in ('bound', 'unknown'):
            res['inconclusive'].append('%s: variable path %s' % (task['name'], p.kind))
            continue
        conds = [sub(c) for c in p.conds]
        if any(z3.is_false(c) for c in conds):
            continue
        conds = [c for c in conds if not z3.is_true(c)]
        ev = tuple((e[0], sub(e[1]) if e[0] != 'flag' else e[1]) for e in p.events)
        ev = tuple((k, (v.as_long() if (k != 'flag' and z3.is_bv_value(v)) else v)) for k, v in ev)
        vcases.append((conds, ev, p.kind))
    faulting = any(any(e == ('flag', 'division_by_zero') for e in c[1]) for c in vcases) and all(
        any(e == ('flag', 'division_by_zero') for e in c[1]) for c in vcases)
    # constant program
    ccase = Case(csrc, word=W, stack=64, name=task['name'] + '/const')
    try:
        bc = build(ccase, max_steps=4000)
    except H.CompilerError as e:
        # rejected at compile time: allowed only if the run-time twin faults for every remaining input
        st.obligations += 1
        msg = str(e)
        if faulting and ('zero' in msg.lower()):
            st.discharged += 1
            res['rejected_ok'] = 1
        else:
            res['violations'].append(dict(what='constant expression rejected at compile time (%s) although its run-time twin does not fault' % msg, case=task['name'],
                                          replay=dict(type='compile', src=csrc, word=W, twin=vsrc)))
        res['stats'] = st.as_dict()
        return res
    cpaths = bc.vm.run()
    st.add_vm(bc.vm, cpaths)
    dec = Decider(W)
    mism, inconc = compare(dec, bc, cpaths, vcases, st)
    res['inconclusive'] += inconc
    st.queries += dec.nq
    st.solver_s += dec.tq
    for m in mism:
        argv = argv_for_compiled(bc.compiled, m['argv'], W)
        pc = run_concrete_case(ccase, argv)
        vargv = dict(argv)
        vfull = {}
        from hv.harness import entry_params
        for p in entry_params(bv.compiled):
            n = p.var.name
            vfull[n] = bind[n] if n in bind else argv[n]
        pv = run_concrete_case(vcase, vfull)
        if (pc.kind, conc_events(pc.events)) == (pv.kind, conc_events(pv.events)):
            res['harness_errors'].append('%s: twin difference did not replay (argv %s)' % (task['name'], argv))
            continue
        v = dict(what='a constant expression behaves differently from its run-time twin', case=task['name'], twin_source=vsrc, twin_inputs=vfull,
                 replay=dict(type='vm-events', src=csrc, word=W, stack=64, unchecked=False, argv=jsonable_argv(argv),
                             expected=[conc_events(pv.events)], expected_kind=pv.kind, observed=dict(kind=pc.kind, events=conc_events(pc.events))))
        if task.get('out_of_range'):
            v['finding_key'] = 'fold-int-no-wrap'
        res['violations'].append(v)
    res['stats'] = st.as_dict()
    res['npaths'] = len(cpaths)
    res['path_kinds'] = sorted({p.kind for p in cpaths})
    res['witness'] = fmt_events(cpaths[0].events, 5) if cpaths else ''
    return res


def make_tasks(W, quick, rng):
    G = grid(W)
    tasks = []
    is_b = lambda op: op in ('==', '!=', '<', '<=', '>', '>=')
    # x OP c   and   c OP x  (one literal, decided for every x)
    for op in OPS:
        for c in (G if not quick else G[::2] + [0]):
            L = lit(c, W)
            tasks.append(dict(name='twin/x%sc/%s/%d/w%d' % (op, op, c, W), W=W, bind={'y': c & ((1 << (8 * W)) - 1)},
                              csrc='empty @is_you(int x) { %s }\n' % obs('x %s %s' % (op, L), is_b(op)),
                              vsrc='empty @is_you(int x, int y) { %s }\n' % obs('x %s y' % op, is_b(op))))
            tasks.append(dict(name='twin/c%sx/%s/%d/w%d' % (op, op, c, W), W=W, bind={'y': c & ((1 << (8 * W)) - 1)},
                              csrc='empty @is_you(int x) { %s }\n' % obs('%s %s x' % (L, op), is_b(op)),
                              vsrc='empty @is_you(int x, int y) { %s }\n' % obs('y %s x' % op, is_b(op))))
    # one literal outside the signed word range with a NON-constant other operand: nothing is folded, the literal reaches the assembler,
    # which wraps it -- the same value the run-time twin holds (not the known finding, which is about folding)
    for op in OPS:
        for c in ((1 << (8 * W - 1)), (1 << (8 * W - 1)) + 1, (1 << (8 * W)) - 1, (1 << (8 * W)) + 5, -(1 << (8 * W - 1)) - 1):
            L = '%d' % c if c >= 0 else '(%d)' % c
            tasks.append(dict(name='twin/x%sbig/%s/%d/w%d' % (op, op, c, W), W=W, bind={'y': c & ((1 << (8 * W)) - 1)},
                              csrc='empty @is_you(int x) { %s %s }\n' % (obs('x %s %s' % (op, L), is_b(op)), obs('%s %s x' % (L, op), is_b(op))),
                              vsrc='empty @is_you(int x, int y) { %s %s }\n' % (obs('x %s y' % op, is_b(op)), obs('y %s x' % op, is_b(op)))))
    # a byte operand against a literal: the literal may be narrowed to byte only if that cannot change the result
    for op in OPS:
        for c in [0, 1, 2, 127, 128, 253, 254, 255, 256, 257, -1, -2, -255, -256]:
            if quick and c in (2, 253, 257, -2) and op not in ('<', '<=', '>', '>='):
                continue
            L = lit(c, W)
            tasks.append(dict(name='twin/byte-b%sc/%s/%d/w%d' % (op, op, c, W), W=W, bind={'y': c & ((1 << (8 * W)) - 1)},
                              csrc='empty @is_you(byte b) { byte e = b; %s %s }\n' % (obs('b %s %s' % (op, L), is_b(op)), obs('%s %s e' % (L, op), is_b(op))),
                              vsrc='empty @is_you(byte b, int y) { byte e = b; %s %s }\n' % (obs('b %s y' % op, is_b(op)), obs('y %s e' % op, is_b(op)))))
    # const variables and const globals instead of literals
    for op in OPS[:5]:
        for c in G[::3]:
            L = lit(c, W)
            tasks.append(dict(name='twin/constvar/%s/%d/w%d' % (op, c, W), W=W, bind={'y': c & ((1 << (8 * W)) - 1)},
                              csrc='const int K = %s;\nempty @is_you(int x) { const int k = %s; sleep(x %s k); sleep(K %s x); }\n' % (L, L, op, op),
                              vsrc='empty @is_you(int x, int y) { sleep(x %s y); sleep(y %s x); }\n' % (op, op)))
    # fully constant expressions (two literals) + chains with a folded inner part
    pairs = list(itertools.product(G, G))
    if quick:
        pairs = rng.sample(pairs, 70)
    for op in OPS:
        for a, b in pairs:
            e = exact(op, a, b)
            oor = not (in_range(a, W) and in_range(b, W) and (e is None or in_range(e, W)))
            if oor:
                continue
            tasks.append(dict(name='twin/cc/%s/%d/%d/w%d' % (op, a, b, W), W=W, bind={'p': a & ((1 << (8 * W)) - 1), 'q': b & ((1 << (8 * W)) - 1)},
                              csrc='empty @is_you(int x) { %s sleep(x); }\n' % obs('%s %s %s' % (lit(a, W), op, lit(b, W)), is_b(op)),
                              vsrc='empty @is_you(int x, int p, int q) { %s sleep(x); }\n' % obs('p %s q' % op, is_b(op))))
    trip = [(a, b, c) for a in G[::3] for b in G[::4] for c in G[::5]]
    for op1, op2 in itertools.product(OPS[:5], OPS[:5] + ['<']):
        for a, b, c in (trip if not quick else rng.sample(trip, 4)):
            e1 = exact(op1, a, b)
            if e1 is None or not in_range(e1, W):
                continue
            tasks.append(dict(name='twin/chain/%s%s/%d/%d/%d/w%d' % (op1, op2, a, b, c, W), W=W, bind={'p': a & ((1 << (8 * W)) - 1), 'q': b & ((1 << (8 * W)) - 1)},
                              csrc='empty @is_you(int x) { %s }\n' % obs('(%s %s %s) %s x' % (lit(a, W), op1, lit(b, W), op2), is_b(op2)),
                              vsrc='empty @is_you(int x, int p, int q) { %s }\n' % obs('(p %s q) %s x' % (op1, op2), is_b(op2))))
    # casts of literals
    for c in G + [300, 511, -129]:
        if not in_range(c, W):
            continue
        L = lit(c, W)
        tasks.append(dict(name='twin/cast/%d/w%d' % (c, W), W=W, bind={'y': c & ((1 << (8 * W)) - 1)},
                          csrc="empty @is_you(int x) { write(%s is byte); sleep((%s is byte) is int); sleep((%s is bool) is int); sleep(x / ((%s is byte) + 1)); "
                               "if (%s is bool) { write('T'); } bool b = %s is bool; sleep(b is int); sleep((not b) is int); sleep(-%s); sleep((not (%s is bool)) is int); }\n" % ((L,) * 8),
                          vsrc="empty @is_you(int x, int y) { write(y is byte); sleep((y is byte) is int); sleep((y is bool) is int); sleep(x / ((y is byte) + 1)); "
                               "if (y is bool) { write('T'); } bool b = y is bool; sleep(b is int); sleep((not b) is int); sleep(-y); sleep((not (y is bool)) is int); }\n"))
    # speculation with a constant operand: b is always evaluated (its effects stay), the value is a's or b's
    SPRE = 'int g = 0;\nint ord(int a) { g += 1; return a + g; }\nbool flip(int a) { g += 10; return a > 0; }\n'
    for c in [0, 1, 2, 5, -1, 7]:
        L = lit(c, W)
        tasks.append(dict(name='twin/spec-const-left/%d/w%d' % (c, W), W=W, bind={'y': c & ((1 << (8 * W)) - 1)},
                          csrc=SPRE + 'empty @is_you(int x) { sleep(%s ?? ord(x)); sleep(g); sleep(ord(x) ?? %s); sleep(g); }\n' % (L, L),
                          vsrc=SPRE + 'empty @is_you(int x, int y) { sleep(y ?? ord(x)); sleep(g); sleep(ord(x) ?? y); sleep(g); }\n'))
        tasks.append(dict(name='twin/spec-const-global/%d/w%d' % (c, W), W=W, bind={'y': c & ((1 << (8 * W)) - 1)},
                          csrc=SPRE + 'const int K = %s;\nempty @is_you(int x) { sleep(K ?? ord(x)); sleep(g); sleep((K + 1) ?? ord(x)); sleep(g); }\n' % L,
                          vsrc=SPRE + 'empty @is_you(int x, int y) { sleep(y ?? ord(x)); sleep(g); sleep((y + 1) ?? ord(x)); sleep(g); }\n'))
        # the side-effecting call sits below an operator / cast in the left operand, the guess is the constant
        tasks.append(dict(name='twin/spec-const-right-nested/%d/w%d' % (c, W), W=W, bind={'y': c & ((1 << (8 * W)) - 1)},
                          csrc=SPRE + 'empty @is_you(int x) { sleep((ord(x) + 0) ?? %s); sleep(g); sleep(-ord(x) ?? %s); sleep(g); sleep((flip(x) is int) ?? %s); sleep(g); sleep((ord(x) * 2 - ord(x)) ?? %s); sleep(g); }\n' % (L, L, L, L),
                          vsrc=SPRE + 'empty @is_you(int x, int y) { sleep((ord(x) + 0) ?? y); sleep(g); sleep(-ord(x) ?? y); sleep(g); sleep((flip(x) is int) ?? y); sleep(g); sleep((ord(x) * 2 - ord(x)) ?? y); sleep(g); }\n'))
    for a in ('true', 'false'):
        tasks.append(dict(name='twin/spec-bool/%s/w%d' % (a, W), W=W, bind={'y': int(a == 'true')},
                          csrc=SPRE + 'empty @is_you(int x) { bool b = %s ?? flip(x); sleep(b is int); sleep(g); bool c = flip(x) ?? %s; sleep(c is int); sleep(g); }\n' % (a, a),
                          vsrc=SPRE + 'empty @is_you(int x, int y) { bool t = y is bool; bool b = t ?? flip(x); sleep(b is int); sleep(g); bool c = flip(x) ?? t; sleep(c is int); sleep(g); }\n'))
    # a constant condition that is false: the loop runs zero times and what follows it is reachable
    for cexpr in ('false', 'DBG', '1 > 2', 'not true', '(0 is bool)'):
        tasks.append(dict(name='twin/loop-const-false/%s/w%d' % (cexpr.replace(' ', ''), W), W=W, bind={'y': 0},
                          csrc='const bool DBG = false;\nempty nop() { while (%s) { write(\'n\'); } }\nempty @is_you(int x) { while (%s) { write(\'d\'); } write(\'a\'); for (int i = 0; %s; i += 1) { write(\'x\'); } write(\'b\'); nop(); write(\'c\'); if (%s) { write(\'i\'); } else { write(\'e\'); } sleep(x); }\n' % ((cexpr,) * 4),
                          vsrc='bool t = false;\nempty nop() { while (t) { write(\'n\'); } }\nempty @is_you(int x, int y) { t = y is bool; while (t) { write(\'d\'); } write(\'a\'); for (int i = 0; t; i += 1) { write(\'x\'); } write(\'b\'); nop(); write(\'c\'); if (t) { write(\'i\'); } else { write(\'e\'); } sleep(x); }\n'))
    # logical operators with a constant operand keep the other operand's effects and faults
    for op, a in itertools.product(('and', 'or'), ('true', 'false')):
        tasks.append(dict(name='twin/logic-effects/%s/%s/w%d' % (op, a, W), W=W, bind={'y': int(a == 'true')},
                          csrc=SPRE + 'empty @is_you(int x) { sleep((flip(x) %s %s) is int); sleep(g); sleep((%s %s flip(x)) is int); sleep(g); sleep(((10 / x == 1) %s %s) is int); }\n' % (op, a, a, op, op, a),
                          vsrc=SPRE + 'empty @is_you(int x, int y) { bool t = y is bool; sleep((flip(x) %s t) is int); sleep(g); sleep((t %s flip(x)) is int); sleep(g); sleep(((10 / x == 1) %s t) is int); }\n' % (op, op, op)))
    # a constant argument of !truth_is_defeat, directly in a try body and inside a defeat function, under real and virtualised defeat
    for a, forms in (('true', ('true', 'KT', '1 < 2', 'not false', '(1 is bool)')), ('false', ('false', 'KF', '2 < 1', 'not true', '(0 is bool)'))):
        for form, h in itertools.product(forms, ('undo', 'stop')):
            tasks.append(dict(name='twin/defeat-const/%s/%s/w%d' % (form.replace(' ', ''), h, W), W=W, bind={'y': int(a == 'true')},
                              csrc="const bool KT = true;\nconst bool KF = false;\nempty !cd() { write('d'); !truth_is_defeat(%s); write('e'); }\n"
                                   "empty @is_you(int x) { try { write('a'); if (x > 9) { !cd(); } write('b'); if (x < -9) { !truth_is_defeat(%s); } write('f'); } %s { write('c'); } "
                                   "try { write('A'); !cd(); write('B'); } %s { write('C'); } write('.'); }\n" % (form, form, h, 'undo' if h == 'stop' else 'stop'),
                              vsrc="bool t = false;\nempty !cd() { write('d'); !truth_is_defeat(t); write('e'); }\n"
                                   "empty @is_you(int x, int y) { t = y is bool; try { write('a'); if (x > 9) { !cd(); } write('b'); if (x < -9) { !truth_is_defeat(t); } write('f'); } %s { write('c'); } "
                                   "try { write('A'); !cd(); write('B'); } %s { write('C'); } write('.'); }\n" % (h, 'undo' if h == 'stop' else 'stop')))
    # array literals whose elements are constants, built over stack memory that an earlier (released) array left dirty
    DIRTY = "empty scribble() { byte[] junk = [255, 255, 255, 255, 255, 255]; int[] j2 = [-1, -1, -1]; bool[] j3 = [true, true, true, true, true, true, true, true, true]; }\n"
    for a in ('true', 'false'):
        cf = ', '.join([a] * 3)
        c9 = ', '.join([a] * 8)
        tasks.append(dict(name='twin/bool-literal-dirty/%s/w%d' % (a, W), W=W, bind={'y': int(a == 'true')},
                          csrc=DIRTY + "int use() { bool[] seen = [%s]; return (seen[0] is int) + (seen[1] is int) * 2 + (seen[2] is int) * 4; }\n"
                               "empty @is_you(int x) { scribble(); bool[] s = [%s]; sleep(s[0] is int); sleep(s[2] is int); scribble(); sleep(use()); scribble(); bool[] m = [%s, x > 0]; sleep(m[7] is int); sleep(m[8] is int); sleep(m[0] is int); }\n" % (cf, cf, c9),
                          vsrc=DIRTY + "bool f = false;\nint use() { bool[] seen = [f, f, f]; return (seen[0] is int) + (seen[1] is int) * 2 + (seen[2] is int) * 4; }\n"
                               "empty @is_you(int x, int y) { f = y is bool; scribble(); bool[] s = [f, f, f]; sleep(s[0] is int); sleep(s[2] is int); scribble(); sleep(use()); scribble(); bool[] m = [f, f, f, f, f, f, f, f, x > 0]; sleep(m[7] is int); sleep(m[8] is int); sleep(m[0] is int); }\n"))
    for c in (0, 1, 255):
        tasks.append(dict(name='twin/int-literal-dirty/%d/w%d' % (c, W), W=W, bind={'y': c},
                          csrc=DIRTY + "empty @is_you(int x) { scribble(); int[] s = [%d, %d, x]; sleep(s[0]); sleep(s[1]); scribble(); byte[] b = [%d, %d, %d]; sleep(b[0]); sleep(b[2]); }\n" % (c, c, c, c, c),
                          vsrc=DIRTY + "empty @is_you(int x, int y) { scribble(); int[] s = [y, y, x]; sleep(s[0]); sleep(s[1]); scribble(); byte q = y is byte; byte[] b = [q, q, q]; sleep(b[0]); sleep(b[2]); }\n"))
    # arithmetic over character constants (folded) vs the same arithmetic over byte variables, results outside the byte range, int consumers
    for a, b in (("'A'", "'a'"), ("'a'", "'z'"), ("'z'", "'\\x01'"), ("'\\xff'", "'\\xff'")):
        av, bvv = eval(a.replace('\\\\', '\\')), eval(b.replace('\\\\', '\\'))
        tasks.append(dict(name='twin/char-arith/%d-%d/w%d' % (ord(av), ord(bvv), W), W=W, bind={'p': ord(av), 'q': ord(bvv)},
                          csrc="const int KD = %s - %s;\nempty @is_you(int x) { sleep(%s - %s); sleep(%s * 3); sleep(-%s); sleep(x + (%s - %s)); sleep(KD); sleep(1000 + (%s - %s)); sleep((%s + %s) * 2); write((%s - %s) is byte); "
                               "if (%s - %s < 0) { write('n'); } else { write('p'); } }\n" % (a, b, a, b, a, a, a, b, a, b, a, b, a, b, a, b),
                          vsrc="empty @is_you(int x, byte p, byte q) { int kd = p - q; sleep(p - q); sleep(p * 3); sleep(-p); sleep(x + (p - q)); sleep(kd); sleep(1000 + (p - q)); sleep((p + q) * 2); write((p - q) is byte); "
                               "if (p - q < 0) { write('n'); } else { write('p'); } }\n"))
    # equal-looking constant tables of different element types, hoisted literals in both orders, against tables built from variables
    for first in ('bytes', 'bools'):
        d = ["const byte[] digits = [1, 0, 1];", "const bool[] flags = [true, false, true];"]
        dv = ["byte[] digits = [o, z, o];", "bool[] flags = [t, f, t];"]
        if first == 'bools':
            d.reverse()
            dv.reverse()
        tasks.append(dict(name='twin/table-types/%s/w%d' % (first, W), W=W, bind={'y': 1},
                          csrc="empty @is_you(int x) { int i = x %% 3; %s %s write(digits[i]); sleep(flags[i] is int); sleep([true, false, true][i] is int); write(([1, 0, 1] is byte[])[i]); sleep([1, 0, 1][i]); }\n" % tuple(d),
                          vsrc="empty @is_you(int x, int y) { int i = x %% 3; byte o = y is byte; byte z = 0; bool t = y is bool; bool f = false; %s %s write(digits[i]); sleep(flags[i] is int); sleep([t, f, t][i] is int); "
                               "write(([o, z, o] is byte[])[i]); sleep([y, 0, y][i]); }\n" % tuple(dv)))
    # boolean constants
    for op in ('and', 'or', '==', '!='):
        for a in ('true', 'false'):
            tasks.append(dict(name='twin/bool/%s/%s/w%d' % (op, a, W), W=W, bind={'y': int(a == 'true')},
                              csrc='empty @is_you(int x) { sleep(((x > 0) %s %s) is int); sleep((%s %s (x > 0)) is int); sleep((%s %s %s) is int); }\n' % (op, a, a, op, a, op, a),
                              vsrc='empty @is_you(int x, int y) { bool t = y is bool; sleep(((x > 0) %s t) is int); sleep((t %s (x > 0)) is int); sleep((t %s t) is int); }\n' % (op, op, op)))
    return tasks


def finding_tasks(W):
    smax = (1 << (8 * W - 1)) - 1
    m = (1 << (8 * W)) - 1
    return [dict(name='finding/add-overflow/w%d' % W, W=W, out_of_range=True, bind={'p': smax, 'q': 1},
                 csrc='empty @is_you(int x) { sleep(((%d + 1) > 0) is int); sleep(x); }\n' % smax,
                 vsrc='empty @is_you(int x, int p, int q) { sleep(((p + q) > 0) is int); sleep(x); }\n'),
            dict(name='finding/div-after-overflow/w%d' % W, W=W, out_of_range=True, bind={'p': smax, 'q': smax},
                 csrc='empty @is_you(int x) { sleep((%d + %d) / 2); sleep(x); }\n' % (smax, smax),
                 vsrc='empty @is_you(int x, int p, int q) { sleep((p + q) / 2); sleep(x); }\n')]


def main():
    import random
    rep = Report(PID, 'translation_validation', 'CrossHair on the constant folder (symbolic integers) + twin programs on the symbolic VM: constant form vs variable form with the literals substituted (z3)')
    quick = rep.tier == 'quick'
    rng = random.Random(rep.seed)
    from hv import chx
    chx.run_into(rep, 'c14', per_condition_timeout=200 if quick else 600)
    tasks = []
    for W in ([2, 3] if quick else [2, 3, 4]):
        tasks += make_tasks(W, quick or W != 2, rng)
        tasks += finding_tasks(W)
    nrej = [0]

    def on_result(r):
        nrej[0] += r.get('rejected_ok', 0)
    run_tasks(rep, tasks, worker=twin_task, limit=300, on_result=on_result, sample_every=211)
    rep.cov['constant_expressions_rejected_with_faulting_twin'] = nrej[0]
    rep.rule = ('twin pairs: x OP c and c OP x for every operator and boundary literal (all x decided by the solver), const variables/globals, fully constant pairs and depth-2 chains '
                'on the boundary grid with in-range intermediates, casts of literals, boolean constants; CrossHair lemmas over the folder with symbolic integers')
    rep.functions_encoded = ['hidc/ast/operators.py: ArithmeticOp/BooleanOp.simplify, Div/Mod.operate; hidc/ast/expressions.py: IntValue/BoolValue.cast, at(); emitted immediates (asm.IntLiteral)']
    rep.bounds = dict(word_sizes=[2, 3] if quick else [2, 3, 4], literals='boundary grid', chain_depth=2,
                      outside='constant expressions with an operand or folded intermediate outside the signed word range (known finding fold-int-no-wrap)')
    rep.assumptions = ['Sphinx machine model (DESIGN section 3); div_floor for negative operands of / and %']
    return rep.finish()


if __name__ == '__main__':
    sys.exit(main())
