"""C01 — compiled code computes what the source says (sequential core): VM vs reference interpreter
on the T-seq family and the entry-point matrix, all inputs symbolic."""
import os
import sys

sys.path.insert(0, os.path.dirname(os.path.dirname(os.path.abspath(__file__))))
from hv.report import Report
from hv import families as F
from hv.famcheck import run_tasks
from hv.vmri import case_to_task

PID = 'C01'


def hash_name(n):
    import zlib
    return zlib.crc32(n.encode())


def main():
    rep = Report(PID, 'translation_validation', 'symbolic execution of the emitted assembly (z3) vs source-level reference interpreter; equivalence obligations per path pair')
    quick = rep.tier == 'quick'
    cases = F.seq_enumerated() + F.entry_matrix() + F.op_positions() + F.usesite_matrix() + F.seq_random(rep.seed, 300 if quick else 3000)
    widths = [2, 3, 4] if quick else [2, 3, 4, 8]
    tasks = []
    for W in widths:
        for c in cases:
            if W != 2 and c.name.startswith('seq/random') and int(c.name.rsplit('-', 1)[1]) % 4:
                continue
            if W != 2 and c.name.startswith('usesite/') and hash_name(c.name) % 3 != W % 3:
                continue
            if W != 2 and ('write-int' in c.name or 'writeln-int' in c.name):
                continue        # write(int) of a symbolic value does not bit-blast above 16 bits (C17 treats it with lemmas)
            tasks.append(case_to_task(c.with_(word=W, stack=96), max_steps=20000, stack_garbage=not quick, vm_wall=120,
                                      allow_reject='random' in c.name))
    run_tasks(rep, tasks)
    rep.rule = ('templates = enumerated T-seq family + entry-point signature matrix + every operator in every position + use-site matrix (expression kind x consuming site) + seeded random sequential programs; distinct = distinct '
                'template name x word size with at least one committed VM path; all entry arguments symbolic (whole word / byte / string bytes)')
    rep.functions_encoded = ['emitted code of CodeGen.gen_func/gen_block/gen_stmts/push_expr/eval_expr/eval_func_call/lookup_var/make_global/array_lookup/array_assignment + stdlib routines used']
    rep.bounds = dict(word_sizes=widths, stack_words=96, array_lengths='0..3 (concrete), contents symbolic',
                      instructions_per_path=20000, loops='trip counts bounded by the templates (<= 4)',
                      outside='programs outside the families; time travel (C02); tight stacks (C04/C18); write(int) formatting (C17)')
    rep.assumptions = ['Sphinx machine model (DESIGN section 3); div/mod floor', 'typed AST (overload choice, inserted casts, folded constants) taken from the real front end',
                       'outputs that depend on uninitialised array elements are excluded (README: unspecified)']
    return rep.finish()


if __name__ == '__main__':
    sys.exit(main())
