"""C01 — compiled code computes what the source says (sequential core): VM vs reference interpreter
on the T-seq family and the entry-point matrix, all inputs symbolic."""
import os
import sys

sys.path.insert(0, os.path.dirname(os.path.dirname(os.path.abspath(__file__))))
from hv.report import Report
from hv import families as F
from hv.famcheck import run_tasks
from hv.vmri import case_to_task

PID = 'C01'


def hash_name(n):
    import zlib
    return zlib.crc32(n.encode())


# Programs whose expected events are written here by hand (as terms over the inputs), not derived from the typed AST: the reference
# interpreter takes folded constants from the real front end, so a wrong fold of e.g. (300 is byte) is int is invisible to it.
def _b(T, v):
    return T.low_byte_word(v)


SPECS = {
    'const-narrow-widen': ("empty @is_you(int x) { sleep((300 is byte) is int); sleep((-1 is byte) is int); sleep(((256 + x) is byte) is int); write(300 is byte); sleep((511 is byte) + 1); }\n",
                           lambda T, i: [('sleep', 44), ('sleep', 255), ('sleep', _b(T, i['x'][0])), ('out', 44), ('sleep', 256)]),
    'const-byte-variable': ("const byte CM = -1;\nconst byte CK = 300;\nempty @is_you(int x) { sleep(CM + 0); sleep(CK); sleep((CM is int) * 2); write(CM); if (CM > 200) { write('G'); } else { write('L'); } sleep(CM + x); }\n",
                            lambda T, i: [('sleep', 255), ('sleep', 44), ('sleep', 510), ('out', 255), ('out', 71), ('sleep', T.arith('add', 255, i['x'][0]))]),
    'const-narrow-compare': ("empty @is_you(int x) { if ((300 is byte) == 44) { write('y'); } else { write('n'); } if ((-1 is byte) > 0) { write('p'); } else { write('m'); } "
                             "bool t = (256 is byte) is bool; sleep(t is int); sleep(((257 is byte) is bool) is int); sleep(x); }\n",
                             lambda T, i: [('out', 121), ('out', 112), ('sleep', 0), ('sleep', 1), ('sleep', i['x'][0])]),
    'const-narrow-stores': ("byte gq = 0;\nbyte low(byte v) { return v; }\nempty @is_you(int x) { byte m = -1; sleep(m); byte[] a = [257, -2, x is byte]; sleep(a[0]); sleep(a[1]); sleep(a[2]); gq = 258; sleep(gq); sleep(low(259)); "
                            "const byte[] c = [511, 256]; sleep(c[0]); sleep(c[1]); }\n",
                            lambda T, i: [('sleep', 255), ('sleep', 1), ('sleep', 254), ('sleep', _b(T, i['x'][0])), ('sleep', 2), ('sleep', 3), ('sleep', 255), ('sleep', 0)]),
    'const-arith-fold': ("const int K = 11;\nconst byte KB = 'k';\nempty @is_you(int x) { sleep(((K + 300) is byte) is int); sleep((KB is int) + (('a' is int) is byte)); sleep(K * 3 - 1); sleep(7 / 2); sleep(-7 / 2); sleep(-7 % 3); sleep(7 % -3); "
                         "sleep((K > 10) is int); sleep((not K) is int); sleep(x - K); }\n",
                         lambda T, i: [('sleep', 55), ('sleep', 204), ('sleep', 32), ('sleep', 3), ('sleep', (-4) & T.M), ('sleep', 2), ('sleep', (-2) & T.M), ('sleep', 1), ('sleep', 0), ('sleep', T.arith('sub', i['x'][0], 11))]),
    'const-bool-int': ("const bool KT = true;\nempty @is_you(int x) { sleep(KT is int); sleep((KT is byte) + 1); sleep((true is int) + (false is int)); sleep(((2 is bool) is int) + ((0 is bool) is int)); sleep((\"\" is bool) is int); sleep((\"a\" is bool) is int); sleep(x); }\n",
                       lambda T, i: [('sleep', 1), ('sleep', 2), ('sleep', 1), ('sleep', 1), ('sleep', 0), ('sleep', 1), ('sleep', i['x'][0])]),
}


def spec_task(task):
    from hv.harness import Case, build, Stats, Decider, argv_for_compiled, jsonable_argv, run_concrete_case, conc_events
    from hv.equiv import compare
    from hv.terms import fmt_events
    name, W = task['spec'], task['word']
    src, fn = SPECS[name]
    res = dict(name='spec/%s-w%d' % (name, W), violations=[], inconclusive=[], harness_errors=[], status='ok')
    case = Case(src, word=W, stack=96, name=res['name'])
    st = Stats()
    b = build(case, max_steps=8000)
    paths = b.vm.run()
    st.add_vm(b.vm, paths)
    cases = [([], tuple(fn(b.vm.T, b.vm.inputs)) + (('flag', 'win'),), 'done')]
    dec = Decider(W)
    mism, inconc = compare(dec, b, paths, cases, st)
    st.queries += dec.nq
    st.solver_s += dec.tq
    res['inconclusive'] += inconc
    res['npaths'] = len(paths)
    res['path_kinds'] = sorted({p.kind for p in paths})
    res['witness'] = fmt_events(paths[0].events, 8) if paths else ''
    for m in mism:
        argv = argv_for_compiled(b.compiled, m['argv'], W)
        p = run_concrete_case(case, argv)
        exp = conc_events(tuple(fn(b.vm.T, {k: list(v) for k, v in m['argv'].items()})) + (('flag', 'win'),))
        got = conc_events(p.events)
        if p.kind == 'done' and got == exp:
            res['harness_errors'].append('%s: counterexample did not replay (argv %s)' % (res['name'], argv))
        else:
            res['violations'].append(dict(what='compiled program differs from the hand-written specification of its constants', case=res['name'],
                                          replay=dict(type='vm-events', src=src, word=W, stack=96, unchecked=False, argv=jsonable_argv(argv), expected=[exp], expected_kind='done',
                                                      observed=dict(kind=p.kind, events=got, info=str(p.info)))))
    res['stats'] = st.as_dict()
    return res


def main():
    rep = Report(PID, 'translation_validation', 'symbolic execution of the emitted assembly (z3) vs source-level reference interpreter; equivalence obligations per path pair')
    quick = rep.tier == 'quick'
    cases = F.seq_enumerated() + F.entry_matrix() + F.op_positions() + F.usesite_matrix() + F.seq_random(rep.seed, 300 if quick else 3000)
    widths = [2, 3, 4] if quick else [2, 3, 4, 8]
    tasks = []
    for W in widths:
        for c in cases:
            if W != 2 and c.name.startswith('seq/random') and int(c.name.rsplit('-', 1)[1]) % 4:
                continue
            if W != 2 and c.name.startswith('usesite/') and hash_name(c.name) % 3 != W % 3:
                continue
            if W == 8 and c.name.startswith(('usesite/', 'oppos/', 'seq/nested-', 'seq/string-index', 'seq/vla-', 'seq/packed', 'seq/const-cast')):
                continue        # product families run at 16/24/32 bit: at 64 bit a dozen of their obligations (symbolic index scaling, %) came back `unknown`
            if W != 2 and ('write-int' in c.name or 'writeln-int' in c.name):
                continue        # write(int) of a symbolic value does not bit-blast above 16 bits (C17 treats it with lemmas)
            tasks.append(case_to_task(c.with_(word=W, stack=96), max_steps=20000, stack_garbage=not quick, vm_wall=120,
                                      allow_reject='random' in c.name))
    run_tasks(rep, tasks)
    run_tasks(rep, [dict(name='spec/%s-w%d' % (n, W), spec=n, word=W) for n in SPECS for W in widths], worker=spec_task, sample_every=3)
    rep.rule = ('templates = enumerated T-seq family + entry-point signature matrix + every operator in every position + use-site matrix (expression kind x consuming site) + seeded random sequential programs; distinct = distinct '
                'template name x word size with at least one committed VM path; all entry arguments symbolic (whole word / byte / string bytes)')
    rep.functions_encoded = ['emitted code of CodeGen.gen_func/gen_block/gen_stmts/push_expr/eval_expr/eval_func_call/lookup_var/make_global/array_lookup/array_assignment + stdlib routines used']
    rep.bounds = dict(word_sizes=widths, stack_words=96, array_lengths='0..3 (concrete), contents symbolic',
                      instructions_per_path=20000, loops='trip counts bounded by the templates (<= 4)',
                      outside='the product families (use-site matrix, operator positions, string-index matrix) at 64 bit; programs outside the families; time travel (C02); tight stacks (C04/C18); write(int) formatting (C17)')
    rep.assumptions = ['Sphinx machine model (DESIGN section 3); div/mod floor', 'typed AST (overload choice, inserted casts, folded constants) taken from the real front end',
                       'outputs that depend on uninitialised array elements are excluded (README: unspecified)']
    return rep.finish()


if __name__ == '__main__':
    sys.exit(main())
