"""C07 — the typechecker accepts exactly the well-typed programs.

(1) CrossHair lemmas on the real AST methods (ch/c07_types.py): coercion lattice, explicit-cast lattice, array-literal type
    inference and const flexibility, nested arrays, overload resolution (exact match first, else first declared coercible)
    with symbolic selectors; the oracle is a transcription of the README's rules.
(2) Rule x position enumerations through the real parse(...).evaluate(env), compared with the independent transcription in
    hv/tcspec.py: declarations (12 types x 57 expression kinds), plain and compound assignment (16 places), explicit casts,
    argument passing, returns, redeclaration / shadowing, duplicate signatures, undeclared names, overload layouts with the
    caller before / between / after the overloads.  The binding of each call is read from the checked tree.
(3) Which overload actually runs is checked on the VM in C01 (overload templates with distinct markers).
"""
import itertools
import os
import sys

sys.path.insert(0, os.path.dirname(os.path.dirname(os.path.abspath(__file__))))
from hv.report import Report
from hv.par import pmap

PID = 'C07'


def accepts(src):
    from hv import hidc as H
    try:
        env = H.Environment.empty()
        tree = H.parse(H.SourceCode.from_string(src)).evaluate(env)
        return True, tree, env
    except H.CompilerError as e:
        return False, '%s: %s' % (type(e).__name__, e), None


def viol(what, src, exp, got):
    return dict(what='typechecker %s a program the documented rules %s: %s' % ('accepts' if got else 'rejects', 'reject' if got else 'accept', what), case=src[-300:],
                replay=dict(type='typecheck', src=src, expected_accept=exp))


def table_task(task):
    from hv import tcspec as S
    res = dict(name=task['name'], violations=[], n=0)
    kind = task['kind']
    for item in task['items']:
        if kind == 'decl':
            t, e = item
            src = S.PRE + 'empty @is_you() { %s v = %s; }' % (t, e)
            exp = S.coercible(e, t)
        elif kind == 'gdecl':
            t, e = item
            src = S.PRE + '%s gv = %s;\nempty @is_you() { }' % (t, e)
            exp = S.coercible(e, t)
        elif kind == 'assign':
            l, op, e = item
            src = S.PRE + 'empty @is_you() { %s %s %s; }' % (l, op, e)
            exp = S.assign_ok(l, op, e)
        elif kind == 'cast':
            e, t = item
            src = S.PRE + 'empty use(bool b) {}\nempty @is_you() { use(((%s) is %s) is bool); }' % (e, t)
            exp = S.cast_ok(e, t)
        elif kind == 'call':
            t, e = item
            src = S.PRE + 'empty f(%s p) {}\nempty @is_you() { f(%s); }' % (t, e)
            exp = S.coercible(e, t, for_call=True)
        elif kind == 'ret':
            t, e = item
            src = S.PRE + '%s f() { return %s; }\nempty @is_you() { }' % (t, e)
            exp = (t != 'empty') and S.coercible(e, t)
        elif kind == 'cond':
            e, = item
            src = S.PRE + "empty @is_you() { if (%s) { } while (%s) { break; } }" % (e, e)
            exp = S.cast_ok(e, 'bool')
        elif kind == 'index':
            e, ix = item
            src = S.PRE + 'empty use(bool b) {}\nempty @is_you() { use((%s)[%s] is bool); }' % (e, ix)
            et, fl = S.E[e]
            exp = (et.endswith('[]') or et == 'string' or (et == 'lit' and S.literal_resolvable(fl) and len(fl) > 0) or et == 'locked') and S.scal_coercible(ix, 'int') and S.E[ix][0] in ('int', 'byte')
        res['n'] += 1
        got, msg, _ = accepts(src)
        if got != exp:
            res['violations'].append(viol('%s %s' % (kind, item), src, exp, got))
            if len(res['violations']) > 5:
                break
    return res


def misc_cases():
    """(name, source, expected accept)"""
    P = "empty @is_you() { %s }"
    out = []

    def T(name, src, exp):
        out.append((name, src, exp))
    # returns
    T('ret-missing-value', "int f() { return; }\n" + P % '', False)
    T('ret-superfluous', "empty f() { return 1; }\n" + P % '', False)
    T('ret-superfluous-empty-call', "empty g() { }\nempty f() { return g(); }\n" + P % 'f();', False)
    T('ret-superfluous-builtin', "empty f() { return writeln(); }\n" + P % 'f();', False)
    T('ret-superfluous-defeat-call', "empty !d() { }\nempty !f() { return !d(); }\n" + P % 'try { !f(); } undo { }', False)
    T('ret-superfluous-var', "empty f(int a) { return a; }\n" + P % 'f(1);', False)
    T('ret-superfluous-in-you', "empty @f() { return 0; }\n" + P % '@f();', False)
    T('ret-empty-ok', "empty f() { return; }\n" + P % 'f();', True)
    T('ret-missing-stmt', "int f(int a) { if (a > 0) { return 1; } }\n" + P % '', False)
    T('ret-narrow-nonliteral', "byte f(int a) { return a; }\n" + P % '', False)
    T('ret-narrow-literal', "byte f() { return 200; }\n" + P % '', True)
    T('ret-widen', "int f(byte a) { return a; }\n" + P % '', True)
    T('ret-string', 'string f(bool b) { if (b) { return "y"; } return "n"; }\n' + P % 'write(f(true));', True)
    T('use-empty-value', "empty f() { }\n" + P % 'int x = f();', False)
    T('main-returns-value', "int @is_you() { return 1; }", True)      # accepted by the typechecker; rejected later by the code generator
    # names
    T('undeclared-var', P % 'x = 1;', False)
    T('undeclared-in-expr', P % 'int y = x + 1;', False)
    T('undeclared-func', P % 'nope(1);', False)
    T('use-before-decl', P % 'y = 1; int y = 2;', False)
    T('redeclare-same-scope', P % 'int x = 1; int x = 2;', False)
    T('redeclare-other-type', P % 'int x = 1; byte x = 2;', False)
    T('shadow-local-nested', P % 'int x = 1; { int x = 2; }', False)
    T('shadow-local-in-loop', P % 'int x = 1; for (int x = 0; x < 1; x += 1) { }', False)
    T('sibling-scopes-ok', P % '{ int x = 1; } { int x = 2; } for (int x = 0; x < 1; x += 1) { } for (int x = 0; x < 1; x += 1) { }', True)
    T('shadow-global-ok', "int g = 1;\n" + P % 'int g = 2; g += 1;', True)
    T('shadow-global-nested-ok', "int g = 1;\n" + P % '{ int g = 2; } { byte g = 3; }', True)
    T('shadow-global-then-redeclare', "int g = 1;\n" + P % 'int g = 2; int g = 3;', False)
    T('shadow-global-nested-twice', "int g = 1;\n" + P % 'int g = 2; { int g = 3; }', False)
    T('global-redeclare', "int g = 1;\nint g = 2;\n" + P % '', False)
    T('param-shadow', "empty f(int a) { int a = 1; }\n" + P % '', False)
    T('param-duplicate', "empty f(int a, byte a) { }\n" + P % '', False)
    T('param-shadows-global-ok', "int g = 1;\nempty f(int g) { g = 2; }\n" + P % 'f(1);', True)
    T('global-uses-later-global', "int a = b;\nint b = 1;\n" + P % '', False)
    T('global-uses-earlier-global', "int a = 1;\nint b = a + 1;\n" + P % 'sleep(b);', True)
    T('const-global-assign', "const int K = 1;\n" + P % 'K = 2;', False)
    T('const-local-assign', P % 'const int k = 1; k += 1;', False)
    T('const-local-read', P % 'const int k = 1; int y = k + 1; byte z = k;', False)     # a substituted constant is not a literal any more
    T('const-byte-local', P % 'const byte k = 1; int y = k + 1; byte z = k;', True)
    # duplicate signatures / overload sets
    T('dup-sig', "empty f(int a) { }\nempty f(int b) { }\n" + P % '', False)
    T('dup-sig-ret', "empty f(int a) { }\nint f(int b) { return 1; }\n" + P % '', False)
    T('dup-builtin', "empty write(int a) { }\n" + P % '', False)
    T('overload-by-const', "empty f(int[] a) { }\nempty f(const int[] a) { }\n" + P % 'int[] x = [1]; f(x); f([1]);', True)
    T('overload-by-arity', "empty f() { }\nempty f(int a) { }\nempty f(int a, int b) { }\n" + P % 'f(); f(1); f(1, 2);', True)
    T('flavours-distinct', "empty f() { }\nempty @f() { }\nempty !f() { }\n" + P % 'f(); @f(); try { !f(); } undo { }', True)
    T('wrong-arity', "empty f(int a) { }\n" + P % 'f(1, 2);', False)
    T('wrong-arity-0', "empty f(int a) { }\n" + P % 'f();', False)
    T('ambiguous-literal-picks-first', "empty f(byte a) { }\nempty f(int a, int b) { }\n" + P % 'f(1);', True)
    # arrays
    T('nested-literal', P % 'int[] a = [[1], [2]];', False)
    T('array-of-arrays-var', P % 'int[] a = [1]; int[] b = [a];', False)
    T('empty-literal-typed', P % 'int[] a = []; const string[] s = []; bool[] b = [];', True)
    T('empty-literal-index', P % 'int x = [][0];', False)
    T('empty-literal-write', P % 'write([]);', True)
    T('mixed-literal', P % 'int[] a = [1, true];', False)
    T('const-elem-assign', P % 'const int[] a = [1, 2]; a[0] = 3;', False)
    for opn in ('+=', '-=', '*=', '/=', '%='):
        T('const-elem-compound-local-' + opn, P % ('const int[] a = [1, 2]; a[0] %s 3;' % opn), False)
        T('const-elem-compound-param-' + opn, "empty f(const int[] a, int i) { a[i] %s 1; }\n" % opn + P % 'f([1, 2], 0);', False)
        T('const-elem-compound-global-' + opn, "const byte[] g = [1, 2];\n" + P % ('g[1] %s 2;' % opn), False)
        T('string-elem-compound-' + opn, P % ('string s = "ab"; s[0] %s 1;' % opn), False)
        T('mutable-elem-compound-' + opn, "int[] gm = [4, 5];\n" + P % ('int[] a = [1, 2]; a[0] %s 3; gm[1] %s a[0]; byte[] b = [1, 2]; b[1] %s 1;' % (opn, opn, opn)), True)
    T('const-elem-compound', P % 'const byte[] a = [1, 2]; a[0] += 3;', False)
    T('mutable-elem-assign', P % 'int[] a = [1, 2]; a[0] = 3; a[1] *= 2;', True)
    T('array-reassign', P % 'int[] a = [1]; int[] b = [2]; a = b;', False)
    T('string-elem-assign', P % 'string s = "ab"; s[0] = \'c\';', False)
    T('string-reassign-ok', P % 'string s = "ab"; s = "cd";', True)
    T('string-array-elem-assign-ok', P % 'string[] s = ["ab"]; s[0] = "cd";', True)
    T('string-array-elem-elem', P % 'string[] s = ["ab"]; s[0][0] = \'c\';', False)
    T('const-array-to-mutable-param', "empty f(int[] a) { }\n" + P % 'const int[] c = [1]; f(c);', False)
    T('const-array-to-mutable-var', P % 'const int[] c = [1]; int[] m = c;', False)
    T('mutable-to-const-param-ok', "empty f(const int[] a) { }\n" + P % 'int[] m = [1]; f(m);', True)
    T('mutable-to-const-var', P % 'int[] m = [1]; const int[] c = m;', False)
    T('literal-to-mutable-param-ok', "empty f(int[] a) { }\n" + P % 'f([1, 2]);', True)
    T('string-to-mutable-bytes', "empty f(byte[] a) { }\n" + P % 'f("ab");', False)
    T('string-to-const-bytes-ok', "empty f(const byte[] a) { }\n" + P % 'f("ab"); const byte[] b = "cd";', True)
    T('vla-const', P % 'const int a[3];', False)
    T('vla-length-byte-ok', P % 'byte n = 3; int a[n]; bool b[n + 1]; string s[2];', True)
    T('vla-length-bool', P % 'int a[true];', False)
    T('vla-length-string', P % 'int a["3"];', False)
    T('index-with-bool', P % 'int[] a = [1]; sleep(a[true]);', False)
    T('index-scalar', P % 'int a = 1; sleep(a[0]);', False)
    T('length-of-scalar', P % 'int a = 1; sleep(a.length);', False)
    # operators
    T('arith-on-bool', P % 'int x = true + 1;', False)
    T('arith-on-string', P % 'int x = "a" + 1;', False)
    T('compare-bool', P % 'bool b = true < false;', False)
    T('equality-bool-ok', P % 'bool b = true == false; bool c = 1 == 2; bool d = \'a\' != 3;', True)
    T('equality-mixed', P % 'bool b = true == 1;', False)
    T('equality-strings', P % 'bool b = "a" == "b";', False)
    T('logic-on-anything-ok', P % 'int[] a = [1]; bool b = a and "s" or 3 and not \'c\';', True)
    T('narrowing-nonliteral', P % 'int i = 1; byte b = i;', False)
    T('narrowing-expression', P % 'int i = 1; byte b = i + 1;', False)
    T('narrowing-literal-expr-ok', P % 'byte a = 1; byte b = a + 1; byte c = 2 * 3 - a; b += 1; b *= a;', True)
    T('narrowing-compound-nonliteral', P % 'int i = 1; byte b = 2; b += i;', False)
    T('narrowing-cast-ok', P % 'int i = 1; byte b = i is byte; b = (i + 1) is byte;', True)
    T('cast-int-literal-not-shrinkable', P % 'byte b = 5 is int;', False)
    T('spec-type-mismatch', P % 'int x = 1 ?? true;', False)
    T('spec-on-string', P % 'string s = "a" ?? "b";', False)
    T('spec-byte-literal-ok', P % "byte b = 'a' ?? 3; int i = 1 ?? 'c'; bool t = true ?? false;", True)
    T('is-invalid-string', P % 'string s = 5 is string;', False)
    T('is-array-of-scalar', P % 'const int[] a = 5 is int[];', False)
    T('is-string-bytes-ok', P % 'const byte[] a = "abc" is byte[];', True)
    T('is-literal-retains-flex-ok', P % 'byte[] a = [1, 2] is byte[]; const int[] b = [\'a\'] is int[];', True)
    T('is-literal-locked', P % 'int[] a = [1, 2] is byte[];', False)
    return out


def misc_task(task):
    res = dict(name='misc', violations=[], n=0)
    for name, src, exp in misc_cases()[task['lo']::task['step']]:
        res['n'] += 1
        got, msg, _ = accepts(src)
        if got != exp:
            res['violations'].append(viol(name + (' (%s)' % msg if not got else ''), src, exp, got))
    return res


def overload_task(task):
    """overload layouts: the caller is declared before / between / after the overloads; binding read from the checked tree"""
    from hv import tcspec as S
    from hv import hidc as H
    from hidc import ast as A
    res = dict(name='overloads-%d' % task['lo'], violations=[], n=0)
    PTS = ['int', 'byte', 'bool', 'string', 'const int[]', 'const byte[]', 'int[]', 'byte[]']
    RET = ['int', 'byte', 'bool', 'string']
    RETV = {'int': '1', 'byte': "'r'", 'bool': 'true', 'string': '"r"'}
    ARGS = ['5', '300', "'c'", 'bv', 'iv', 'bv + 1', 'iv + 1', 'true', '"s"', 'sv', 'ia', 'cia', 'ba', 'cba', '[1, 2]', '[bv, 1]', '[iv, bv]', '[]', "['a', 1]", 'K', 'KB']
    allsets = list(itertools.permutations(PTS, 3))
    # sets with several coercion candidates for one argument (array types, int/byte) always; the rest sampled in the quick tier
    core = [s for s in allsets if sum(1 for t in s if t.endswith('[]')) >= 2 or set(s) >= {'int', 'byte'}]
    rest = [s for s in allsets if s not in core]
    sets = core[task['lo']::16] + rest[task['lo']::task['step']]
    for ps in sets:
        for pos in range(4):
            for arg in ARGS:
                decls = ['%s f(%s p) { return %s; }' % (RET[k], ps[k], RETV[RET[k]]) for k in range(3)]
                caller = 'empty @is_you() { f(%s); }' % arg
                decls.insert(pos, caller)
                src = S.PRE + '\n'.join(decls) + '\n'
                # README: exact match first, else the first declared overload every argument can be coerced to
                et = S.E[arg][0]
                exact_t = None
                if et == 'lit':
                    fl = S.E[arg][1]
                    if fl and S.literal_resolvable(fl):
                        first = next(S.E[c][0] for c in fl if all(S.scal_coercible(x, S.E[c][0]) for x in fl))
                        exact_t = 'const %s[]' % first
                elif et != 'locked':
                    exact_t = et
                exp = None
                for k in range(3):
                    if ps[k] == exact_t:
                        exp = k
                        break
                if exp is None:
                    for k in range(3):
                        if S.coercible(arg, ps[k], for_call=True):
                            exp = k
                            break
                res['n'] += 1
                got, tree, env = accepts(src)
                if got != (exp is not None):
                    res['violations'].append(viol('call f(%s) with overloads %s, caller at position %d' % (arg, ps, pos), src, exp is not None, got))
                    continue
                if not got:
                    continue
                fn = [f for f in tree.func_decls if f.name.name == '@is_you'][0]
                call = [s for s in fn.body.stmts if isinstance(s, A.FuncCall)][0]
                bound = RET.index(str(call.type))
                if bound != exp:
                    res['violations'].append(dict(what='call bound to the wrong overload: f(%s) with overloads %s (caller declared at position %d) binds to #%d, documented rule gives #%d'
                                                  % (arg, ps, pos, bound, exp), case=src[-400:], replay=dict(type='typecheck', src=src, expected_accept=True)))
        if len(res['violations']) > 5:
            break
    return res


def history_task(task):
    """the binding of a call does not depend on which calls were typechecked before it: two calls of one overloaded name
    in one function / in two functions, every ordered pair of argument forms that share a static type"""
    from hv import tcspec as S
    from hv import hidc as H
    from hidc import ast as A
    res = dict(name='overload-history-%d' % task['lo'], violations=[], n=0)
    RET = ['int', 'byte', 'bool', 'string']
    RETV = {'int': '1', 'byte': "'r'", 'bool': 'true', 'string': '"r"'}
    GROUPS = [['5', '300', 'iv', 'iv + 1', 'bv + 1', 'K'], ['[1, 2]', '[iv, bv]', '[bv, 1]', 'cia', "['a', 1]"], ["'c'", 'bv', 'KB']]
    SETS = [('byte', 'int'), ('int', 'byte'), ('byte', 'string', 'int'), ('byte[]', 'int[]'), ('const byte[]', 'const int[]'), ('const int[]', 'const byte[]'), ('byte[]', 'const int[]'),
            ('bool', 'byte', 'int'), ('string', 'byte'), ('const byte[]', 'string', 'int[]'), ('int', 'string'), ('byte', 'bool')]

    def expected(arg, ps):
        et = S.E[arg][0]
        exact_t = None
        if et == 'lit':
            fl = S.E[arg][1]
            if fl and S.literal_resolvable(fl):
                first = next(S.E[c][0] for c in fl if all(S.scal_coercible(x, S.E[c][0]) for x in fl))
                exact_t = 'const %s[]' % first
        elif et != 'locked':
            exact_t = et
        for k in range(len(ps)):
            if ps[k] == exact_t:
                return k
        for k in range(len(ps)):
            if S.coercible(arg, ps[k], for_call=True):
                return k
        return None
    work = [(ps, a1, a2, shape) for ps in SETS for g in GROUPS for a1 in g for a2 in g for shape in (0, 1)]
    for ps, a1, a2, shape in work[task['lo']::16]:
        decls = ['%s f(%s p) { return %s; }' % (RET[k], ps[k], RETV[RET[k]]) for k in range(len(ps))]
        e1, e2 = expected(a1, ps), expected(a2, ps)
        if e1 is None:
            continue        # the first call is itself ill-typed: covered by the single-call tables
        if shape == 0:
            decls.append('empty @is_you() { f(%s); f(%s); }' % (a1, a2))
        else:
            decls.insert(0, 'empty first() { f(%s); }' % a1)
            decls.append('empty @is_you() { f(%s); first(); }' % a2)
        src = S.PRE + '\n'.join(decls) + '\n'
        res['n'] += 1
        got, tree, env = accepts(src)
        if got != (e2 is not None):
            res['violations'].append(viol('f(%s) after f(%s) with overloads %s' % (a2, a1, ps), src, e2 is not None, got))
            continue
        if not got:
            continue
        fn = [f for f in tree.func_decls if f.name.name == '@is_you'][0]
        calls = [st for st in fn.body.stmts if isinstance(st, A.FuncCall) and st.func.name == 'f']
        call = calls[-1]
        bound = RET.index(str(call.type))
        if bound != e2:
            res['violations'].append(dict(what='call bound to the wrong overload after an earlier call: f(%s) after f(%s) with overloads %s binds to #%d, documented rule gives #%d'
                                          % (a2, a1, ps, bound, e2), case=src[-400:], replay=dict(type='typecheck', src=src, expected_accept=True)))
        if len(res['violations']) > 5:
            break
    return res


def main():
    rep = Report(PID, 'proof', 'CrossHair symbolic execution of the typechecker methods on AST objects built from symbolic selectors, against a transcription of the README typing rules')
    quick = rep.tier == 'quick'
    from hv import chx
    chx.run_into(rep, 'c07', per_condition_timeout=700 if quick else 1200)
    from hv import tcspec as S
    tasks = []

    def chunks(kind, items, n=12):
        items = list(items)
        for i in range(n):
            tasks.append(dict(name='%s-%d' % (kind, i), kind=kind, items=items[i::n]))
    chunks('decl', itertools.product(S.TYPES, S.E))
    chunks('gdecl', itertools.product(S.TYPES, [e for e in S.E if S.E[e][0] != 'lit' or True]), 6)
    chunks('assign', itertools.product(S.LV, ['=', '+=', '-=', '*=', '/=', '%='], S.E), 16)
    chunks('cast', itertools.product(S.E, S.SC + ['%s[]' % x for x in S.SC]))
    chunks('call', itertools.product(S.TYPES, S.E))
    chunks('ret', itertools.product(S.SC + ['empty'], S.E), 6)
    chunks('cond', [(e,) for e in S.E], 2)
    chunks('index', itertools.product(S.E, ['5', 'bv', 'iv', 'true', '"s"', 'bv + 1', 'ia']), 6)
    n = 0
    for r in pmap(table_task, tasks, limit=900):
        rep.absorb(r)
        n += r.get('n', 0)
    for r in pmap(misc_task, [dict(lo=i, step=8) for i in range(8)], limit=600):
        rep.absorb(r)
        n += r.get('n', 0)
    step = 16 if quick else 1
    no = 0
    for r in pmap(overload_task, [dict(lo=i, step=16 * step) for i in range(16)], limit=1200):
        rep.absorb(r)
        no += r.get('n', 0)
    nh = 0
    for r in pmap(history_task, [dict(lo=i) for i in range(16)], limit=1200):
        rep.absorb(r)
        nh += r.get('n', 0)
    rep.cov['overload_history_programs'] = nh
    no += nh
    rep.counts['evaluations'] += n + no
    rep.cov['rule_position_programs'] = n
    rep.cov['overload_layout_programs'] = no
    rep.cov['enumeration_note'] = 'the rule x position tables are finite and enumerated completely (exhaustive over the tables, not over all programs): auxiliary to the CrossHair lemmas'
    rep.rule = ('CrossHair: 28 expression kinds x 12 types coercion and cast lattices; 7x7 element pairs x 12 types array-literal lemma; 3-overload sets over 7 parameter types x 7 argument kinds; '
                'arity-2 overload pairs, and two such calls in a row against a shared program environment (history independence). Enumerations: declarations, global declarations, 16 places x 6 assignment operators, casts, argument passing, returns, conditions, indexing, '
                '~90 hand-written rule cases, overload layouts with 4 caller positions, ordered pairs of calls of one overloaded name')
    rep.functions_encoded = ['hidc/ast/expressions.py: Expression.cast/coercible/coerce, IntValue, ArrayLiteral, Volatile, FuncCall.evaluate, ArrayLookup; hidc/ast/operators.py evaluate methods; '
                             'hidc/ast/statements.py Declaration/Assignment/IncAssignment/ReturnStatement; hidc/ast/symbols.py Environment.add_funcs; hidc/ast/program.py']
    rep.bounds = dict(per_obligation='one statement / one call; <= 3 overloads of arity <= 2', outside='whole-program compositionality (evaluate of a node consults only its children and the environment) is an argument, not a solver result')
    rep.assumptions = ['README typing rules as transcribed in hv/tcspec.py and ch/c07_types.py']
    rep.cov['checker_cmd'] = 'python3-vt -m crosshair check --report_all ch/c07_types.py'
    return rep.finish()


if __name__ == '__main__':
    sys.exit(main())
