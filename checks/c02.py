"""C02 — try/undo, try/stop, preempt and ?? follow their time-travel semantics: VM vs the reference
interpreter's chronological back-tracking on the T-time family (incl. histories of 2 and 3 try blocks),
plus independent specifications for the repository's algorithmic examples."""
import os
import sys

sys.path.insert(0, os.path.dirname(os.path.dirname(os.path.abspath(__file__))))
from hv.report import Report
from hv import families as F
from hv.famcheck import run_tasks
from hv.vmri import case_to_task
from hv.par import pmap

PID = 'C02'


def spec_task(task):
    """independent specification for examples: max = maximum of the array; mergesort = sorted permutation"""
    import z3
    from hv.vmri import task_to_case
    from hv.harness import build, Stats, Decider, model_argv
    from hv.terms import Inconclusive
    case = task_to_case(task)
    res = dict(name=case.name + '/spec', violations=[], inconclusive=[], harness_errors=[])
    b = build(case, max_steps=60000)
    paths = b.vm.run()
    st = Stats()
    st.add_vm(b.vm, paths)
    dec = Decider(case.word)
    (arr,) = b.vm.inputs.values()
    n = len(arr)
    for p in paths:
        if p.kind != 'done':
            res['inconclusive'].append('%s: path %s' % (res['name'], p.kind))
            continue
        sl = [e[1] for e in p.events if e[0] == 'sleep']
        sl = [z3.BitVecVal(x, 8 * case.word) if isinstance(x, int) else x for x in sl]
        if task['spec'] == 'max':
            ok = z3.And(len(sl) == 1, z3.And(*[sl[0] >= a for a in arr]), z3.Or(*[sl[0] == a for a in arr])) if len(sl) == 1 else z3.BoolVal(False)
        else:
            if len(sl) != n:
                ok = z3.BoolVal(False)
            else:
                srt = z3.And(*[sl[i] <= sl[i + 1] for i in range(n - 1)]) if n > 1 else z3.BoolVal(True)
                # permutation: every value occurs equally often in input and output
                perm = z3.And(*[z3.Sum([z3.If(x == v, 1, 0) for x in sl]) == z3.Sum([z3.If(x == v, 1, 0) for x in arr]) for v in arr]) if n else z3.BoolVal(True)
                ok = z3.And(srt, perm)
        st.obligations += 1
        try:
            m = dec.check(list(p.conds) + [z3.Not(ok)])
        except Inconclusive as e:
            res['inconclusive'].append('%s: %s' % (res['name'], e))
            continue
        if m is None:
            st.discharged += 1
        else:
            from hv.harness import argv_for_compiled, jsonable_argv, run_concrete_case, conc_events
            argv = argv_for_compiled(b.compiled, model_argv(b.vm, m), case.word)
            pc = run_concrete_case(case, argv)
            res['violations'].append(dict(what='example %s violates its independent specification (%s)' % (case.name, task['spec']),
                                          replay=dict(type='vm-events', src=case.src, word=case.word, stack=case.stack, unchecked=False,
                                                      argv=jsonable_argv(argv), expected=None, observed=dict(kind=pc.kind, events=conc_events(pc.events)))))
    st.queries += dec.nq
    st.solver_s += dec.tq
    res['stats'] = st.as_dict()
    res['npaths'] = len(paths)
    res['path_kinds'] = sorted({p.kind for p in paths})
    return res


def main():
    rep = Report(PID, 'translation_validation', 'symbolic execution of the emitted assembly with Turing-jump back-tracking (z3) vs reference interpreter with chronological choice back-tracking')
    quick = rep.tier == 'quick'
    cases = F.time_enumerated(rep.tier) + F.time_examples() + F.time_random(rep.seed, 150 if quick else 2000)
    widths = [2, 3, 4] if quick else [2, 3, 4, 8]
    tasks = []
    for W in widths:
        for c in cases:
            if W != 2 and 'random' in c.name and int(c.name.rsplit('-', 1)[1]) % 5:
                continue
            tasks.append(case_to_task(c.with_(word=W, stack=200 if 'mergesort' in c.name else 96), max_steps=8000, vm_wall=120,
                                      allow_reject='random' in c.name))
    run_tasks(rep, tasks)
    spec_tasks = []
    for c in F.time_examples():
        spec_tasks.append(case_to_task(c.with_(stack=200), spec='max' if 'max' in c.name else 'sort'))
    for r in pmap(spec_task, spec_tasks, limit=600):
        rep.counts['evaluations'] += 1
        rep.add_stats(r.get('stats', {}))
        for v in r.get('violations', []):
            rep.violation(v)
        rep.inconclusive += r.get('inconclusive', [])
        rep.harness_errors += r.get('harness_errors', [])
        rep.distinct_keys.add(r['name'])
    # `a ?? b` always evaluates b, also when an operand is a compile-time constant (the reference interpreter sees the tree
    # after constant folding, so this clause is decided against the run-time twin with the constant bound to an input)
    sys.path.insert(0, os.path.dirname(os.path.abspath(__file__)))
    import c14
    import random as _random
    ttasks = [t for W in ([2] if quick else [2, 3, 4]) for t in c14.make_tasks(W, True, _random.Random(rep.seed)) if '/spec-' in t['name']]
    run_tasks(rep, ttasks, worker=c14.twin_task, limit=300, sample_every=7)
    rep.rule = ('T-time family: every single construct, every ordered pair (and sampled/all triples) of {undo, stop, undo/stop with defeat in a callee, ??, '
                'preempt, preemptive defeat function} in one activation, across calls and inside loops; exits out of try; preempt varieties; ?? varieties; '
                'examples max/mergesort with symbolic arrays (also against independent max/sorted-permutation specifications); seeded random time-travel programs')
    rep.functions_encoded = ['emitted code of gen_block(TryBlock/PreemptBlock), Speculation lowering, truth_is_defeat, return/break/continue out of try, nonlocal_preempt protection']
    rep.bounds = dict(word_sizes=widths, try_blocks_per_run='<= 3 (enumerated) / random', instructions_per_path=50000, arrays='<= 3 symbolic elements',
                      outside='programs outside the family; recursion deeper than the templates reach')
    rep.assumptions = ['Sphinx machine model (DESIGN section 3), in particular the Turing jump rule', 'RI chronological back-tracking is the README semantics (DESIGN 4.4)']
    return rep.finish()


if __name__ == '__main__':
    sys.exit(main())
