"""C18 — builds are reproducible and options do not change meaning.

Solver-decided clauses:
 (b) stack size: the C04 sweep on a further slice of the families: every path that does not end in stack_overflow equals the
     generous-stack run at every size, overflow is monotone (all inputs symbolic);
 (c) word size: the same template compiled at w < w'; the wide run's inputs are the sign-extension of the narrow inputs; the
     narrow VM records a no-signed-overflow condition for every arithmetic instruction it executes; under those conditions
     the event lists agree (bytes equal, words equal after sign-extension).
Not solver-decidable (process-level nondeterminism / text equality), run as auxiliary concrete differentials and reported
separately in the evidence: (a) byte-identical output across processes and hash seeds; (d) --lint leaves code unchanged.
A failing auxiliary differential is still a genuine violation and is reported as such.
"""
import hashlib
import os
import subprocess
import sys

sys.path.insert(0, os.path.dirname(os.path.dirname(os.path.abspath(__file__))))
from hv.report import Report
from hv import families as F
from hv.famcheck import run_tasks
from hv.vmri import case_to_task, task_to_case

PID = 'C18'


def width_task(task):
    import z3
    from hv import hidc as H
    from hv.harness import build, Stats, Decider, model_argv, argv_for_compiled, jsonable_argv, conc_events, run_concrete_case
    from hv.vm import Monitor
    from hv.terms import Inconclusive, fmt_events, isc
    case = task_to_case(task)
    wn, ww = task['wn'], task['ww']
    Bn, Bw = 8 * wn, 8 * ww
    res = dict(name='%s/w%d-w%d' % (case.name, wn, ww), violations=[], inconclusive=[], harness_errors=[], status='ok')
    st = Stats()

    class NoOvf(Monitor):
        def init(self, vm):
            return {'noovf': ()}

        def rewind(self, vm, st_, snap):
            # a future that halts is part of the run (it decided a jump): its no-overflow conditions are kept
            snap.m['noovf'] = st_.m['noovf']

        def step(self, vm, st_, pc, ins, conds):
            if ins.op == 'flag':
                return
            for a in ins.args:
                if a.kind == 'imm' and a.raw is not None and not (-(1 << (vm.B - 1)) <= a.raw < (1 << (vm.B - 1))):
                    st_.m['noovf'] = st_.m['noovf'] + (z3.BoolVal(False),)      # a constant that does not fit the narrow word

        def arith(self, vm, st_, ins, op, l, r, v):
            if isc(l) and isc(r):
                sl, sr = vm.T.signed(l), vm.T.signed(r)
                exact = {'add': sl + sr, 'sub': sl - sr, 'mul': sl * sr, 'div': (sl // sr) if sr else 0, 'asl': sl << (r if r < 64 else 64)}.get(op)
                if exact is not None and not (-(1 << (vm.B - 1)) <= exact < (1 << (vm.B - 1))):
                    st_.m['noovf'] = st_.m['noovf'] + (z3.BoolVal(False),)
                return
            l_, r_ = vm.T.Z(l), vm.T.Z(r)
            c = None
            if op == 'add':
                c = z3.And(z3.BVAddNoOverflow(l_, r_, True), z3.BVAddNoUnderflow(l_, r_))
            elif op == 'sub':
                c = z3.And(z3.BVSubNoOverflow(l_, r_), z3.BVSubNoUnderflow(l_, r_, True))
            elif op == 'mul':
                c = z3.And(z3.BVMulNoOverflow(l_, r_, True), z3.BVMulNoUnderflow(l_, r_))
            elif op in ('div',):
                c = z3.Not(z3.And(l_ == (1 << (vm.B - 1)), r_ == -1))
            elif op == 'asl':
                c = z3.BVMulNoOverflow(l_, z3.BitVecVal(1, vm.B) << r_, True)
            if c is not None:
                c = z3.simplify(c)
                if not z3.is_true(c):
                    st_.m['noovf'] = st_.m['noovf'] + (c,)
    try:
        cn = H.compile_src(case.src, wn, case.stack, False)
        cw = H.compile_src(case.src, ww, case.stack, False)
    except H.CompilerError as e:
        res['status'] = 'rejected'
        if not task.get('allow_reject'):
            res['harness_errors'].append('%s does not compile: %s' % (case.name, e))
        return res
    bn = build(case.with_(word=wn), compiled=cn, monitor=NoOvf(), max_steps=8000)
    pn = bn.vm.run()
    bw = build(case.with_(word=ww), compiled=cw, max_steps=8000, sym_prefix='W_')
    pw = bw.vm.run()
    st.add_vm(bn.vm, pn)
    st.add_vm(bw.vm, pw)
    res['npaths'] = len(pn)
    res['path_kinds'] = sorted({p.kind for p in pn})
    res['witness'] = fmt_events(pn[0].events, 6) if pn else ''
    # wide inputs := sign/zero extension of the narrow ones
    subs = []
    for name, vals in bn.vm.inputs.items():
        wv = bw.vm.inputs[name]
        if vals and isinstance(vals[0], list):
            for sn, sw in zip(vals, wv):
                for a, b in zip(sn, sw):
                    subs.append((b, a))
        else:
            for a, b in zip(vals, wv):
                if isc(a):
                    continue
                subs.append((b, z3.SignExt(Bw - Bn, a) if a.size() == Bn else a))

    def sub(t):
        return z3.substitute(t, *subs) if subs and not isinstance(t, (bool, int)) else t
    dec = Decider(ww, timeout_ms=task.get('timeout_ms', 15000))
    for p in pn:
        if p.kind in ('bound', 'unknown'):
            res['inconclusive'].append('%s: narrow path %s' % (res['name'], p.kind))
            continue
        fits = list(p.m.get('noovf', ())) if p.m else []
        for q in pw:
            if q.kind in ('bound', 'unknown'):
                res['inconclusive'].append('%s: wide path %s' % (res['name'], q.kind))
                continue
            st.obligations += 1
            conj = list(p.conds) + fits + [sub(c) for c in q.conds]
            # events: bytes equal; words equal after sign extension; flags equal; kinds equal
            differ = None
            if p.kind != q.kind or len(p.events) != len(q.events):
                differ = True
            else:
                ds = []
                for a, b in zip(p.events, q.events):
                    if a[0] != b[0]:
                        differ = True
                        break
                    if a[0] == 'flag':
                        if a[1] != b[1]:
                            differ = True
                            break
                        continue
                    if a[0] == 'out':
                        x, y = dec.T.Z(a[1], 8) if isc(a[1]) else a[1], sub(b[1] if not isc(b[1]) else z3.BitVecVal(b[1], 8))
                    else:
                        x = z3.SignExt(Bw - Bn, z3.BitVecVal(a[1], Bn) if isc(a[1]) else a[1])
                        y = sub(z3.BitVecVal(b[1], Bw) if isc(b[1]) else b[1])
                    d = z3.simplify(x != y)
                    if z3.is_true(d):
                        differ = True
                        break
                    if not z3.is_false(d):
                        ds.append(d)
                if differ is None:
                    differ = z3.Or(*ds) if ds else None
            if differ is None:
                st.discharged += 1
                st.syntactic += 1
                continue
            try:
                m = dec.check(conj + ([differ] if differ is not True else []))
            except Inconclusive as e:
                if '*' in case.src or '/' in case.src or '%' in case.src:
                    res['excluded_nonlinear'] = res.get('excluded_nonlinear', 0) + 1
                    st.obligations -= 1
                else:
                    res['inconclusive'].append('%s: %s' % (res['name'], e))
                continue
            if m is None:
                st.discharged += 1
                continue
            argv = argv_for_compiled(cn, model_argv(bn.vm, m), wn)
            rn = run_concrete_case(case.with_(word=wn), argv)
            rw = run_concrete_case(case.with_(word=ww), argv)

            def norm(evs, B):
                out = []
                for e in evs:
                    if e[0] == 'sleep':
                        out.append(['sleep', e[1] - (1 << B) if e[1] >> (B - 1) else e[1]])
                    else:
                        out.append([e[0], e[1]])
                return out
            if (rn.kind, norm(rn.events, Bn)) == (rw.kind, norm(rw.events, Bw)):
                res['harness_errors'].append('%s: word-size difference did not replay (argv %s)' % (res['name'], argv))
            else:
                res['violations'].append(dict(
                    what='a run whose values fit %d-bit words behaves differently at %d bits' % (Bn, Bw), case=case.name,
                    replay=dict(type='vm-events', src=case.src, word=ww, stack=case.stack, unchecked=False, argv=jsonable_argv(argv),
                                expected=[norm(rn.events, Bn)], expected_kind=rn.kind, observed=dict(kind=rw.kind, events=norm(rw.events, Bw)),
                                note='expected = events of the %d-bit build (sleep words shown signed)' % Bn)))
    st.queries += dec.nq
    st.solver_s += dec.tq
    res['stats'] = st.as_dict()
    return res


AUX_PROG = r'''
import sys, hashlib, json
sys.path.insert(0, sys.argv[1])
sys.dont_write_bytecode = True
from hidc.lexer import SourceCode
from hidc.parser import parse
from hidc.ast import Environment
from hidc.codegen import CodeGen
from hidc.errors import CompilerError
srcs = json.load(open(sys.argv[2]))
out = {}
items = list(srcs.items())
if len(sys.argv) > 3 and sys.argv[3] == 'reversed':
    items.reverse()
for name, src in items:
    for lint in (False, True):
        try:
            env = Environment.empty(unreachable_error=lint)
            parse(SourceCode.from_string(src)).evaluate(env)
            h = hashlib.sha256(b'\n'.join(CodeGen(env, 2, 64, False).gen_lines())).hexdigest()
        except CompilerError as e:
            h = 'rejected'
        out[name + ('|lint' if lint else '')] = h
json.dump(out, sys.stdout)
'''


def aux_differentials(rep, cases):
    """(a) hash seeds / processes and (d) lint: concrete differentials in subprocesses (auxiliary, not solver evidence)"""
    import json
    import tempfile
    root = os.environ.get('HIDC_ROOT', '/repo')
    with tempfile.TemporaryDirectory() as d:
        sp = os.path.join(d, 'srcs.json')
        json.dump({c.name: c.src for c in cases}, open(sp, 'w'))
        pp = os.path.join(d, 'aux.py')
        open(pp, 'w').write(AUX_PROG)
        outs = {}
        # "any process": other hash seeds, interpreter optimisation levels (asserts stripped), another compilation order
        for seed, flags, order in (('0', [], ''), ('1', [], ''), ('2', [], ''), ('12345', [], ''), ('random', [], ''), ('0', ['-O'], ''), ('0', ['-OO'], ''), ('0', [], 'reversed')):
            env = dict(os.environ, PYTHONHASHSEED=seed)
            env.pop('PYTHONOPTIMIZE', None)
            r = subprocess.run([sys.executable] + flags + [pp, root, sp] + ([order] if order else []), capture_output=True, text=True, env=env)
            if r.returncode != 0:
                rep.harness_errors.append('aux differential subprocess failed: %s' % r.stderr[-300:])
                return
            outs[seed + ''.join(' ' + f for f in flags) + (' ' + order if order else '')] = json.loads(r.stdout)
    base = outs['0']
    nd = nl = 0
    for seed, o in outs.items():
        for k, h in o.items():
            nd += 1
            if base[k] != h:
                rep.violation(dict(what='same source and options produce different assembly in another process (PYTHONHASHSEED / interpreter flags / compilation order: %s) than under PYTHONHASHSEED=0' % seed, case=k,
                                   replay=dict(type='none', note='auxiliary concrete differential', src=next((c.src for c in cases if c.name == k.split('|')[0]), None))))
    for k, h in base.items():
        if k.endswith('|lint'):
            nl += 1
            if h != 'rejected' and h != base[k[:-5]]:
                rep.violation(dict(what='--lint changes the generated code of an accepted program', case=k, replay=dict(type='none', note='auxiliary concrete differential')))
    rep.cov['aux_hash_seed_comparisons'] = nd
    rep.cov['aux_lint_comparisons'] = nl
    rep.cov['aux_note'] = 'clauses (a) reproducibility across processes/hash seeds and (d) lint are concrete differentials: not solver-decidable, reported separately from the obligations'


def repro_cases():
    out = []
    out.append(F.C('repro/mixed-literal', "empty o(const int[] a) { write('I'); }\nempty o(const byte[] a) { write('B'); }\nempty @is_you(byte b, int x) { o([1, b]); o([b, 1]); o([x, b]); sleep([1, b][0]); write([b, 2][1]); }\n"))
    out.append(F.C('repro/overload-set', "empty f(int a, byte b) { write('1'); }\nempty f(byte a, int b) { write('2'); }\nempty f(const int[] a) { write('3'); }\nempty f(const byte[] a) { write('4'); }\nempty f(string s) { write('5'); }\n"
                   "empty @is_you(byte b) { f(b, b); f([b]); f([]); f(\"x\"); f([1, 2]); }\n"))
    out.append(F.C('repro/strings-funcs', "string a = \"one\";\nstring b = \"two\";\nint g1 = 1;\nint g2 = 2;\nint p() { return g1; }\nint q() { return g2; }\nint r() { return 3; }\n"
                   "empty @is_you() { write(b); write(a); write(\"three\"); write(\"one\"); sleep(q() + p() + r()); }\n"))
    return out


def main():
    rep = Report(PID, 'translation_validation', 'stack-size sweep and cross-word-size differential on the symbolic VM (z3 decides the equivalence obligations); hash-seed and lint clauses as auxiliary concrete differentials')
    quick = rep.tier == 'quick'
    # (b) stack size
    import c04
    stasks = []
    slice_b = F.seq_enumerated()[1::6 if quick else 2] + F.time_enumerated(rep.tier)[5::24 if quick else 3] + F.entry_matrix()[::4 if quick else 1]
    slice_b += [c for c in F.alloc_templates() if 'write' in c.name or 'temps' in c.name or 'global-index' in c.name or 'high-addr' in c.name]
    for c in slice_b:
        c04.add_tasks(stasks, c.with_(word=2), full=not quick, wall=300)
    nsz = [0]

    def on_sweep(r):
        nsz[0] += r.get('sizes', 0)
    run_tasks(rep, stasks, worker=c04.sweep_task, limit=900, on_result=on_sweep)
    rep.cov['stack_sizes_explored'] = nsz[0]
    # (c) word size
    wcases = [c for c in (F.seq_enumerated() + F.entry_matrix() + F.time_enumerated(rep.tier)[::4 if quick else 1] + F.scope_templates()[::6 if quick else 1]
                          + F.seq_random(rep.seed, 40 if quick else 400))]
    pairs = [(2, 3), (2, 4)] if quick else [(2, 3), (2, 4), (3, 4), (4, 8), (2, 8)]
    wtasks = []
    for i, c in enumerate(wcases):
        for j, (wn, ww) in enumerate(pairs):
            if quick and (i + j) % 2:
                continue
            wtasks.append(case_to_task(c.with_(stack=96), wn=wn, ww=ww, allow_reject='random' in c.name))
    excl = [0]

    def on_w(r):
        excl[0] += r.get('excluded_nonlinear', 0)
    run_tasks(rep, wtasks, worker=width_task, limit=300, on_result=on_w)
    rep.cov['word_size_obligations_excluded_nonlinear'] = excl[0]
    # (a), (d)
    aux_cases = repro_cases() + F.seq_enumerated() + F.time_enumerated('quick')[::3] + F.cf_enumerated()[::5] + F.seq_random(rep.seed, 30 if quick else 300)
    aux_differentials(rep, aux_cases)
    rep.rule = ('(b) family slices swept over every stack size; (c) templates compiled at pairs of word sizes %s with sign-extended inputs under recorded no-overflow conditions; '
                '(a)/(d) auxiliary: %d programs compiled in 8 processes (PYTHONHASHSEED 0/1/2/12345/random, python -O, -OO, reversed compilation order) and with/without lint' % (pairs, len(aux_cases)))
    rep.functions_encoded = ['emitted code under two stack sizes / two word sizes (word-size parametrisation of generator.py and the `w` suffixes of stdlib.py)']
    rep.bounds = dict(word_size_pairs=pairs, stack_sizes='0..56 words, 500 words, and 16375/16377/16378 words (largest accepted at 16 bit; state addresses cross the sign bit)', outside='(c): obligations that need products/quotients of two symbolic operands at two widths time out in the solver and are excluded '
                      '(each width is decided separately in C09); (a) and (d) are not solver-decidable')
    rep.assumptions = ['Sphinx machine model (DESIGN section 3)', '"values fit the narrower word" = no signed overflow in any arithmetic instruction the narrow run executes']
    return rep.finish()


if __name__ == '__main__':
    sys.path.insert(0, os.path.dirname(os.path.abspath(__file__)))
    sys.exit(main())
