"""C15 — --unchecked changes nothing on fault-free runs: the unchecked build is executed once per
fault-free checked path, with that path's condition as its initial assumption; events must agree."""
import os
import sys

sys.path.insert(0, os.path.dirname(os.path.dirname(os.path.abspath(__file__))))
from hv.report import Report
from hv import families as F
from hv.famcheck import run_tasks
from hv.vmri import case_to_task
from hv.diff import diff_task

PID = 'C15'


def main():
    rep = Report(PID, 'translation_validation', 'differential symbolic execution: unchecked build under the path conditions of the fault-free checked paths (z3)')
    quick = rep.tier == 'quick'
    cases = (F.seq_enumerated() + F.entry_matrix() + F.time_enumerated(rep.tier)[::2 if quick else 1] + F.fault_templates() + F.scope_templates()[::2 if quick else 1]
             + F.alloc_templates() + F.op_positions()[::2 if quick else 1] + F.usesite_matrix()[1::3 if quick else 1] + F.seq_random(rep.seed, 100 if quick else 1000) + F.time_random(rep.seed, 60 if quick else 600) + F.time_examples())
    widths = [2, 3] if quick else [2, 3, 4, 8]
    tasks = []
    for W in widths:
        for i, c in enumerate(cases):
            if W != 2 and (i % 3 or 'write-int' in c.name or 'writeln-int' in c.name):
                continue        # write(int) of a symbolic value does not bit-blast above 16 bits (C17 treats it with lemmas); it runs at 16 bits here
            if W == 8 and c.name.startswith(('usesite/', 'oppos/', 'seq/nested-', 'seq/string-index', 'seq/vla-', 'seq/packed', 'seq/const-cast')):
                continue        # product families run at 16/24/32 bit (solver `unknown` on a few 64-bit obligations)
            tasks.append(case_to_task(c.with_(word=W, stack=200 if 'mergesort' in c.name else 96), mode='diff', max_steps=8000, allow_reject='random' in c.name))
    if quick:
        for i, c in enumerate(cases[::8]):
            if 'write-int' not in c.name and 'writeln-int' not in c.name:
                tasks.append(case_to_task(c.with_(word=3 + i % 2, stack=96), mode='diff', max_steps=8000, allow_reject=True))
    # small stacks: a build that leaks array storage (or frames) still agrees at a generous stack; at 20..32 words it does not
    for c in F.alloc_templates() + F.scope_templates()[::3]:
        if any(k in c.name for k in ('repeat-array-calls', 'call-chain', 'rec-arrays', 'lit-elems-callee', 'return-expr', 'mixed-static-dynamic', 'while-vla', 'stop-loop-callee-array', 'stop-deep', 'literal-temporaries', 'entry-point')):
            for stack in (20, 24, 32):
                tasks.append(case_to_task(c.with_(word=2, stack=stack, name='%s/stack%d' % (c.name, stack)), mode='diff', max_steps=8000))
    nfree = [0]

    def on_result(r):
        nfree[0] += r.get('fault_free_paths', 0)
    run_tasks(rep, tasks, worker=diff_task, on_result=on_result)
    rep.cov['fault_free_checked_paths_compared'] = nfree[0]
    rep.rule = 'each template compiled checked and unchecked; one unchecked symbolic run per fault-free checked path; distinct = template x word size'
    rep.functions_encoded = ['all `if not self.unchecked` sites of generator.py as exercised by the families: function-entry guard, VLA length/overflow guards, division guard, index guard, return protection']
    rep.bounds = dict(word_sizes=sorted(set(t['word'] for t in tasks)), instructions_per_path=8000, stack_words=96, outside='programs outside the families')
    rep.assumptions = ['Sphinx machine model (DESIGN section 3)', 'a checked path is fault-free iff none of the four fault flags appears in its events']
    return rep.finish()


if __name__ == '__main__':
    sys.exit(main())
