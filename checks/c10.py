"""C10 — the compiler is total: every input yields assembly or a located diagnostic (PARTIAL claim).

Not reachable by this technique: "all byte/character strings as source".  The regex lexer cannot be executed symbolically
(DESIGN 2.2); that quantifier is not claimed.  Claimed, reduced scope:
 (a) CrossHair: compiler options with symbolic integers are rejected with CodeGenError or representable;
 (b) CrossHair: the parser on token lists (36-token universe, length <= 2 symbolic; length <= 3 enumerated) raises only ParserError;
 (c) the typechecker -> generator interface: every program of the C07 rule x position tables (all types x all expression kinds x
     declaration / assignment / cast / call / return positions) plus generator-assertion probes either fails with a CompilerError
     or compiles, and what is emitted is accepted by the strict assembler (enumerated completely, concrete);
 (d) diagnostics: every CompilerError raised anywhere in (b)-(e) has all its positions inside the source and renders;
 (e) auxiliary: seeded random text / token soups / mutated valid programs through the whole pipeline; the command-line tool's
     exit status, stderr and output file in subprocesses (success, each error class, unwritable output, --lint).
Auxiliary parts are reported separately in the evidence; a failure there is still a genuine violation and is reported.
"""
import itertools
import os
import random
import subprocess
import sys
import tempfile

sys.path.insert(0, os.path.dirname(os.path.dirname(os.path.abspath(__file__))))
from hv.report import Report
from hv.par import pmap

PID = 'C10'


def pipeline(src, word=2, stack=64, unchecked=False, lint=False):
    """returns (kind, detail): 'ok' | 'diagnostic' | 'escape' (internal exception) | 'bad-diagnostic' | 'bad-assembly'"""
    from hv import hidc as H
    from hv.asm import assemble, AsmError
    from hv.harness import sym_argspec
    source = H.SourceCode.from_string(src)
    try:
        env = H.Environment.empty(unreachable_error=lint)
        H.parse(source).evaluate(env)
        lines = list(H.CodeGen(env, word, stack, unchecked).gen_lines())
    except H.CompilerError as e:
        # located diagnostic: every context position inside the source, and it renders
        try:
            txt = e.get_info(source)
            nlines = len(source.lines)
            for sp in e.context:
                for cur in (sp.start, sp.end):
                    if not (0 <= cur.line < max(nlines, 1)):
                        return 'bad-diagnostic', 'position %s outside the source (%d lines): %s' % (cur, nlines, e)
                    if not (0 <= cur.col <= len(source[cur.line])):
                        return 'bad-diagnostic', 'column of %s outside its line: %s' % (cur, e)
            if not isinstance(txt, str) or not txt:
                return 'bad-diagnostic', 'empty rendering'
        except Exception as e2:     # noqa: BLE001
            return 'bad-diagnostic', 'diagnostic does not render: %s: %s (for %s)' % (type(e2).__name__, e2, e)
        return 'diagnostic', type(e).__name__
    except RecursionError:
        return 'diagnostic', 'recursion'      # bounded nesting depth is part of the property statement
    except Exception as e:      # noqa: BLE001
        return 'escape', '%s: %s' % (type(e).__name__, e)
    try:
        class C:
            pass
        c = C()
        c.env = env
        assemble(lines, sym_argspec(c, {}))
    except AsmError as e:
        return 'bad-assembly', str(e)
    except Exception as e:      # noqa: BLE001
        return 'bad-assembly', '%s: %s' % (type(e).__name__, e)
    return 'ok', ''


def pipe_task(task):
    res = dict(name=task['name'], violations=[], n=0, kinds={})
    for src in task['srcs']:
        cfgs = task.get('cfgs') or [(2, 64, False, False)]
        for (w, s, u, l) in cfgs:
            k, d = pipeline(src, w, s, u, l)
            res['n'] += 1
            res['kinds'][k] = res['kinds'].get(k, 0) + 1
            if k == 'escape' and task.get('huge') and 'Exceeds the limit' in d and 'ValueError' in d:
                # known finding (known_findings.json): any other outcome of these sources, or this outcome on any other source, is reported
                res['violations'].append(dict(what='an internal exception escapes the compiler: ' + d, finding_key='huge-radix-literal-str-limit', case=src[:60] + '...'))
                continue
            if k in ('escape', 'bad-diagnostic', 'bad-assembly'):
                res['violations'].append(dict(what={'escape': 'an internal exception escapes the compiler: ', 'bad-diagnostic': 'the diagnostic is not located/renderable: ',
                                                    'bad-assembly': 'the emitted assembly is not accepted by the assembler: '}[k] + d,
                                              case=src[-300:], replay=dict(type='compile', src=src, word=w, stack=s, unchecked=u, lint=l)))
                if len(res['violations']) > 4:
                    return res
    return res


def interface_sources():
    from hv import tcspec as S
    out = []
    for t, e in itertools.product(S.TYPES, S.E):
        out.append(S.PRE + 'empty @is_you() { %s v = %s; }' % (t, e))
        out.append(S.PRE + 'empty f(%s p) {}\nempty @is_you() { f(%s); }' % (t, e))
        out.append(S.PRE + '%s gv = %s;\nempty @is_you() { }' % (t, e))
    for l, op, e in itertools.product(S.LV, ['=', '+=', '/=', '%='], S.E):
        out.append(S.PRE + 'empty @is_you() { %s %s %s; }' % (l, op, e))
    for e, t in itertools.product(S.E, S.SC + ['%s[]' % x for x in S.SC]):
        out.append(S.PRE + 'empty use(bool b) {}\nempty @is_you() { use(((%s) is %s) is bool); }' % (e, t))
        out.append(S.PRE + 'empty @is_you() { if ((%s) is %s) { } }' % (e, t))
    for t, e in itertools.product(S.SC + ['empty'], S.E):
        out.append(S.PRE + '%s f() { return %s; }\nempty @is_you() { f(); }' % (t, e))
    for e in S.E:
        out.append(S.PRE + 'empty @is_you() { write(%s); }' % e)
        out.append(S.PRE + 'empty @is_you() { writeln(%s); sleep((%s) is bool is int); }' % (e, e))
        out.append(S.PRE + 'empty @is_you() { try { !truth_is_defeat((%s) is bool); } undo { } while ((%s) is bool) { break; } }' % (e, e))
        out.append(S.PRE + 'empty @is_you() { sleep((%s).length); }' % e)
        out.append(S.PRE + 'empty @is_you() { int n[%s]; }' % e)
        out.append(S.PRE + 'int gn[%s];\nempty @is_you() { gn[0] = 1; }' % e)
    # every operator over operands of every type, including calls of empty and of value-returning functions: the typechecker must
    # reject what the generator cannot lower (a `??` of two empty calls reaching EmptyAccessor, an array compared with an int, ...)
    PRE2 = S.PRE + 'empty ef() { write(\'e\'); }\nint nf() { return 1; }\nbyte bf() { return 2; }\nbool of() { return true; }\nstring sf() { return "s"; }\n'
    OPND = ['5', "'c'", 'true', '"s"', 'iv', 'bv', 'ov', 'sv', 'ia', 'cba', 'oa', 'sa', '[1, 2]', '[]', 'ef()', 'nf()', 'bf()', 'of()', 'sf()', 'ia[0]', 'sv[0]', 'K']
    BIN = ['??', '+', '/', '<', '==', 'and'] if os.environ.get('VERIF_TIER', 'quick') != 'thorough' else ['??', '+', '-', '*', '/', '%', '<', '<=', '>', '>=', '==', '!=', 'and', 'or']
    for op, a, b in itertools.product(BIN, OPND, OPND):
        out.append(PRE2 + 'empty @is_you() { (%s) %s (%s); }' % (a, op, b))
    for a, b in itertools.product(OPND, OPND):
        out.append(PRE2 + 'empty @is_you() { int v = %s ?? %s; write(%s ?? %s); if (%s ?? %s) { } }' % (a, b, a, b, a, b))
    for a in OPND:
        for un in ('-', '+', 'not '):
            out.append(PRE2 + 'empty @is_you() { %s%s; int v = %s(%s); }' % (un, a, un, a))
        for t in S.SC + ['empty', 'int[]', 'byte[]', 'const byte[]', 'bool[]']:
            out.append(PRE2 + 'empty @is_you() { (%s) is %s; }' % (a, t))
        # one probe per program: a rejected earlier statement must not hide an escape in a later one
        for stmt in ('(%s)[0];', 'ia[%s];', 'ia[%s] = 1;', '(%s).length;', 'sleep((%s).length);', '[%s, %s];', '[%s];', 'sleep([%s].length);', 'sleep([%s][0] is int);', '[1, %s];', '[%s, 1];',
                     'write([%s]);', 'int[] la = [%s];', 'const byte[] lb = [%s];', 'while (%s) { break; }', 'for (; %s;) { break; }', 'for (;; %s) { break; }', 'for (%s;;) { break; }',
                     'try { !truth_is_defeat(%s); } undo { }', 'if (%s) { }', '%s;', 'int lv[%s];', 'nf2(%s, 1);', 'nf2(1, %s);', 'iv = %s;', 'iv += %s;', 'ia[0] = %s;', 'ba[0] += %s;',
                     'sleep(%s);', 'write(%s);', 'writeln(%s);'):
            out.append(PRE2 + 'int nf2(int p, int q) { return p; }\nempty @is_you() { %s }' % stmt.replace('%s', a))
        for rt in ('empty', 'int', 'byte', 'bool', 'string'):
            out.append(PRE2 + '%s g() { return %s; }\nempty @is_you() { g(); }' % (rt, a))
    # generator-assertion probes and entry-point rules
    P = 'empty @is_you() { %s }'
    probes = [
        P % 'bool[] a = [true, false, true, false, true, false, true, false]; write(a[0]);',
        P % 'bool[] a = [true, false, true, false, true, false, true, false, true, false, true, false, true, false, true, false]; a[15] = a[0];',
        'const bool[] g = [true, false, true, false, true, false, true, false];\n' + P % 'write(g[7]);',
        'bool[] g = [];\n' + P % 'sleep(g.length);',
        P % 'bool[] a = []; sleep(a.length);',
        P % 'int[] a = []; byte[] b = []; string[] s = []; sleep(a.length + b.length + s.length);',
        P % 'bool a[8]; a[7] = true; bool b[0];',
        P % 'string s = "ab"; s[0] = \'c\';',
        P % 'write("\\\\"); write(\'\\\\\'); write("\\"\\n\\r\\t\\0");',
        # every spelled escape, in every place a character or string constant is rendered into the assembly
        P % "write('\\''); write('\"'); write('\\\\'); write('\\n'); write('\\r'); write('\\t'); write('\\0'); write('\\x27'); write('\\x22'); write('\\x5c'); write('\\x7f'); write('\\xff');",
        "byte q = '\\'';\nbyte d = '\"';\nbyte bs = '\\\\';\nconst byte[] qs = ['\\'', '\"', '\\\\', '\\n'];\nbyte[] ms = ['\\'', 'z'];\n" + P % "write(q); write(d); write(bs); write(qs); write(ms); if (q == '\\'') { write(\"it's\"); } byte l = '\\''; l += '\\''; byte[] la = ['\\'', '\"']; write(la);",
        P % "write(\"say \\\"hi\\\" and 'bye' \\\\ \\x27 \\x22\"); string s = \"'\"; write(s); write(\"\\\"\"); string[] t = [\"'\", \"\\\"\", \"\\\\\"]; write(t[0]); write(t[1]); write(\"'\"[0]); const byte[] b = \"'\\\"\" is byte[]; write(b);",
        # label names: user identifiers that look like the generator's numbered labels
        'empty show(int a) { write(a); }\nempty show(string s) { write(s); }\nempty show_1() { write(1); }\nempty show_0() { }\n' + P % 'show(1); show("x"); show_1(); show_0();',
        'empty f() { }\nempty @f() { }\nempty !f() { }\nempty f_1() { }\nempty f_2() { }\nempty @f_1() { }\n' + P % 'f(); @f(); try { !f(); } undo { } f_1(); f_2(); @f_1();',
        'int loop_0 = 1;\nint end_call_0 = 2;\nint var_x_0 = 3;\nempty func_f_0() { }\nempty is_you_0() { }\n' + P % 'for (int i = 0; i < loop_0; i += 1) { func_f_0(); is_you_0(); } sleep(end_call_0 + var_x_0);',
        'int r0 = 1;\nint fp = 2;\nint ap = 3;\nint stack_start = 4;\nint halt = 5;\nint tnt = 6;\nempty write_int() { }\nempty stack_overflow() { }\n' + P % 'write_int(); stack_overflow(); sleep(r0 + fp + ap + stack_start + halt + tnt);',
        # several arrays declared in one block (static and dynamic lengths), checked and unchecked
        P % 'int n = 2; int a[n]; int b[n]; a[0] = 1; b[1] = 2; sleep(a[0] + b[1]);',
        P % 'int n = 2; byte a[n]; bool b[n + 7]; string c[n]; int d[3]; a[0] = 1; b[8] = true; c[1] = "s"; d[2] = 4; { int e[n]; int f[n]; e[0] = 1; f[1] = 2; }',
        P % 'write([]); write([] is byte[]);',
        P % 'sleep([][0]);',
        P % 'sleep(([1, 2] is byte[])[0]); sleep([1, 2].length); sleep(([1] is bool) is int);',
        P % 'int x = 1 ?? 2; bool b = true ?? false; sleep(x);',
        P % 'while (true) { } write(\'x\');',
        P % 'for (;;) { break; } for (int i = 0;; i += 1) { if (i > 2) { break; } }',
        P % 'all_is_win(); write(\'x\');',
        P % '{ { { } } } ;;; { ; }',
        # parameters named like globals of another kind, in functions generated before / after the ones that use the global
        'int[] data = [1, 2, 3];\nint total = 0;\nstring name = "n";\nint first(int data) { return data + 1; }\nint second() { return data[1] + data.length; }\nint third(const int[] total) { return total[0]; }\nint fourth() { total += 1; return total; }\n'
        'empty fifth(byte name) { write(name); }\nempty sixth() { write(name); write(name[0]); }\n' + P % 'sleep(first(4)); sleep(second()); sleep(third(data)); sleep(fourth()); fifth(65); sixth();',
        'int[] data = [1, 2, 3];\nint uses() { return data[0] + data.length; }\nempty @is_you(int data) { sleep(data); sleep(uses()); }',
        'int v = 3;\nint uses() { return v * 2; }\nempty @is_you(const int[] v) { sleep(v.length); sleep(uses()); }',
        'bool[] flags = [true, false];\nbool g1() { return flags[1]; }\nint g2(int flags) { return flags; }\nbool g3() { return flags[0]; }\n' + P % 'sleep(g2(1)); sleep(g1() is int); sleep(g3() is int);',
        # folded arithmetic over character constants whose result leaves the byte range, in every consumer
        P % "sleep('a' - 'z'); sleep('a' * 3); sleep(-'a'); int x = 5; sleep(x + ('0' - 'A')); writeln('A' - 'a'); write(('a' + 'b') is byte); int[] t = ['a' * 4, 'z' - 'a' - 30]; sleep(t[0] + t[1]); if ('a' - 'b' < 0) { write('n'); }",
        "const int KD = 'A' - 'a';\nconst int KM = 'z' * 2;\nint gd = 'a' - 'z';\nint[] ga = ['a' * 3, -'b'];\n" + P % "sleep(KD); sleep(KM); sleep(gd); sleep(ga[0] + ga[1]); writeln(KD); int n[KM - 240];",
        'empty @is_you() { }\nempty @is_you(int a) { }',
        'int @is_you() { return 1; }',
        'empty f() { }',
        '',
        ';;;',
        'empty @is_you(bool b) { }',
        'empty @is_you(const bool[] b) { }',
        'empty @is_you(string[] s) { }',
        'empty @is_you(int[] a, byte[] b) { }',
        'empty @is_you(const string[] s, int x, byte y, string z) { write(z); }',
        'int g = f();\nint f() { return 1; }\n' + P % '',
        'int g[3];\nint h[g.length];\n' + P % 'h[0] = 1;',
        'int n = 3;\nint g[n];\n' + P % 'g[0] = 1;',
        'int g[70000];\n' + P % 'g[0] = 1;',
        'byte g[40000];\n' + P % 'g[0] = 1;',
        'int g[-1];\n' + P % 'g[0] = 1;',
        'const int[] g = [1, 2, x];\nint x = 1;\n' + P % '',
        'string[] g = ["a", "b"];\n' + P % 'g[0] = "c"; write(g[0]);',
        'empty !d() { preempt { } }\n' + P % 'try { !d(); } undo { }',
        'int !d() { !is_defeat(); }\n' + P % 'try { sleep(!d()); } stop { }',
        P % 'try { } undo { }  try { } stop { }',
        P % 'int i = 0; i = i; i += i; i /= 1; i %= 1;',
        P % 'byte b = \'a\'; b += 1; b *= b; b = b / 1 is byte;',
        'empty write(int a) { }\n' + P % '',
        'empty writeln() { }\n' + P % '',
        'empty sleep(int t) { }\n' + P % '',
        'empty !is_defeat() { }\n' + P % '',
        'empty all_is_win() { }\n' + P % '',
        'empty f(int a) { }\nempty f(int b) { }\n' + P % '',
        'int g = 1;\nint g = 2;\n' + P % '',
        P % 'int x = 1; int x = 2;',
        P % 'try { !is_defeat(); } stop { write(\'s\'); }',
        P % 'try { !truth_is_defeat(true); } stop { } try { } stop { }',
        'empty !never() { !is_defeat(); }\n' + P % 'try { write(\'a\'); } stop { write(\'s\'); }',
        P % 'int i = 0; while (true) { try { if (i > 2) { break; } i += 1; !truth_is_defeat(i == 2); } stop { continue; } }',
    ]
    out += probes
    return out


def random_sources(seed, n):
    """random text, token soups and mutated valid programs (auxiliary)"""
    from hv import families as F
    rng = random.Random(seed)
    toks = ['int', 'byte', 'bool', 'string', 'empty', 'const', 'if', 'else', 'while', 'for', 'try', 'undo', 'stop', 'preempt', 'return', 'break', 'continue', 'is', 'not', 'and', 'or',
            'true', 'false', '@is_you', '!f', '@g', 'x', 'y', 'f', '(', ')', '{', '}', '[', ']', ';', ',', '.', '=', '+=', '==', '!=', '<', '<=', '+', '-', '*', '/', '%', '??',
            '0', '1', '0x1f', '0b10', '1_0', '"s"', "'c'", '"\\n"', "'\\''", 'length', '//c\n', '\n', ' ', '"', "'", '\\', '0x', '@', '!', '#', '$', 'é', '\t', '\x00']
    valid = [c.src for c in F.seq_enumerated()[::4] + F.time_enumerated('quick')[::11] + F.cf_enumerated()[::13]]
    out = []
    for i in range(n):
        r = rng.random()
        if r < 0.3:
            out.append(' '.join(rng.choice(toks) for _ in range(rng.randrange(1, 25))))
        elif r < 0.45:
            out.append(''.join(chr(rng.choice([rng.randrange(32, 127), rng.randrange(0, 256), rng.randrange(0, 0x3000)])) for _ in range(rng.randrange(0, 40))))
        else:
            s = rng.choice(valid)
            for _ in range(rng.randrange(1, 4)):
                m = rng.random()
                p = rng.randrange(len(s) + 1)
                if m < 0.35:
                    q = min(len(s), p + rng.randrange(1, 8))
                    s = s[:p] + s[q:]
                elif m < 0.7:
                    s = s[:p] + rng.choice(toks) + s[p:]
                else:
                    q = min(len(s), p + rng.randrange(1, 12))
                    s = s[:p] + s[p:q] + s[p:q] + s[q:]
            out.append(s)
    # nesting (bounded depth) and ends of file
    for d in (1, 5, 40):
        out.append('empty @is_you() { sleep(' + '(' * d + '1' + ')' * d + '); }')
        out.append('empty @is_you() { ' + '{' * d + '}' * d + ' }')
        out.append('empty @is_you() { sleep(' + '-' * d + '1); }')
    for tail in ('', '{', '(', '"', "'", '\\', '//', '/', '0x', '1_', '@', 'empty @is_you() {', 'empty @is_you(', 'int x =', 'int x = 1', 'int x[', 'empty f() { return', 'empty f() { x = [1,'):
        out.append('int g = 1;\n' + tail)
        out.append(tail)
    return out


def token_soup_task(task):
    """the parser on every token list of length <= 3 over the CrossHair harness' universe, from each rule entry point"""
    import importlib.util
    V = os.path.dirname(os.path.dirname(os.path.abspath(__file__)))
    sys.path.insert(0, os.environ.get('HIDC_ROOT', '/repo'))
    spec = importlib.util.spec_from_file_location('c10_total', os.path.join(V, 'ch', 'c10_total.py'))
    m = importlib.util.module_from_spec(spec)
    spec.loader.exec_module(m)
    res = dict(name='soup-%d' % task['a'], violations=[], n=0)
    a = task['a']
    for r in range(m.NR):
        for b in range(-1, m.NU):
            for c in (range(-1, m.NU) if b >= 0 else [-1]):
                toks = [m.UNIVERSE[a]] + ([m.UNIVERSE[b]] if b >= 0 else []) + ([m.UNIVERSE[c]] if c >= 0 else [])
                res['n'] += 1
                try:
                    m._parse_only_parser_error(r, toks)
                except Exception as e:     # noqa: BLE001
                    res['violations'].append(dict(what='the parser raises %s on a token list: %s' % (type(e).__name__, e), case=str(toks), replay=dict(type='none')))
                    if len(res['violations']) > 3:
                        return res
    return res


def cli_checks(rep):
    """auxiliary: python -m hidc in subprocesses"""
    root = os.environ.get('HIDC_ROOT', '/repo')
    py = '/venv/bin/python' if os.path.exists('/venv/bin/python') else sys.executable
    ok_src = 'empty @is_you(int a) { write(a); }\n'
    cases = [('success', ok_src, [], 0, True), ('success-opts', ok_src, ['-m24', '-s100', '--unchecked', '--lint'], 0, True),
             ('lexer-error', 'empty @is_you() { write("x); }\n', [], 1, False), ('parser-error', 'empty @is_you() { write(; }\n', [], 1, False),
             ('type-error', 'empty @is_you() { int x = "s"; }\n', [], 1, False), ('codegen-error-no-entry', 'empty f() { }\n', [], 1, False),
             ('codegen-error-bool-param', 'empty @is_you(bool b) { }\n', [], 1, False), ('codegen-error-global', 'int g[3];\nint h[g.length];\nempty @is_you() { h[0] = 1; }\n', [], 1, False),
             ('negative-stack', ok_src, ['-s-1'], 1, False), ('huge-stack', ok_src, ['-s70000'], 1, False), ('small-word', ok_src, ['-m8'], 1, False), ('odd-word', ok_src, ['-m12'], 2, False),
             ('lint-reject', 'empty @is_you() { return; write(\'x\'); }\n', ['--lint'], 1, False), ('lint-off-accept', 'empty @is_you() { return; write(\'x\'); }\n', [], 0, True),
             ('empty-file', '', [], 1, False)]
    n = 0
    with tempfile.TemporaryDirectory() as d:
        for name, src, opts, exp_rc, exp_file in cases:
            sp = os.path.join(d, name + '.hid')
            op = os.path.join(d, name + '.s')
            open(sp, 'w').write(src)
            r = subprocess.run([py, '-m', 'hidc', sp, '-o', op] + opts, cwd=root, capture_output=True, text=True, env=dict(os.environ, PYTHONDONTWRITEBYTECODE='1'))
            n += 1
            rep.counts['obligations'] += 1
            problems = []
            if (r.returncode == 0) != (exp_rc == 0) or (exp_rc == 0 and r.returncode != 0):
                problems.append('exit status %d, expected %s' % (r.returncode, 'zero' if exp_rc == 0 else 'non-zero'))
            if 'Traceback' in r.stderr:
                problems.append('traceback on stderr: %s' % r.stderr.strip().splitlines()[-1])
            if os.path.exists(op) != exp_file:
                problems.append('output file %s' % ('left behind after a failed compilation (%d bytes)' % os.path.getsize(op) if os.path.exists(op) else 'missing after success'))
            if exp_file and os.path.exists(op):
                from hv.asm import assemble, AsmError
                try:
                    assemble([l.rstrip(b'\n') for l in open(op, 'rb')], {'a': {'n': 1}})
                except AsmError as e:
                    problems.append('output file is not complete assembly: %s' % e)
            if exp_rc != 0 and r.returncode != 0 and not r.stderr.strip():
                problems.append('no diagnostic on stderr')
            if problems:
                rep.violation(dict(what='command-line tool (%s): %s' % (name, '; '.join(problems)), case=src, replay=dict(type='cli', src=src, opts=opts)))
            else:
                rep.counts['discharged'] += 1
        # unwritable output
        sp = os.path.join(d, 'w.hid')
        open(sp, 'w').write(ok_src)
        r = subprocess.run([py, '-m', 'hidc', sp, '-o', os.path.join(d, 'no', 'such', 'dir', 'x.s')], cwd=root, capture_output=True, text=True)
        n += 1
        rep.counts['obligations'] += 1
        if r.returncode == 0 or 'Traceback' in r.stderr:
            rep.violation(dict(what='command-line tool: unwritable output gives exit %d / traceback' % r.returncode, replay=dict(type='cli', src=ok_src, opts=['-o', '<missing dir>'])))
        else:
            rep.counts['discharged'] += 1
    rep.cov['aux_cli_runs'] = n


def main():
    rep = Report(PID, 'other', 'CrossHair on compiler options and on the parser over short token lists; complete enumeration of the typechecker-to-generator interface tables with the strict assembler as oracle')
    quick = rep.tier == 'quick'
    from hv import chx
    chx.run_into(rep, 'c10', per_condition_timeout=700 if quick else 1200)
    kinds = {}
    n = 0
    srcs = interface_sources()
    cfgs = [(2, 64, False, False), (3, 64, True, False)] if quick else [(2, 64, False, False), (3, 64, True, False), (4, 30, False, True), (8, 64, True, True)]
    tasks = [dict(name='iface-%d' % i, srcs=srcs[i::32], cfgs=cfgs) for i in range(32)]
    # absurdly long literals: the lexer must answer with a diagnostic (two repaired defects: a decimal literal beyond int()'s digit
    # limit, a \\u{...} escape beyond chr()'s range); huge literals in the other radixes are the known finding huge-radix-literal-str-limit
    Pm = 'empty @is_you() { %s }\n'
    long_srcs = [Pm % ('int x = ' + '9' * n + '; sleep(x);') for n in (4300, 4301, 5000, 20000)] + ['int g = ' + '9' * 5000 + ';\n' + Pm % 'sleep(g);', Pm % ('sleep(1_' + '0' * 6000 + ');'),
                                                                                                 Pm % "write('\\u{FFFFFFFFFFFFFFFFFFFFFFFF}');", Pm % 'write("\\u{110000}\\u{FFFFFFFFF}");',
                                                                                                 Pm % "write('\\u{7FFFFFFF}'); write('\\u{80000000}');"]
    tasks.append(dict(name='long-literals', srcs=long_srcs))
    huge_srcs = [Pm % ('int x = 0x' + 'f' * 6000 + '; sleep(x);'), Pm % ('int x = 0b' + '1' * 20000 + '; sleep(x);'), Pm % ('int x = 0o' + '7' * 8000 + '; sleep(x);'),
                 'int g = 0x' + 'f' * 6000 + ';\n' + Pm % 'sleep(g);', Pm % ('int a[0x' + 'f' * 6000 + '];')]
    tasks.append(dict(name='huge-radix-literals', srcs=huge_srcs, huge=True))
    rnd = random_sources(rep.seed, 1500 if quick else 20000)
    tasks += [dict(name='random-%d' % i, srcs=rnd[i::16]) for i in range(16)]
    for r in pmap(pipe_task, tasks, limit=1200):
        rep.absorb(r)
        n += r.get('n', 0)
        for k, v in r.get('kinds', {}).items():
            kinds[k] = kinds.get(k, 0) + v
    ns = 0
    import importlib.util
    for r in pmap(token_soup_task, [dict(a=a) for a in range(36)], limit=1200):
        rep.absorb(r)
        ns += r.get('n', 0)
    cli_checks(rep)
    rep.counts['evaluations'] += n + ns
    rep.cov['pipeline_outcomes'] = kinds
    rep.cov['interface_programs'] = len(srcs)
    rep.cov['aux_random_sources'] = len(rnd)
    rep.cov['token_lists_enumerated'] = ns
    rep.explanation = ('Partial claim. Solver-decided (CrossHair, confirmed over all paths): option handling and parser totality on token lists of length <= 2 from 6 rule entry points. '
                       'The interface between typechecker and generator is enumerated completely over the C07 rule tables (every accepted tree must compile and assemble, every rejection must be a '
                       'located, renderable CompilerError). Source text as an arbitrary string is outside this technique here and is only sampled (auxiliary).')
    rep.rule = 'see explanation; distinct = harness function or interface program'
    rep.functions_encoded = ['CodeGen.__post_init__ (options, entry point rules), hidc/parser/rules.py + grammar.py on token lists, CompilerError.get_info, hidc/__main__.py (subprocess)']
    rep.bounds = dict(token_list_length='<= 2 symbolic, <= 3 enumerated', outside='arbitrary source text (lexer not symbolically executable); nesting deeper than Python\'s recursion limit')
    rep.assumptions = ['strict assembler of hv/asm.py as the acceptance oracle for emitted text']
    for k in range(min(3, len(srcs))):
        rep.sample(dict(interface_program=srcs[k * 997 % len(srcs)][-120:]))
    return rep.finish()


if __name__ == '__main__':
    sys.exit(main())
