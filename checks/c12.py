"""C12 — lexing is exact and independent of layout (partial claim, see DESIGN.md section 5).

Solver-decided (strings of unbounded length, z3 regular-expression / string theory on the lexer's OWN compiled patterns):
  RX1  every pattern of hidc/lexer/readers.py is language-equivalent to the documented grammar (ASCII reading of \\d \\w \\s);
  RX2  reader-order obligations: a hex/octal/binary literal is never shadowed by the decimal reader; no symbol token is a prefix
       of an identifier; a comment opener only starts outside the other token classes' first characters;
  RX3  longest match for symbols: in the real `symbol_tokens` list no earlier entry is a proper prefix of a later one;
  CH   CrossHair on the regex-free scanner glue (ch/c12_glue.py): cursor/span bookkeeping with symbolic lines and columns.
Finite tables compared directly: keyword table, symbol table, escape codes, enum spellings.
Not solver-decidable here (the regex engine cannot be executed symbolically, DESIGN 2.2): the composition of these pieces in lex().
It is guarded by concrete differentials against an independent reference tokenizer (hv/lexref.py): every string of length <= 3 over
a 34-character alphabet, targeted literals, every escape, UTF-8 text, exotic white space, and re-layout of token sequences
(token stream and emitted instructions unchanged).  These are reported separately in the evidence (auxiliary).
"""
import itertools
import os
import random
import sys

sys.path.insert(0, os.path.dirname(os.path.dirname(os.path.abspath(__file__))))
from hv.report import Report
from hv.par import pmap

PID = 'C12'


def rx_obligations(rep):
    import time
    import z3
    from hv import hidc as H     # noqa: F401  (puts the repository on sys.path)
    from hv import rx
    from hidc.lexer import readers
    from hidc.lexer import tokens as T
    s, p, q = z3.String('s'), z3.String('p'), z3.String('q')

    def decide(name, constraints, expect_unsat=True, functions=None):
        rep.counts['obligations'] += 1
        sol = z3.Solver()
        sol.set('timeout', 60000)
        sol.add(*constraints)
        t = time.time()
        r = sol.check()
        dt = time.time() - t
        rep.counts['queries'] += 1
        rep.counts['solver_s'] += dt
        if r == z3.unknown:
            rep.inconclusive.append('RX %s: solver unknown' % name)
        elif (r == z3.unsat) == expect_unsat:
            rep.counts['discharged'] += 1
            rep.distinct_keys.add('rx:' + name)
        else:
            w = sol.model() if r == z3.sat else None
            wit = {str(d): str(w[d]) for d in w.decls()} if w is not None else None
            rep.violation(dict(what='lexer regex obligation fails: %s' % name, witness=wit, replay=dict(type='none', note='witness string(s): %s' % wit)))
        rep.sample(dict(rx_obligation=name, verdict=str(r), solver_s=round(dt, 3)), limit=30)

    spec = rx.spec_grammars()
    impl = {}
    for name in spec:
        impl[name] = rx.pat(getattr(readers, name))
        decide('pattern %s == documented grammar' % name, [z3.InRe(s, impl[name]) != z3.InRe(s, spec[name])])
        # vacuity: the languages are not empty
        decide('pattern %s is non-empty (vacuity)' % name, [z3.InRe(s, impl[name])], expect_unsat=False)
    # RX2 reader order
    for pre in ('hex_literal', 'oct_literal', 'bin_literal'):
        decide('%s never shadowed by the decimal reader' % pre,
               [z3.PrefixOf(p, s), z3.PrefixOf(q, s), z3.InRe(p, impl[pre]), z3.InRe(q, impl['dec_literal']), z3.Length(q) >= z3.Length(p)])
    syms = [str(x) for x in readers.symbol_tokens]
    decide('no symbol token is a prefix of an identifier', [z3.InRe(p, impl['ident_pattern']), z3.Or(*[z3.PrefixOf(z3.StringVal(y), p) for y in syms])])
    decide('no symbol token starts a decimal literal, a string or a character literal',
           [z3.Or(z3.InRe(p, impl['dec_literal']), z3.PrefixOf(z3.StringVal('"'), p), z3.PrefixOf(z3.StringVal("'"), p)), z3.Length(p) > 0,
            z3.Or(*[z3.PrefixOf(z3.StringVal(y), p) for y in syms])])
    decide('a keyword is matched by the identifier pattern as a whole (never split)',
           [z3.Or(*[z3.Not(z3.InRe(z3.StringVal(k), impl['ident_pattern'])) for k in readers.keyword_tokens])])
    decide('an identifier never starts with a digit (int reader and identifier reader are disjoint on first character)',
           [z3.InRe(p, impl['ident_pattern']), z3.InRe(q, impl['dec_literal']), z3.Length(p) > 0, z3.Length(q) > 0, z3.SubString(p, 0, 1) == z3.SubString(q, 0, 1)])
    decide('ignore never consumes the first character of a token other than / (comments)',
           [z3.InRe(p, impl['ignore']), z3.Length(p) > 0, z3.Not(z3.InRe(z3.SubString(p, 0, 1), rx.WS)), z3.SubString(p, 0, 1) != z3.StringVal('/')])
    # RX3 longest symbol match: first list entry that prefixes s is the longest symbol that prefixes s
    i, j = z3.Int('i'), z3.Int('j')
    arr = z3.Array('syms', z3.IntSort(), z3.StringSort())
    cons = [arr[k] == z3.StringVal(v) for k, v in enumerate(syms)]
    decide('longest-match for symbols (no earlier list entry is shorter than a later one that also matches)',
           cons + [0 <= i, i < j, j < len(syms), z3.PrefixOf(arr[i], s), z3.PrefixOf(arr[j], s), z3.Length(arr[j]) > z3.Length(arr[i])])
    # ---- finite tables against the documentation
    doc_kw = {'or', 'and', 'not', 'is', 'break', 'continue', 'return', 'const', 'if', 'else', 'while', 'for', 'try', 'undo', 'stop', 'preempt',
              'int', 'bool', 'byte', 'string', 'empty', 'true', 'false'}
    doc_sym = {'+', '-', '*', '/', '%', '==', '!=', '<', '>', '<=', '>=', '??', '+=', '-=', '*=', '/=', '%=', '=', ';', ',', '.', '(', ')', '{', '}', '[', ']'}
    doc_esc = {'a': '\a', 'b': '\b', 'f': '\f', 'n': '\n', 'r': '\r', 't': '\t', '0': '\0', "'": "'", '"': '"', '\\': '\\'}
    for name, got, want in (('keyword table', set(readers.keyword_tokens), doc_kw), ('symbol table', set(syms), doc_sym),
                            ('escape codes', dict(readers.escape_codes), doc_esc),
                            ('keyword -> token spelling', {k: str(v) for k, v in readers.keyword_tokens.items()}, {k: k for k in doc_kw})):
        rep.counts['obligations'] += 1
        if got == want:
            rep.counts['discharged'] += 1
        else:
            rep.violation(dict(what='lexer table differs from the documentation: %s' % name, got=str(got)[:400], want=str(want)[:400], replay=dict(type='none')))
    rep.functions_encoded += ['hidc/lexer/readers.py patterns: ' + ', '.join(spec), 'readers.symbol_tokens, keyword_tokens, escape_codes']


def diff_task(task):
    """concrete differential: real lexer vs reference tokenizer (auxiliary)"""
    from hv import hidc as H     # noqa: F401
    from hv import lexref
    res = dict(name=task['name'], violations=[], n=0)
    for src in task['srcs']:
        res['n'] += 1
        r = lexref.cmp(src)
        if r:
            res['violations'].append(dict(what='real lexer and reference tokenizer disagree', case=repr(src), reference=lexref.safe(r[1]), real=lexref.safe(r[2]),
                                          replay=dict(type='lex', src=src)))
            if len(res['violations']) > 4:
                break
    return res


def layout_task(task):
    """token sequences rendered with two different inter-token layouts: same tokens, same emitted instructions"""
    from hv import hidc as H
    rng = random.Random(task['seed'])
    res = dict(name='layout-%d' % task['seed'], violations=[], n=0)
    from hv import families as F
    progs = [c.src for c in F.seq_enumerated()[::5] + F.time_enumerated('quick')[::17] + F.cf_enumerated()[::23]]
    seps = [' ', '  ', '\t', '\n', ' \n ', ' // c\n', '\n\n', ' //\n', '\r\n', ' // x = "y" ; \n']
    for src in progs[task['lo']::task['step']]:
        try:
            lx = list(H.lex(H.SourceCode.from_string(src)))
        except H.CompilerError:
            continue
        lines = src.split('\n')

        def text(l):
            return lines[l.span.start.line][l.span.start.col:l.span.end.col]
        toks = [text(l) for l in lx]
        # spans: exactly the text the token came from, same line
        res['n'] += 1
        for l in lx:
            if l.span.start.line != l.span.end.line or not text(l):
                res['violations'].append(dict(what='token span does not cover its text', case=str(l), replay=dict(type='lex', src=src)))
        out = [toks[0]] if toks else []
        for t in toks[1:]:
            out.append(rng.choice(seps))
            out.append(t)
        src2 = rng.choice(['', '\n', '  ', '// head\n']) + ''.join(out) + rng.choice(['', '\n', ' ', ' // tail', '\n\n'])
        try:
            lx2 = list(H.lex(H.SourceCode.from_string(src2)))
            same = [l.token for l in lx] == [l.token for l in lx2]
        except H.CompilerError as e:
            same = False
        if not same:
            res['violations'].append(dict(what='changing only the layout between tokens changes the token sequence', case=src2[:300], replay=dict(type='lex', src=src2)))
            continue
        try:
            a = [l for l in H.compile_src(src, 2, 64).lines if not l.strip().startswith(b';')]
        except H.CompilerError:
            continue        # the original is rejected by a later stage: nothing to compare
        try:
            b = [l for l in H.compile_src(src2, 2, 64).lines if not l.strip().startswith(b';')]
            if a != b:
                res['violations'].append(dict(what='changing only the layout changes the emitted instructions', case=src2[:300], replay=dict(type='lex', src=src2)))
        except H.CompilerError as e:
            res['violations'].append(dict(what='re-laid-out program no longer compiles: %s' % e, case=src2[:300], replay=dict(type='lex', src=src2)))
    return res


def main():
    rep = Report(PID, 'other', 'z3 regular-expression/string theory on the lexer\'s compiled patterns (language equivalence, reader-order and longest-match obligations); CrossHair on the scanner glue')
    quick = rep.tier == 'quick'
    rx_obligations(rep)
    from hv import chx
    chx.run_into(rep, 'c12', per_condition_timeout=400 if quick else 600)
    # ---- Scanner.__bool__ / linebreak(): exhaustive over two lines of <= 2 characters and every cursor position
    from hv import hidc as H     # noqa: F401
    from hidc.lexer.scanner import Scanner, SourceCode
    nsc = 0
    for l0 in ['', 'a', 'ab']:
        for l1 in ['', 'c', 'cd']:
            for line in (0, 1):
                for col in range(len([l0, l1][line]) + 1):
                    sc = Scanner(SourceCode('f', [l0, l1]), line, col)
                    at_end = col >= len([l0, l1][line])
                    more = not (at_end and line >= 1)
                    good = bool(sc) == more and sc.eol == at_end
                    moved = sc.linebreak()
                    good = good and (moved == (at_end and line == 0)) and ((sc.line, sc.col) == ((1, 0) if moved else (line, col)))
                    nsc += 1
                    rep.counts['obligations'] += 1
                    if good:
                        rep.counts['discharged'] += 1
                    else:
                        rep.violation(dict(what='Scanner.__bool__/linebreak bookkeeping wrong', case=repr((l0, l1, line, col)), replay=dict(type='none')))
    rep.cov['scanner_linebreak_cases_enumerated'] = nsc
    # ---- auxiliary concrete differentials against the reference tokenizer
    alpha = ['a', 'x', 'b', 'o', '_', '0', '1', '7', '9', 'f', 'n', ' ', '\n', '/', '*', '=', '!', '<', '+', '-', '?', '@', '"', "'", '\\', '.', '(', '[', 'u', '{', '}', '\t', ';', '%']
    srcs = [''.join(t) for L in range(0, 4) for t in itertools.product(alpha, repeat=L)]
    if not quick:
        # thorough: every string of length 4 over the 20 most interaction-prone characters
        alpha4 = ['a', 'x', 'b', 'o', '_', '0', '1', '7', ' ', '\n', '/', '=', '!', '<', '?', '@', '"', "'", '\\', '%']
        srcs += [''.join(t) for t in itertools.product(alpha4, repeat=4)]
    extra = ['0x_1', '0x1_f', '1__2', '0b102', '0o78', 'is', 'isx', 'or1', 'a//b\nc', 'a // b // c', '"a\\x41\\u{1F30E}\\n"', "'\\x41'", "'\\''", '"\\""', "'ab'", "'\\u{41}'", "'\\u{e9}'",
             '"\\u{D800}"', '"\\u{110000}"', 'x\t=\ty', '@is_you', '!is_defeat', '@if', '!=', '! =', 'a!=b', 'a! b', '??', '? ?', '>==', '<==>', '1.length', 'a.length', "'\n'", '"a\nb"',
             '0xg', '00', '007', '1e5', 'trueish', 'true', '1_000', '0xFF', '0b1_0', '0o17', '0X1', '1_', '_1', '0x', '"\\0\\a\\b\\f\\n\\r\\t\\\\\\\'\\""', "'\\0'", '"\\q"', '"\\x4"', '"\\xg1"',
             '"\\u{}"', '"\\u{41"', '"café \U0001F30E"', "'é'", "'\u007f'", 'a\x0bb', 'a\x0cb', 'a // x\x0by\nb', 'a // x\x0cy\nb', 'a // x\x1cy\nb', 'a // x\x1dy\nb', 'a // x\x1ey\nb',
             'a // x\x85y\nb', 'a // x y\nb', 'a // x y\nb', '"x\x0by"', '"x\x0cy"', '"x\x1cy"', '"x\x85y"', '"x y"', "'\x0b'", 'a // c\r\nb', 'a\r\nb', '"a\rb"',
             'if(x){y=1;}else{y=2;}', 'x+=1;y-=-1;', 'a<=b>=c==d!=e', 'int[]x=[1,2];', 'x??y', 'a.length.length', '@a!b', '!a@b', '! a', '@ a', '@1', '!1', 'a@']
    for b in range(256):
        extra += ['"\\x%02x"' % b, "'\\x%02X'" % b]
    for cp in (0, 0x41, 0x7f, 0x80, 0x7ff, 0x800, 0xffff, 0x10000, 0x10ffff, 0xd7ff, 0xe000, 0xdfff, 0x110000):
        extra += ['"\\u{%x}"' % cp, "'\\u{%X}'" % cp]
    # escapes far outside the code space and very long literals in the power-of-two radixes (a decimal literal beyond int()'s digit
    # limit is a located diagnostic by design of the repair, checked in C10)
    extra += ['"\\u{FFFFFFFFFFFFFFFFFFFFFFFF}"', "'\\u{FFFFFFFFFFFFFFFFFFFFFFFF}'", "'\\u{7FFFFFFF}'", "'\\u{80000000}'", '"\\u{100000000}"', '0x' + 'f' * 6000, '0b' + '1' * 20000, '9' * 4300]
    # decimal literals around the chunking / digit-limit boundaries of int() (value exact up to 4300 digits; beyond, value or diagnostic)
    for nd_ in (999, 1000, 1001, 3999, 4000, 4001, 4100, 4299, 4301, 7999, 8000, 8001, 12345):
        extra += ['1' + '0' * (nd_ - 1), '9' * nd_, ('1234567890' * (nd_ // 10 + 1))[:nd_], '1_' + '0' * (nd_ - 1)]
    # long runs of blank lines, comment lines and blanks between two tokens (layout of any length changes nothing)
    for gap in (500, 1200, 3000, 20000):
        extra += ['a' + '\n' * gap + 'b', 'a' + '// c\n' * gap + 'b', 'a' + ' ' * gap + 'b', 'a' + ' \n\t\n' * gap + 'b;', 'x = 1;' + '\n// note\n\n' * gap + 'y = 2;']
    # lexing has no memory: every ordered pair (triple) of tokens from a universe that contains every symbol, keyword, flavour and
    # literal kind, with and without a separating blank, against the reference tokenizer
    from hidc.lexer import tokens as TK
    univ = sorted({str(t) for t in TK.enum_tokens}) + ['x', '_y1', '@you', '!dft', '@is_you', '!is_defeat', '0', '17', '0x1F', '0b101', '0o17', '1_000', "'c'", "'\\n'", "'\\''", '"s"', '""', '"a\\"b"', '// c\n', '\n']
    for a, b in itertools.product(univ, repeat=2):
        extra += [a + ' ' + b, a + b]
    small = [u for u in univ if u in ('!', '!=', '=', '==', '<', '<=', '?', '??', '@you', '!dft', 'x', 'is', 'not', '0', '0x1F', "'c'", '"s"', '-', '-=', '/', '// c\n', '.', 'length', '(', ')')] if quick else univ
    for a, b, c in itertools.product(small, repeat=3):
        extra.append(a + ' ' + b + ' ' + c)
    rng = random.Random(rep.seed)
    for _ in range(400 if quick else 40000):
        extra.append(''.join(rng.choice(alpha + ['0x', '0b', '0o', '_', '\\x41', '\\u{e9}', '//', '<=', '??', 'is', 'true', '"', '"']) for _ in range(rng.randrange(4, 12))))
    srcs += extra
    chunks = [srcs[i::32] for i in range(32)]
    nd = 0
    for r in pmap(diff_task, [dict(name='diff-%d' % i, srcs=c) for i, c in enumerate(chunks)], limit=900):
        rep.absorb(r)
        nd += r.get('n', 0)
    nl = 0
    for r in pmap(layout_task, [dict(seed=rep.seed * 100 + i, lo=i, step=8) for i in range(8)], limit=900):
        rep.absorb(r)
        nl += r.get('n', 0)
    rep.counts['evaluations'] += nd + nl
    rep.cov['aux_reference_tokenizer_strings'] = nd
    rep.cov['aux_relayout_programs'] = nl
    rep.cov['aux_note'] = ('the composition of the readers in lex() for multi-token text is not decided by the solver (regex matching on symbolic strings is out of reach); it is guarded by exhaustive '
                           'short strings and targeted inputs against an independent reference tokenizer, and by re-layout differentials: auxiliary, not solver evidence')
    rep.explanation = ('Solver-decided: language equivalence of every lexer pattern with the documented grammar and the reader-order / longest-match obligations (z3 sequence theory, unbounded length); '
                       'CrossHair confirms the scanner glue lemmas over all paths. The composition in lex() is covered only by concrete differentials (see aux_note).')
    rep.rule = 'obligations: 9 pattern equivalences + 9 non-emptiness witnesses + reader-order and longest-match queries + 4 finite tables + scanner glue lemmas; auxiliary strings as listed'
    rep.bounds = dict(string_length='unbounded for the regex obligations', scanner_glue='lines <= 4 characters, 2 lines',
                      outside='non-ASCII digits, letters and white space accepted by Python\'s \\d \\w \\s; composition of the readers for arbitrary multi-token text')
    rep.assumptions = ['CPython re._parser parse tree is a faithful reading of the pattern source', 'documented lexical grammar as transcribed in hv/rx.py and hv/lexref.py']
    return rep.finish()


if __name__ == '__main__':
    sys.exit(main())
