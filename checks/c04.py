"""C04 — checked builds are memory safe, even with the stack exactly full.

Per template: the program is compiled at every stack size 0..G and executed symbolically (all inputs
symbolic) with the access monitor: frame traffic within [ap, fp), element accesses inside a live array
extent or a global object, computed jumps to labels only, ap/fp within the stack.  Every path that does
not end in stack_overflow must produce the events of the generous-stack run (no silent corruption), and
overflow must be monotone in the stack size.  Tracker arithmetic is decided separately (CrossHair, C04b).
"""
import os
import sys
import time

sys.path.insert(0, os.path.dirname(os.path.dirname(os.path.abspath(__file__))))
from hv.report import Report
from hv import families as F
from hv.famcheck import run_tasks
from hv.vmri import case_to_task, task_to_case

PID = 'C04'


def is_overflow(p):
    return any(e == ('flag', 'stack_overflow') for e in p.events)


def sweep_task(task):
    import z3
    from hv import hidc as H
    from hv.harness import build, Stats, Decider, model_argv, argv_for_compiled, jsonable_argv, conc_events
    from hv.monitors import AccessMonitor
    from hv.terms import Inconclusive, fmt_events, events_differ_cond
    case = task_to_case(task)
    G = task['G']
    res = dict(name=case.name, violations=[], inconclusive=[], harness_errors=[], status='ok', sizes=0)
    st = Stats()
    dec = Decider(case.word)
    W = case.word
    t_end = time.time() + task.get('wall', 400)

    def run_at(s):
        c = case.with_(stack=s)
        compiled = H.compile_src(c.src, c.word, s, False)
        b = build(c, compiled=compiled, monitor=AccessMonitor(), max_steps=task.get('max_steps', 8000), concretize_ap=True, addr_cap=120,
                  deadline=min(t_end, time.time() + 120))
        paths = b.vm.run()
        st.add_vm(b.vm, paths)
        return c, compiled, b, paths

    def conj(cs):
        cs = [c for c in cs if c is not True]
        return z3.And(*cs) if len(cs) > 1 else (cs[0] if cs else z3.BoolVal(True))

    def report_path(c, compiled, b, p, what):
        """replay a bad path concretely at stack size c.stack"""
        try:
            m = dec.check(p.conds)
        except Inconclusive as e:
            res['inconclusive'].append('%s@%d: %s' % (case.name, c.stack, e))
            return
        if m is None:
            return
        argv = argv_for_compiled(compiled, model_argv(b.vm, m), W)
        bc = build(c, argv=argv, compiled=compiled, monitor=AccessMonitor(), max_steps=200000, concretize_ap=True)
        r = bc.vm.run()
        pc = r[0]
        if pc.kind in ('violation', 'unspecified', 'halt'):
            res['violations'].append(dict(
                what='memory safety at stack size %d words: %s' % (c.stack, pc.info.get('what') if isinstance(pc.info, dict) else pc.info),
                case=case.name, detail={k: str(v) for k, v in (pc.info.items() if isinstance(pc.info, dict) else [('info', pc.info)])},
                replay=dict(type='vm-monitor', monitor='hv.monitors.AccessMonitor', src=case.src, word=W, stack=c.stack, unchecked=False, argv=jsonable_argv(argv))))
        else:
            res['harness_errors'].append('%s@%d: %s did not replay (%s)' % (case.name, c.stack, what, p.info))

    try:
        gc, gcomp, gb, gpaths = run_at(G)
    except H.CompilerError as e:
        res['status'] = 'rejected'
        if 'random' not in case.name:       # seeded random programs may contain a constant division by zero etc.
            res['harness_errors'].append('template %s does not compile: %s' % (case.name, e))
        return res
    gcases = []
    for p in gpaths:
        if p.kind in ('bound', 'unknown') or (p.kind == 'unspecified' and 'more than' in str(p.info)):
            res['inconclusive'].append('%s@%d: generous path %s (%s)' % (case.name, G, p.kind, p.info))
        elif p.kind in ('violation', 'unspecified', 'halt'):
            st.obligations += 1
            report_path(gc, gcomp, gb, p, 'generous-stack ' + p.kind)
        else:
            gcases.append(p)
    res['npaths'] = len(gpaths)
    res['path_kinds'] = sorted({p.kind for p in gpaths})
    res['witness'] = fmt_events(gpaths[0].events, 8) if gpaths else ''
    if res['inconclusive']:
        res['stats'] = st.as_dict()
        return res
    O_G = [conj(p.conds) for p in gcases if is_overflow(p)]
    prev_over = None      # overflow condition at the previous (smaller) size
    same_as_generous = 0
    first_ok = None
    sizes = list(range(task.get('lo', 0), task.get('hi', G)))
    if sizes and sizes[0] > 0:
        # chunked sweep: the overflow condition of the size just below the chunk, for the monotonicity obligation
        _c, _comp, _b, _paths = run_at(sizes[0] - 1)
        prev_over = [conj(p.conds) for p in _paths if p.kind in ('done',) and is_overflow(p)]
    for s in sizes:
        if len(res['violations']) >= 3:
            break       # enough counterexamples for this template; the remaining sizes are not needed to fail it
        if time.time() > t_end:
            res['inconclusive'].append('%s: wall limit reached at stack size %d' % (case.name, s))
            break
        c, compiled, b, paths = run_at(s)
        res['sizes'] += 1
        over = []
        for p in paths:
            if p.kind in ('bound', 'unknown') or (p.kind == 'unspecified' and 'more than' in str(p.info)):
                res['inconclusive'].append('%s@%d: path %s (%s)' % (case.name, s, p.kind, p.info))
                continue
            if p.kind in ('violation', 'unspecified', 'halt'):
                st.obligations += 1
                report_path(c, compiled, b, p, p.kind)
                continue
            if is_overflow(p):
                over.append(conj(p.conds))
                # the overflow path itself must be exactly: (prefix of a generous run) + stack_overflow + error -- prefix agreement
                # is implied by the differential below for sizes where the run does not overflow; here only terminality:
                st.obligations += 1
                if p.events[-2:] == (('flag', 'stack_overflow'), ('flag', 'error')):
                    st.discharged += 1
                    st.syntactic += 1
                else:
                    report_path(c, compiled, b, p, 'non-terminal stack_overflow')
                continue
            if first_ok is None:
                first_ok = s
            # no silent corruption: p.conds => \/_g (g.conds /\ events equal)
            st.obligations += 1
            terms = []
            trivially = False
            for g in gcases:
                if g.kind != p.kind:
                    continue
                d = events_differ_cond(dec.T, p.events, g.events)
                if d is True:
                    continue
                gc_ = conj(g.conds)
                terms.append(gc_ if d is None else z3.And(gc_, z3.Not(d)))
            try:
                m = dec.check(list(p.conds) + [z3.Not(z3.Or(*terms))] if terms else list(p.conds))
            except Inconclusive as e:
                res['inconclusive'].append('%s@%d: %s' % (case.name, s, e))
                continue
            if m is None:
                st.discharged += 1
                continue
            argv = argv_for_compiled(compiled, model_argv(b.vm, m), W)
            bt = build(c, argv=argv, compiled=compiled, max_steps=200000)
            bg = build(gc, argv=argv, compiled=gcomp, max_steps=200000)
            pt, pg = bt.vm.run()[0], bg.vm.run()[0]
            if (pt.kind, conc_events(pt.events)) == (pg.kind, conc_events(pg.events)):
                res['harness_errors'].append('%s@%d: tight/generous difference did not replay (argv %s)' % (case.name, s, argv))
            else:
                res['violations'].append(dict(
                    what='silent corruption: at stack size %d words the run does not overflow but behaves differently from the generous-stack run' % s,
                    case=case.name,
                    replay=dict(type='vm-events', src=case.src, word=W, stack=s, unchecked=False, argv=jsonable_argv(argv),
                                expected=[conc_events(pg.events)], expected_kind=pg.kind, observed=dict(kind=pt.kind, events=conc_events(pt.events), info=str(pt.info)))))
        # monotonicity: overflow at this size => overflow at the smaller size
        if prev_over is not None and over:
            st.obligations += 1
            try:
                m = dec.check([z3.Or(*over), z3.Not(z3.Or(*prev_over)) if prev_over else z3.BoolVal(True)])
                if m is None:
                    st.discharged += 1
                else:
                    res['violations'].append(dict(what='stack_overflow is not monotone: overflow with %d words but not with %d' % (s, s - 1), case=case.name,
                                                  replay=dict(type='none', model=str(m))))
            except Inconclusive as e:
                res['inconclusive'].append('%s@%d: %s' % (case.name, s, e))
        prev_over = over
        # early exit once the overflow set equals the generous one for 3 consecutive sizes
        try:
            extra = dec.check([z3.Or(*over), z3.Not(z3.Or(*O_G)) if O_G else z3.BoolVal(True)]) if over else None
        except Inconclusive:
            extra = 'unknown'
        if extra is None:
            same_as_generous += 1
            if same_as_generous >= 3 and not task.get('full'):
                break
        else:
            same_as_generous = 0
    # sizes far above G (the default 500 words, the largest size the compiler accepts at this word size): the emitted code is the
    # same, every absolute stack address differs.  Every path must be safe under the monitor, overflow there implies overflow at G,
    # and every other path equals the generous run on the inputs on which the generous run does not overflow.
    not_og = [z3.Not(z3.Or(*O_G))] if O_G else []
    for s in task.get('extra_sizes', []):
        if res['violations'] or res['inconclusive'] or time.time() > t_end:
            break
        try:
            c, compiled, b, paths = run_at(s)
        except H.CompilerError as e:
            res['harness_errors'].append('%s: stack size %d rejected: %s' % (case.name, s, e))
            continue
        res['sizes'] += 1
        res.setdefault('extra_sizes_run', []).append(s)
        for p in paths:
            if p.kind in ('bound', 'unknown') or (p.kind == 'unspecified' and 'more than' in str(p.info)):
                res['inconclusive'].append('%s@%d: path %s (%s)' % (case.name, s, p.kind, p.info))
                continue
            st.obligations += 1
            if p.kind in ('violation', 'unspecified', 'halt'):
                report_path(c, compiled, b, p, p.kind)
                continue
            terms = []
            if not is_overflow(p):
                for g in gcases:
                    if g.kind != p.kind or is_overflow(g):
                        continue
                    d = events_differ_cond(dec.T, p.events, g.events)
                    if d is True:
                        continue
                    gc_ = conj(g.conds)
                    terms.append(gc_ if d is None else z3.And(gc_, z3.Not(d)))
            try:
                m = dec.check(list(p.conds) + not_og + ([z3.Not(z3.Or(*terms))] if terms else []))
            except Inconclusive as e:
                res['inconclusive'].append('%s@%d: %s' % (case.name, s, e))
                continue
            if m is None:
                st.discharged += 1
                continue
            argv = argv_for_compiled(compiled, model_argv(b.vm, m), W)
            bt = build(c, argv=argv, compiled=compiled, max_steps=200000)
            bg = build(gc, argv=argv, compiled=gcomp, max_steps=200000)
            pt, pg = bt.vm.run()[0], bg.vm.run()[0]
            if (pt.kind, conc_events(pt.events)) == (pg.kind, conc_events(pg.events)):
                res['harness_errors'].append('%s@%d: large/generous difference did not replay (argv %s)' % (case.name, s, argv))
            else:
                res['violations'].append(dict(
                    what='a run that completes with %d words of stack behaves differently with %d words' % (G, s),
                    case=case.name,
                    replay=dict(type='vm-events', src=case.src, word=W, stack=s, unchecked=False, argv=jsonable_argv(argv),
                                expected=[conc_events(pg.events)], expected_kind=pg.kind, observed=dict(kind=pt.kind, events=conc_events(pt.events), info=str(pt.info)))))
    res['first_ok_size'] = first_ok
    st.queries += dec.nq
    st.solver_s += dec.tq
    res['stats'] = st.as_dict()
    return res


def gsize(c):
    """generous stack size in words: small for templates whose dynamic array length is an unconstrained input
    (every feasible length is a path)"""
    if 'mergesort' in c.name:
        return 120
    if c.name in ('alloc/vla-two',):
        return 10
    if c.name.startswith('alloc/vla-') and c.name not in ('alloc/vla-then-array', 'alloc/vla-then-call'):
        return min(18, 100 // c.word)       # every feasible size in bytes is a path (cap 120)
    if c.name.startswith('fault/vla-len'):
        return min(18, 100 // c.word)
    return 56


def add_tasks(tasks, c, full, wall):
    G = gsize(c)
    W = c.word
    if 'write-int' in c.name or 'writeln-int' in c.name:
        if W != 2:
            # write(int) of a symbolic value forks on sign and digit count through nested division by ten, which does not
            # bit-blast at 24 bits and above: at these word sizes the longest numbers are printed as constants instead
            smax = (1 << (8 * W - 1)) - 1
            for tag, lit in (('min', '(-%d - 1)' % smax), ('max', '%d' % smax), ('neg1', '(-1)')):
                src = c.src.replace('write(x)', 'write(%s)' % lit).replace('writeln(x)', 'writeln(%s)' % lit)
                assert src != c.src
                tasks.append(case_to_task(c.with_(src=src, name='%s/%s' % (c.name, tag)), G=24, full=True, wall=wall))
            return
        G = 24
        for lo in range(0, G, 6):
            tasks.append(case_to_task(c.with_(name='%s[%d..%d]' % (c.name, lo, lo + 5)), G=G, lo=lo, hi=lo + 6, full=True, wall=wall))
        return
    extra = []
    if G == 56:
        # far above G: the default size and the largest size the compiler accepts at 16 bit (5000 words at wider words)
        smax = ((1 << 15) - 1) // 2 - 5
        extra = [500, smax, smax - 1, smax - 3] if W == 2 else [500, 5000]     # just below the largest size the globals straddle the sign bit
    tasks.append(case_to_task(c, G=G, full=full, wall=wall, extra_sizes=extra))


def main():
    rep = Report(PID, 'model_checking', 'symbolic execution of the emitted assembly (z3) at every stack size with access-region monitors and tight-vs-generous differential')
    quick = rep.tier == 'quick'
    cases = F.alloc_templates() + F.scope_templates()[::4 if quick else 1] + F.seq_enumerated()[::4 if quick else 1] + F.time_enumerated(rep.tier)[::12 if quick else 2]
    # constant indices (negative, equal to and past the length): the bounds check may be decided at compile time, never dropped
    cases += [c for c in F.fault_templates() if 'idx-const' in c.name and (not quick or any(k in c.name for k in ('-neg-', '-len-', '-past-', 'zero-length', 'fixed-global')))]
    # use-site matrix, index sites: every kind of index expression into every kind of array (the checked index is the one that is used)
    cases += [c for c in F.usesite_matrix() if any(k in c.name for k in ('/store-index', '/compound-index', '/load-index'))][::5 if quick else 1]
    if not quick:
        cases += F.seq_random(rep.seed, 150) + F.time_random(rep.seed, 100) + [c for c in F.fault_templates()[::2] if 'idx-const' not in c.name] + F.time_examples()
    widths = [2] if quick else [2, 3, 4, 8]
    tasks = []
    for W in widths:
        for i, c in enumerate(cases):
            if W != 2 and i % 2 and not c.name.startswith('alloc/'):
                continue
            if W == 8 and c.name.startswith('usesite/'):
                continue        # the use-site matrix runs at 16/24/32 bit
            add_tasks(tasks, c.with_(word=W), full=not quick and c.name.startswith('alloc/'), wall=500)
    if quick:
        for i, c in enumerate(F.alloc_templates()):
            # library routines with their own stack guard (write family) at both wider words; the rest alternates
            for W in ((3, 4) if 'write' in c.name else (3 + (i % 2),)):
                add_tasks(tasks, c.with_(word=W), full=False, wall=300)
    nsizes = [0]
    firsts = {}

    slow = []

    def on_result(r):
        slow.append((r.get('wall', 0), r.get('name')))
        nsizes[0] += r.get('sizes', 0)
        if r.get('first_ok_size') is not None and len(firsts) < 40:
            firsts[r['name']] = r['first_ok_size']
    run_tasks(rep, tasks, worker=sweep_task, limit=900, on_result=on_result)
    # layer 3: the Tracker arithmetic behind every guard constant (CrossHair, symbolic operation sequences)
    from hv import chx
    chx.run_into(rep, 'c04', per_condition_timeout=400 if quick else 1200)
    rep.cov['stack_sizes_explored'] = nsizes[0]
    rep.cov['slowest_templates'] = sorted(slow, reverse=True)[:8]
    rep.cov['first_non_overflow_size_words'] = firsts
    rep.cov['states'] = rep.counts['instructions']
    rep.cov['transitions'] = rep.counts['instructions']
    rep.cov['traces_validated_against_impl'] = rep.counts['paths']
    rep.rule = ('allocation-site templates (array literal of each element type, nested literal, literal with call elements, VLA of each type, in loops and try bodies, every '
                'library routine as callee, recursion, defeat functions) + scope/sequential/time-travel slices; each compiled at every stack size from 0 words up to the size '
                'after which overflow behaviour equals the generous stack for 3 consecutive sizes (all sizes up to G for allocation templates in the thorough tier)')
    rep.functions_encoded = ['hidc/codegen/tracker.py Tracker.add/update/push_level/pop_level (CrossHair)', 'function-entry guard, VLA guards, Tracker-derived constants, array literal allocation, index checks, stdlib routines (write_int digit buffer) as emitted for each template and size']
    rep.bounds = dict(word_sizes=sorted(set(t['word'] for t in tasks)), stack_sizes='0..G words, G = 56; plus 500 and the largest accepted size (16378 words at 16 bit, 5000 at wider words) for templates with G = 56', instructions_per_path=8000,
                      outside='stack sizes between G and the two large sizes are not enumerated (the emitted code depends on the size only through .zero and label addresses); programs outside the families')
    rep.assumptions = ['Sphinx machine model (DESIGN section 3)', 'region classification: [fp]-based = frame traffic; other computed origins = element access; library code may use [ap, fp) below its frame',
                       'events of the generous-stack run are the reference for "no silent corruption" (their correctness is C01/C02)']
    return rep.finish()


if __name__ == '__main__':
    sys.exit(main())
