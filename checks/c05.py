"""C05 — runtime faults are detected exactly, first, and terminally (checked builds).
(1) VM vs reference interpreter on the T-fault matrix (the RI raises the faults from the source
semantics, markers in the operands show that the fault precedes the faulting operation's effects);
(2) explicit biconditionals written here for division, index and dynamic-length faults;
(3) every faulting VM path ends with exactly `flag <kind>; flag error`."""
import os
import re
import sys

sys.path.insert(0, os.path.dirname(os.path.dirname(os.path.abspath(__file__))))
from hv.report import Report
from hv import families as F
from hv.famcheck import run_tasks
from hv.vmri import case_to_task, task_to_case, check_case
from hv.diff import FAULTS

PID = 'C05'


def pred_task(task):
    """explicit fault predicate per template (independent of the RI): fault flag <=> predicate"""
    import z3
    from hv.harness import build, Stats, Decider, model_argv, argv_for_compiled, jsonable_argv, run_concrete_case, conc_events
    from hv.terms import Inconclusive, fmt_events
    case = task_to_case(task)
    res = dict(name=case.name + '/pred', violations=[], inconclusive=[], harness_errors=[])
    b = build(case, max_steps=8000)
    paths = b.vm.run()
    st = Stats()
    st.add_vm(b.vm, paths)
    dec = Decider(case.word)
    T = b.vm.T
    W = case.word
    B = 8 * W
    inp = b.vm.inputs
    kind = task['pred']

    def word(name):
        v = inp[name][0]
        return T.zext(v) if (not isinstance(v, int) and v.size() == 8) else v
    if kind == 'div':
        fault, flag = (T.Z(word('b')) == 0), 'division_by_zero'
        must_ok = None
    elif kind == 'idx':
        i = T.Z(word('i'))
        L = task['length']
        fault, flag = z3.Not(z3.And(i >= 0, i < L)), 'out_of_bounds'
        must_ok = None
    else:   # vla length
        n = T.Z(word('n'))
        maxlen = ((1 << (B - 1)) - 1) // (1 if task['el'] in ('byte', 'bool') else W)
        fault, flag = z3.Or(n < 0, n > maxlen), 'stack_overflow'
        must_ok = z3.And(n >= 0, n <= 3)          # these lengths fit the generous stack: no fault allowed
    for p in paths:
        if p.kind not in ('done',):
            res['inconclusive'].append('%s: path %s %s' % (res['name'], p.kind, p.info))
            continue
        flags = [e[1] for e in p.events if e[0] == 'flag']
        faulted = flag in flags
        other = [f for f in flags if f in FAULTS and f != flag]
        # obligations: cond /\ fault => this path shows the flag; cond /\ not fault (or must_ok) => it does not
        checks = []
        if not faulted:
            checks.append(('missed fault', fault))
        if faulted:
            checks.append(('spurious fault', must_ok if must_ok is not None else z3.Not(fault)))
        if other and kind != 'vla':
            checks.append(('unexpected other fault flag %s' % other, z3.BoolVal(True)))
        for what, c in checks:
            st.obligations += 1
            try:
                m = dec.check(list(p.conds) + [c])
            except Inconclusive as e:
                res['inconclusive'].append('%s: %s' % (res['name'], e))
                continue
            if m is None:
                st.discharged += 1
                continue
            argv = argv_for_compiled(b.compiled, model_argv(b.vm, m), W)
            pc = run_concrete_case(case, argv)
            cflags = [e[1] for e in pc.events if e[0] == 'flag']
            res['violations'].append(dict(what='fault detection is not exact: %s (%s)' % (what, flag), case=case.name,
                                          replay=dict(type='vm-events', src=case.src, word=W, stack=case.stack, unchecked=False, argv=jsonable_argv(argv),
                                                      expected=None, observed=dict(kind=pc.kind, events=conc_events(pc.events), flags=cflags))))
    st.queries += dec.nq
    st.solver_s += dec.tq
    res['stats'] = st.as_dict()
    res['npaths'] = len(paths)
    res['path_kinds'] = sorted({p.kind for p in paths})
    res['witness'] = fmt_events(paths[0].events, 8) if paths else ''
    return res


def terminal_task(task):
    """every faulting path ends with exactly `flag kind, flag error`, and carries one fault flag"""
    from hv.harness import build, Stats
    case = task_to_case(task)
    res = dict(name=case.name + '/terminal', violations=[], inconclusive=[], harness_errors=[])
    from hv import hidc as H
    try:
        b = build(case, max_steps=8000)
    except H.CompilerError:
        res['status'] = 'rejected'
        return res
    paths = b.vm.run()
    st = Stats()
    st.add_vm(b.vm, paths)
    for p in paths:
        flags = [(i, e[1]) for i, e in enumerate(p.events) if e[0] == 'flag' and (e[1] in FAULTS or e[1] == 'error')]
        ff = [f for f in flags if f[1] in FAULTS]
        if not ff:
            continue
        st.obligations += 1
        n = len(p.events)
        ok = (len(ff) == 1 and ff[0][0] == n - 2 and p.events[-1] == ('flag', 'error') and p.kind == 'done')
        if ok:
            st.discharged += 1
            st.syntactic += 1
        else:
            res['violations'].append(dict(what='a fault flag is not followed by exactly `flag error` and the end of the run', case=case.name,
                                          symbolic_events=str(p.events[-6:]), replay=dict(type='none')))
    res['stats'] = st.as_dict()
    res['npaths'] = len(paths)
    res['path_kinds'] = sorted({p.kind for p in paths})
    return res


def main():
    rep = Report(PID, 'translation_validation', 'symbolic execution of emitted assembly (z3) vs reference interpreter faults + explicit fault biconditionals')
    quick = rep.tier == 'quick'
    cases = F.fault_templates()
    widths = [2, 3] if quick else [2, 3, 4, 8]
    ri_tasks, pred_tasks, term_tasks = [], [], []
    for W in widths:
        for c in cases:
            cw = c.with_(word=W, stack=96)
            if 'vla-len' in c.name and 'global' not in c.name:
                m = re.match(r'fault/vla-len(?:-index)?-(int|byte|bool|string)$', c.name)
                if m and 'index' not in c.name:
                    pred_tasks.append(case_to_task(cw, pred='vla', el=m.group(1)))
                term_tasks.append(case_to_task(cw))
                continue
            ri_tasks.append(case_to_task(cw, max_steps=8000))
            term_tasks.append(case_to_task(cw))
            if re.match(r'fault/div-(div|mod)-', c.name) or 'div-const-left' in c.name:
                pred_tasks.append(case_to_task(cw, pred='div'))
            m = re.match(r'fault/idx-(read|write)-(stack|global|const)-(int|byte|bool)$', c.name)
            if m or c.name in ('fault/idx-string-literal',):
                pred_tasks.append(case_to_task(cw, pred='idx', length=5 if 'string' in c.name else 3))
            if c.name.startswith('fault/logic-idx-'):
                pred_tasks.append(case_to_task(cw, pred='idx', length=3))
            m = re.match(r'fault/idx-arg-(ints|bytes|string|strings)-(\d)$', c.name)
            if m:
                pred_tasks.append(case_to_task(cw, pred='idx', length=int(m.group(2))))
    extra = F.seq_enumerated()[::3] + F.time_enumerated(rep.tier)[::5] + F.seq_random(rep.seed, 40 if quick else 400)
    for c in extra:
        term_tasks.append(case_to_task(c.with_(stack=96)))
    # use-site matrix, index and division sites: every kind of index expression against every kind of indexed object (VM = RI incl. fault
    # flags, and faults are terminal)
    for c in F.usesite_matrix():
        if any(k in c.name for k in ('/store-index', '/compound-index', '/load-index', '/vla-length', '/div', '/mod')):
            ri_tasks.append(case_to_task(c.with_(stack=96), max_steps=8000))
            term_tasks.append(case_to_task(c.with_(stack=96)))
    run_tasks(rep, ri_tasks)
    run_tasks(rep, pred_tasks, worker=pred_task)
    run_tasks(rep, term_tasks, worker=terminal_task)
    rep.rule = ('T-fault: {/, %, /=, %=} x operand types x storage; index read/write/compound x {int,byte,bool} x {stack,global,const,parameter,argument} + strings; '
                'T v[n] per element type; return from preemptive defeat function; markers around the faulting operation; distinct = template x word size x oracle kind')
    rep.functions_encoded = ['emitted code of arith_op_reg_arg (division guard), check_index, ArrayInitializer length guards, return protection, stdlib error stubs']
    rep.bounds = dict(word_sizes=widths, divisor_index_length='whole word symbolic', array_lengths='0..3 and 5, 10 (concrete)', stack_words=96,
                      outside='for T v[n] with n that fits the type but not the 96-word stack the conservative stack_overflow is C04 (only n in 0..3 is required to succeed)')
    rep.assumptions = ['Sphinx machine model (DESIGN section 3)']
    return rep.finish()


if __name__ == '__main__':
    sys.exit(main())
