"""C11 — expressions group by the documented precedence and associativity.

(1) CrossHair on the real ps_expr fed token lists with symbolic operator / unary / postfix / cast selectors, against an
    independent precedence-climbing parser (ch/c11_prec.py): all operator pairs; triples and the minimal-parenthesis round
    trip over one representative operator per level.
(2) exhaustive enumeration of every operator triple x 5 parenthesisations x 5 tree shapes and every pair x unary/postfix/cast
    variant on the same harness functions (a finite space, enumerated completely), and random trees to depth 6 rendered as
    text through the real lexer + parser (auxiliary to the solver lemmas).
"""
import importlib.util
import itertools
import os
import random
import sys

sys.path.insert(0, os.path.dirname(os.path.dirname(os.path.abspath(__file__))))
from hv.report import Report
from hv.par import pmap

PID = 'C11'
V = os.path.dirname(os.path.dirname(os.path.abspath(__file__)))


def load():
    sys.path.insert(0, os.environ.get('HIDC_ROOT', '/repo'))
    spec = importlib.util.spec_from_file_location('c11_prec', os.path.join(V, 'ch', 'c11_prec.py'))
    m = importlib.util.module_from_spec(spec)
    spec.loader.exec_module(m)
    return m


def enum_task(task):
    m = load()
    res = dict(name='enum-%d' % task['i'], violations=[], harness_errors=[], n=0)
    i = task['i']
    for j, k in itertools.product(range(m.NB), repeat=2):
        for par in range(5):
            res['n'] += 1
            if not m._triple(i, j, k, par):
                res['violations'].append(dict(what='operator triple groups differently from the documented precedence table', case='ops %s %s %s, parenthesisation %d' % (m.BINOPS[i], m.BINOPS[j], m.BINOPS[k], par),
                                              replay=dict(type='python', module='checks.c11', func='replay_triple', args=[i, j, k, par])))
        for sh in range(5):
            res['n'] += 1
            if not m._round_trip(sh, i, j, k):
                res['violations'].append(dict(what='minimal-parenthesis print + parse is not the identity', case='shape %d ops %s %s %s' % (sh, m.BINOPS[i], m.BINOPS[j], m.BINOPS[k]),
                                              replay=dict(type='python', module='checks.c11', func='replay_round_trip', args=[sh, i, j, k])))
    for j in range(m.NB):
        for u1, u2, u3, post, cast in itertools.product(range(4), range(4), range(4), range(4), range(2)):
            res['n'] += 1
            if not m._pair(i, j, u1, u2, u3, post, cast):
                res['violations'].append(dict(what='operator pair with unary/postfix/cast operands groups differently from the documented table',
                                              case='ops %s %s unary %d %d %d postfix %d cast %d' % (m.BINOPS[i], m.BINOPS[j], u1, u2, u3, post, cast),
                                              replay=dict(type='python', module='checks.c11', func='replay_pair', args=[i, j, u1, u2, u3, post, cast])))
        if len(res['violations']) > 5:
            break
    res['violations'] = res['violations'][:6]
    return res


def replay_triple(i, j, k, par):
    m = load()
    ok = m._triple(i, j, k, par)
    print('triple', i, j, k, par, 'agrees with the reference' if ok else 'DIFFERS from the reference')
    return 0 if ok else 1


def replay_round_trip(sh, i, j, k):
    m = load()
    ok = m._round_trip(sh, i, j, k)
    print('round trip', sh, i, j, k, 'ok' if ok else 'FAILS')
    return 0 if ok else 1


def replay_pair(*a):
    m = load()
    ok = m._pair(*a)
    print('pair', a, 'ok' if ok else 'DIFFERS')
    return 0 if ok else 1


OPTXT = ['*', '/', '%', '+', '-', '==', '!=', '<', '<=', '>', '>=', 'and', 'or', '??']
LV = [4, 4, 4, 5, 5, 6, 6, 6, 6, 6, 6, 7, 8, 9]


def deep_task(task):
    """random trees to depth 6 rendered as TEXT with minimal parentheses, parsed by the real lexer + parser"""
    m = load()
    from hidc.parser import parse
    from hidc.lexer import SourceCode
    from hidc.parser.grammar import ps_expr, BlockContext
    from hidc.errors import CompilerError
    rng = random.Random(task['seed'])
    res = dict(name='deep-%d' % task['seed'], violations=[], harness_errors=[], n=0)
    names = ['a', 'b', 'c', 'd', 'e', 'f']

    def gen(d, allow_spec):
        r = rng.random()
        if d <= 0 or r < 0.2:
            base = rng.choice(names)
            r2 = rng.random()
            if r2 < 0.15: return ('idx', base, gen(d - 2, False) if d > 1 else 'i')
            if r2 < 0.25: return ('len', base)
            return base
        if r < 0.32:
            return ('u', rng.choice(['+', '-', 'not']), gen(d - 1, allow_spec))
        if r < 0.4:
            return ('is', gen(d - 1, False), rng.choice(['int', 'byte', 'bool']))
        k = rng.randrange(14 if allow_spec else 13)
        if k == 13:
            return (13, gen(d - 1, False), gen(d - 1, False))
        return (k, gen(d - 1, allow_spec), gen(d - 1, allow_spec))

    def lvl(t):
        if not isinstance(t, tuple): return 0
        if t[0] == 'u': return 2
        if t[0] == 'is': return 3
        if t[0] in ('idx', 'len'): return 0
        return LV[t[0]]

    def txt(t):
        if not isinstance(t, tuple): return t
        if t[0] == 'idx': return '%s[%s]' % (t[1], txt(t[2]))
        if t[0] == 'len': return '%s.length' % t[1]
        if t[0] == 'u':
            a = txt(t[2])
            if lvl(t[2]) > 2: a = '(%s)' % a
            return ('%s %s' if t[1] == 'not' else '%s%s') % (t[1], a) if not (t[1] in '+-' and a[:1] in '+-') else '%s(%s)' % (t[1], a)
        if t[0] == 'is':
            a = txt(t[1])
            if lvl(t[1]) > 2: a = '(%s)' % a
            return '%s is %s' % (a, t[2])
        lv = LV[t[0]]
        l, r = txt(t[1]), txt(t[2])
        if t[0] == 13:
            if lvl(t[1]) >= lv: l = '(%s)' % l
        elif lvl(t[1]) > lv: l = '(%s)' % l
        if lvl(t[2]) >= lv: r = '(%s)' % r
        return '%s %s %s' % (l, OPTXT[t[0]], r)

    def norm(t):
        """the tree as the harness' shape() would print it"""
        if not isinstance(t, tuple): return t
        if t[0] == 'idx': return ('idx', t[1], norm(t[2]))
        if t[0] == 'len': return ('len', t[1])
        if t[0] == 'u':
            inner = norm(t[2])
            # `+(-x)` is written with parentheses but is the same tree
            return ('u', {'+': m.O.ADD, '-': m.O.SUB, 'not': m.O.NOT}[t[1]], inner)
        if t[0] == 'is': return ('is', norm(t[1]), {'int': m.T.DataType.INT, 'byte': m.T.DataType.BYTE, 'bool': m.T.DataType.BOOL}[t[2]])
        return (m.BINOPS[t[0]], norm(t[1]), norm(t[2]))
    for _ in range(task['n']):
        t = gen(6, True)
        s = txt(t)
        res['n'] += 1
        try:
            got = m.shape(parse(SourceCode.from_string(s), ps_expr(BlockContext.YOU)))
        except CompilerError as e:
            got = 'error: %s' % e
        if got != norm(t):
            res['violations'].append(dict(what='expression text does not parse back to the tree it was printed from', case=s, got=str(got)[:300], expected=str(norm(t))[:300],
                                          replay=dict(type='parse-expr', src=s)))
            if len(res['violations']) > 3:
                break
    return res


def main():
    rep = Report(PID, 'proof', 'CrossHair symbolic execution of the real ps_expr on token lists with symbolic operator selectors vs an independent precedence-climbing parser')
    quick = rep.tier == 'quick'
    from hv import chx
    chx.run_into(rep, 'c11', per_condition_timeout=800 if quick else 2400)
    n = 0
    for r in pmap(enum_task, [dict(i=i) for i in range(14)], limit=900):
        rep.absorb(r)
        n += r.get('n', 0)
    rep.cov['exhaustive_enumeration_cases'] = n
    rep.cov['exhaustive'] = True
    nd = 0
    for r in pmap(deep_task, [dict(seed=rep.seed * 100 + i, n=300 if quick else 3000) for i in range(16)], limit=900):
        rep.absorb(r)
        nd += r.get('n', 0)
    rep.counts['evaluations'] += n + nd
    rep.cov['deep_trees_through_text'] = nd
    rep.rule = ('CrossHair lemmas: all 14x14 binary operator pairs (plain, with unary prefixes, with postfix forms and casts); triples and round trips over one operator per '
                'precedence level with 5 parenthesisations / 5 tree shapes; enumeration: all 14^3 triples x 5 x 2 and all pairs x 512 operand variants; depth-6 random trees via text')
    rep.functions_encoded = ['hidc/parser/grammar.py: ps_expr0..ps_expr8, ps_expr, bin_op; hidc/parser/rules.py (Parser.process, Match rules)']
    rep.bounds = dict(operators_per_expression='<= 3 binary operators in the lemmas', outside='grouping decisions of an operator-precedence grammar involve two adjacent operators (argument in DESIGN.md); '
                      'depth-6 trees are only sampled')
    rep.assumptions = ['token lists stand for source text in the lemmas (lexing is C12)', 'README operator table']
    rep.cov['checker_cmd'] = 'python3-vt -m crosshair check --report_all ch/c11_prec.py'
    return rep.finish()


if __name__ == '__main__':
    sys.exit(main())
