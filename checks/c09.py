"""C09 — operators and casts give the specified result for every operand value.

One operator / cast per template; operands are free bit-vectors (whole word / whole byte), in
several storage kinds (parameter, local, global, stack-array element, call result, literal) and
the result is observed in value / branch / !truth_is_defeat / stored / compound-assignment
position.  The oracle is a bit-vector formula written here (spec_*), independent of hidc.
"""
import itertools
import sys
import os
import random

sys.path.insert(0, os.path.dirname(os.path.dirname(os.path.abspath(__file__))))
from hv.harness import Case, build, Stats, Decider, argv_for_compiled, jsonable_argv, run_concrete_case, conc_events
from hv.equiv import compare
from hv.terms import Terms, isc, z3, Inconclusive, fmt_events
from hv.report import Report
from hv.par import pmap

PID = 'C09'
ARITH = {'+': 'add', '-': 'sub', '*': 'mul', '/': 'div', '%': 'mod'}
CMP = {'==': 'eq', '!=': 'ne', '<': 'lt', '<=': 'le', '>': 'gt', '>=': 'ge'}
KINDS = ['param', 'local', 'global', 'elem', 'call', 'lit']


def lits(W, typ):
    smax = (1 << (8 * W - 1)) - 1
    if typ == 'byte':
        return [("'a'", 97), ("'\\x00'", 0), ("'\\xff'", 255), ("'\\x80'", 128), ("'\\x7f'", 127), ("'\\n'", 10)]
    vals = [0, 1, -1, 2, 7, 10, 127, 128, 255, 256, -128, -129, -255, -256, smax, -smax, smax - 1]
    out = [(str(v) if v >= 0 else '(%d)' % v, v) for v in vals]
    out.append(('(-%d - 1)' % smax, -smax - 1))
    return out


class Opnd:
    """an operand: HiD text + the pieces of program text it needs + its specified value"""

    def __init__(self, name, typ, kind, lit=None):
        self.name, self.typ, self.kind, self.lit = name, typ, kind, lit
        self.params, self.globals_, self.prelude, self.helpers = [], [], [], set()
        n, t = name, typ
        if kind == 'lit':
            self.text = lit[0]
        else:
            self.params.append('%s p%s' % (t, n))
            if kind == 'param':
                self.text = 'p' + n
            elif kind == 'local':
                self.prelude.append('%s l%s = p%s;' % (t, n, n))
                self.text = 'l' + n
            elif kind == 'global':
                self.globals_.append('%s g%s = 0;' % (t, n))
                self.prelude.append('g%s = p%s;' % (n, n))
                self.text = 'g' + n
            elif kind == 'elem':
                self.prelude.append('%s[] a%s = [p%s, p%s];' % (t, n, n, n))
                self.text = 'a%s[1]' % n
            elif kind == 'call':
                self.helpers.add('%s id%s(%s v) { return v; }' % (t, t, t))
                self.text = 'id%s(p%s)' % (t, n)
            else:
                raise ValueError(kind)

    def value(self, T, inputs):
        if self.kind == 'lit':
            return self.lit[1] & (T.M if self.typ == 'int' else 0xFF)
        v = inputs['p' + self.name][0]
        return T.zext(v) if self.typ == 'byte' else v


def program(opnds, body, extra_helpers=()):
    params, globs, prelude, helpers = [], [], [], set(extra_helpers)
    for o in opnds:
        params += o.params
        globs += o.globals_
        prelude += o.prelude
        helpers |= o.helpers
    return '%s\n%s\nempty @is_you(%s) {\n    %s\n    %s\n}\n' % (
        '\n'.join(globs), '\n'.join(sorted(helpers)), ', '.join(params), '\n    '.join(prelude), body)


# ---- specification side: outcomes are lists of (conds, value | ('fault', kind))
def spec_arith(T, op, l, r):
    if op in ('div', 'mod'):
        z = T.cmp('eq', r, 0)
        out = []
        if z is not False:
            out.append(([z] if z is not True else [], ('fault', 'division_by_zero')))
        if z is not True:
            out.append(([T.not_(z)] if z is not False else [], T.arith(op, l, r)))
        return out
    return [([], T.arith(op, l, r))]


WIN = (('flag', 'win'),)


def fault_events(kind):
    return (('flag', kind), ('flag', 'error'))


def observe(T, position, outcomes):
    """outcomes of a value -> oracle cases (conds, events, kind)"""
    cases = []
    for conds, v in outcomes:
        if isinstance(v, tuple):
            cases.append((conds, fault_events(v[1]), 'done'))
            continue
        if position in ('value', 'stored', 'arg'):
            cases.append((conds, (('sleep', v),) + WIN, 'done'))
        elif position == 'byteval':
            cases.append((conds, (('out', T.byte_of(v)),) + WIN, 'done'))
        elif position in ('branch', 'defeat', 'while'):
            c = T.cmp('ne', v, 0)
            yes, no = {'branch': (84, 70), 'while': (84, 70), 'defeat': (68, 78)}[position]
            if c is not False:
                cases.append((conds + ([c] if c is not True else []), (('out', yes),) + WIN, 'done'))
            if c is not True:
                cases.append((conds + ([T.not_(c)] if c is not False else []), (('out', no),) + WIN, 'done'))
        elif position in ('else-defeat', 'then-defeat'):
            # the branch not leading to defeat is the one whose output survives; the other one is undone
            c = T.cmp('ne', v, 0)
            yes, no = {'else-defeat': ((84, 78), (68,)), 'then-defeat': ((68,), (70, 78))}[position]
            if c is not False:
                cases.append((conds + ([c] if c is not True else []), tuple(('out', b) for b in yes) + WIN, 'done'))
            if c is not True:
                cases.append((conds + ([T.not_(c)] if c is not False else []), tuple(('out', b) for b in no) + WIN, 'done'))
        else:
            raise ValueError(position)
    return cases


def use_text(position, expr, is_bool):
    as_int = '(%s) is int' % expr if is_bool else expr
    if position == 'value':
        return 'sleep(%s);' % as_int
    if position == 'arg':
        return 'sleep(idint(%s));' % as_int
    if position == 'stored':
        return ('bool res = %s; sleep(res is int);' if is_bool else 'int res = %s; sleep(res);') % expr
    if position == 'byteval':
        return 'write((%s) is byte);' % expr
    if position == 'branch':
        return "if (%s) { write('T'); } else { write('F'); }" % expr
    if position == 'while':
        return "bool once = true; while (%s) { write('T'); once = false; break; } if (once) { write('F'); }" % expr
    if position == 'defeat':
        return "try { !truth_is_defeat(%s); write('N'); } undo { write('D'); }" % expr
    if position == 'else-defeat':
        return "try { if (%s) { write('T'); } else { write('F'); !is_defeat(); } write('N'); } undo { write('D'); }" % expr
    if position == 'then-defeat':
        return "try { if (%s) { write('T'); !is_defeat(); } else { write('F'); } write('N'); } undo { write('D'); }" % expr
    raise ValueError(position)


# ---- template families
def templates(W, tier, rng):
    """yields task dicts (picklable)"""
    kinds_pairs = [(a, b) for a in KINDS for b in KINDS if not (a == 'lit' and b == 'lit')]
    types = [('int', 'int'), ('byte', 'int'), ('int', 'byte'), ('byte', 'byte')]
    quick = tier == 'quick'
    # arithmetic
    for op in ARITH:
        for (tl, tr) in types:
            pairs = kinds_pairs
            if quick and (tl, tr) != ('int', 'int'):
                pairs = rng.sample(kinds_pairs, 8)
            for (kl, kr) in pairs:
                for pos in (['value'] if quick else ['value', 'byteval', 'arg', 'stored']):
                    yield dict(fam='arith', op=op, tl=tl, tr=tr, kl=kl, kr=kr, pos=pos, W=W)
    for op in list(ARITH) + list(CMP):
        for big in range(4):
            for (kl, kr) in (('param', 'lit'), ('lit', 'param')) + ((('call', 'lit'), ('lit', 'global')) if not quick else ()):
                yield dict(fam='arith' if op in ARITH else 'cmp', op=op, tl='int', tr='int', kl=kl, kr=kr, pos='value', W=W, big=big)
    # compound assignment on variable / array element / byte variable
    for op in ARITH:
        for tgt in ('var', 'elem', 'gvar', 'bytevar', 'byteelem'):
            for kr in (['param', 'lit', 'call'] if quick else KINDS):
                yield dict(fam='compound', op=op, tgt=tgt, kr=kr, W=W)
    # comparisons in three positions
    for op in CMP:
        for (tl, tr) in types:
            pairs = kinds_pairs
            if quick:
                pairs = kinds_pairs if (tl, tr) == ('int', 'int') else rng.sample(kinds_pairs, 6)
            for (kl, kr) in pairs:
                for pos in ('value', 'branch', 'defeat') + (() if quick else ('stored', 'while')):
                    if quick and (kl, kr) not in (('param', 'param'), ('param', 'lit'), ('lit', 'param'), ('call', 'call'), ('global', 'call'), ('elem', 'elem')) and pos != 'branch':
                        continue
                    yield dict(fam='cmp', op=op, tl=tl, tr=tr, kl=kl, kr=kr, pos=pos, W=W)
                if (kl, kr) in (('param', 'param'), ('param', 'lit'), ('lit', 'param'), ('call', 'elem')) or not quick:
                    # a branch one of whose arms leads to defeat: the comparison decides a Turing jump from both sides
                    for pos in ('else-defeat', 'then-defeat'):
                        yield dict(fam='cmp', op=op, tl=tl, tr=tr, kl=kl, kr=kr, pos=pos, W=W)
    # boolean equality, logical operators, not
    bkinds = ['cmp', 'cast', 'var', 'elem', 'call', 'lit']
    for op in ('==', '!=', 'and', 'or'):
        for kl in bkinds:
            for kr in bkinds:
                if kl == 'lit' and kr == 'lit':
                    continue
                for pos in ('value', 'branch', 'defeat') + (('else-defeat', 'then-defeat') if (kl, kr) in (('cmp', 'cmp'), ('var', 'call'), ('cast', 'elem')) or not quick else ()) + (() if quick else ('stored', 'while')):
                    yield dict(fam='bool2', op=op, kl=kl, kr=kr, pos=pos, W=W)
    # a negated compound condition in every position (the generator peels `not` off conditions in several places)
    for op in ('==', '!=', 'and', 'or'):
        for (kl, kr) in (('cmp', 'cmp'), ('var', 'call'), ('cast', 'elem'), ('call', 'var')) + ((('elem', 'cmp'), ('cmp', 'lit'), ('lit', 'var')) if not quick else ()):
            for pos in ('value', 'branch', 'defeat', 'while', 'else-defeat', 'then-defeat'):
                yield dict(fam='bool2', op=op, kl=kl, kr=kr, pos=pos, W=W, negate=True)
    for kl in bkinds[:-1]:
        for pos in ('value', 'branch', 'defeat', 'stored', 'else-defeat', 'then-defeat'):
            yield dict(fam='not', kl=kl, pos=pos, W=W)
            yield dict(fam='notnot', kl=kl, pos=pos, W=W)
    # unary minus / plus
    for op in ('-', '+'):
        for t in ('int', 'byte'):
            for k in KINDS[:-1]:
                yield dict(fam='unary', op=op, t=t, k=k, pos='value', W=W)
    # casts
    for cast in ('byte_int', 'bool_int', 'int_byte', 'bool_byte', 'int_bool', 'byte_bool', 'implicit_byte_int',
                 'string_bool', 'array_bool', 'int_byte_int', 'narrow_store', 'narrow_elem', 'narrow_arg', 'narrow_ret',
                 'narrow_index_store', 'narrow_index_store_word', 'narrow_index_compound', 'narrow_index_load', 'narrow_length', 'narrow_arith'):
        for k in (KINDS[:-1] if cast not in ('string_bool', 'array_bool') else ['param']):
            for pos in (('value', 'branch', 'defeat') if cast.endswith('_bool') else ('value',)):
                yield dict(fam='cast', cast=cast, k=k, pos=pos, W=W)
        if cast in ('int_byte', 'int_byte_int', 'narrow_store', 'narrow_elem', 'narrow_arg', 'int_bool', 'bool_int', 'bool_byte'):
            # the same cast applied to every boundary literal (folded by the compiler, specified identically)
            for li in range(len(lits(W, 'int'))):
                yield dict(fam='cast', cast=cast, k='lit', li=li, pos='value', W=W)
    # truthiness of a cast result in the three positions (a narrowing cast must truncate before the zero test)
    for cast in ('int_byte', 'byte_int', 'int_byte_int', 'bool_byte', 'bool_int'):
        for k in KINDS[:-1]:
            for pos in ('value', 'branch', 'defeat', 'while', 'stored'):
                yield dict(fam='casttruth', cast=cast, k=k, pos=pos, W=W)
            for pos in ('branch', 'defeat'):
                yield dict(fam='casttruth', cast=cast, k=k, pos=pos, W=W, negate=True)
    # both operands literals (folded by the compiler; the specification is the same)
    G = lits(W, 'int')
    pairs = [(a, b) for a in range(len(G)) for b in range(len(G))]
    for op in list(ARITH) + list(CMP):
        for (a, b) in (rng.sample(pairs, 12) if quick else pairs):
            yield dict(fam='litlit', op=op, la=a, lb=b, pos='value' if op in ARITH else rng.choice(['value', 'branch', 'defeat']), W=W)
    # short-circuit with a faulting right operand
    for op in ('and', 'or'):
        for pos in ('value', 'branch', 'defeat'):
            yield dict(fam='shortfault', op=op, pos=pos, W=W)


def bool_operand(name, kind, T):
    """boolean operand derived from int parameter p<name>: returns (Opnd-like, spec function)"""
    o = Opnd(name, 'int', 'param')
    if kind == 'cmp':
        o.text = '(p%s < 0)' % name
        f = lambda T, inputs: T.b2w(T.cmp('lt', inputs['p' + name][0], 0))
    elif kind == 'lit':
        val = (name == 'A')
        o.params = []
        o.text = 'true' if val else 'false'
        f = lambda T, inputs: int(val)
    else:
        f = lambda T, inputs: T.b2w(T.cmp('ne', inputs['p' + name][0], 0))
        if kind == 'cast':
            o.text = '(p%s is bool)' % name
        elif kind == 'var':
            o.prelude.append('bool b%s = p%s is bool;' % (name, name))
            o.text = 'b' + name
        elif kind == 'elem':
            o.prelude.append('bool[] v%s = [false, p%s is bool, true];' % (name, name))
            o.text = 'v%s[1]' % name
        elif kind == 'call':
            o.helpers.add('bool idbool(bool v) { return v; }')
            o.text = 'idbool(p%s is bool)' % name
        else:
            raise ValueError(kind)
    return o, f


def make(task):
    """task -> (source, oracle function (T, inputs) -> cases, arrays)"""
    W = task['W']
    T = Terms(W)
    fam = task['fam']
    rng = random.Random(repr(sorted(task.items())))
    helpers = {'int idint(int v) { return v; }'}
    arrays = {}

    def opnd(name, typ, kind):
        if kind == 'lit' and 'big' in task:
            # a literal outside the signed word range next to a non-constant operand: nothing is folded, the assembler wraps it
            c = [(1 << (8 * W - 1)), (1 << (8 * W - 1)) + 1, (1 << (8 * W)) - 1, (1 << (8 * W)) + 5][task['big']]
            return Opnd(name, typ, kind, ('%d' % c, c))
        if kind == 'lit' and 'li' in task:
            return Opnd(name, typ, kind, lits(W, typ)[task['li']])
        return Opnd(name, typ, kind, rng.choice(lits(W, typ)) if kind == 'lit' else None)

    if fam in ('arith', 'cmp'):
        l, r = opnd('A', task['tl'], task['kl']), opnd('B', task['tr'], task['kr'])
        expr = '%s %s %s' % (l.text, task['op'], r.text)
        src = program([l, r], use_text(task['pos'], expr, fam == 'cmp'), helpers)

        def oracle(T, inputs):
            lv, rv = l.value(T, inputs), r.value(T, inputs)
            if fam == 'arith':
                outs = spec_arith(T, ARITH[task['op']], lv, rv)
            else:
                outs = [([], T.b2w(T.cmp(CMP[task['op']], lv, rv)))]
            return observe(T, task['pos'], outs)
        return src, oracle, arrays
    if fam == 'compound':
        tgt = task['tgt']
        byte_t = tgt.startswith('byte')
        r = opnd('B', 'byte' if byte_t else 'int', task['kr'])
        a = Opnd('A', 'byte' if byte_t else 'int', 'param')
        t = 'byte' if byte_t else 'int'
        if tgt in ('var', 'bytevar'):
            pre, lhs, g = '%s x = pA;' % t, 'x', ''
        elif tgt == 'gvar':
            pre, lhs, g = 'gx = pA;', 'gx', 'int gx = 0;'
        else:
            pre, lhs, g = '%s[] x = [pA, pA, pA];' % t, 'x[1]', ''
        obs = 'write(%s);' % lhs if byte_t else 'sleep(%s);' % lhs
        body = "%s %s %s= %s; write('k'); %s" % (pre, lhs, task['op'], r.text, obs)
        o2 = Opnd('Z', 'int', 'lit', ('0', 0))
        o2.globals_ = [g] if g else []
        src = program([a, r, o2], body, helpers)

        def oracle(T, inputs):
            lv, rv = a.value(T, inputs), r.value(T, inputs)
            cases = []
            for conds, v in spec_arith(T, ARITH[task['op']], lv, rv):
                if isinstance(v, tuple):
                    cases.append((conds, fault_events(v[1]), 'done'))
                elif byte_t:
                    cases.append((conds, (('out', 107), ('out', T.byte_of(v))) + WIN, 'done'))
                else:
                    cases.append((conds, (('out', 107), ('sleep', v)) + WIN, 'done'))
            return cases
        return src, oracle, arrays
    if fam == 'bool2':
        l, fl = bool_operand('A', task['kl'], T)
        r, fr = bool_operand('B', task['kr'], T)
        expr = '%s %s %s' % (l.text, task['op'], r.text)
        if task.get('negate'):
            expr = 'not (%s)' % expr
        src = program([l, r], use_text(task['pos'], expr, True), helpers)

        def oracle(T, inputs):
            lv, rv = fl(T, inputs), fr(T, inputs)
            op = task['op']
            if op == '==':
                v = T.b2w(T.cmp('eq', lv, rv))
            elif op == '!=':
                v = T.b2w(T.cmp('ne', lv, rv))
            elif op == 'and':
                v = T.arith('and', lv, rv)
            else:
                v = T.arith('or', lv, rv)
            if task.get('negate'):
                v = T.arith('xor', v, 1)
            return observe(T, task['pos'], [([], v)])
        return src, oracle, arrays
    if fam in ('not', 'notnot'):
        l, fl = bool_operand('A', task['kl'], T)
        expr = ('not %s' if fam == 'not' else 'not not %s') % l.text
        src = program([l], use_text(task['pos'], expr, True), helpers)

        def oracle(T, inputs):
            lv = fl(T, inputs)
            v = T.arith('xor', lv, 1) if fam == 'not' else lv
            return observe(T, task['pos'], [([], v)])
        return src, oracle, arrays
    if fam == 'unary':
        l = opnd('A', task['t'], task['k'])
        src = program([l], use_text('value', '%s%s' % (task['op'], l.text), False), helpers)

        def oracle(T, inputs):
            lv = l.value(T, inputs)
            return observe(T, 'value', [([], T.arith('sub', 0, lv) if task['op'] == '-' else lv)])
        return src, oracle, arrays
    if fam == 'cast':
        c = task['cast']
        k = task['k']
        pos = task['pos']
        if c in ('string_bool', 'array_bool'):
            outs = []
            if c == 'string_bool':
                ln = rng.choice([0, 1, 3])
                src = 'empty @is_you(string s) {\n    %s\n}\n' % use_text(pos, 's is bool', True)
                arrays = {'s': [ln]}
            else:
                ln = rng.choice([0, 1, 2])
                src = 'empty @is_you(const int[] s) {\n    %s\n}\n' % use_text(pos, 's is bool', True)
                arrays = {'s': ln}
            return src, (lambda T, inputs: observe(T, pos, [([], int(ln != 0))])), arrays
        srct = {'byte_int': 'byte', 'bool_int': 'int', 'int_byte': 'int', 'bool_byte': 'int', 'int_bool': 'int',
                'byte_bool': 'byte', 'implicit_byte_int': 'byte', 'int_byte_int': 'int', 'narrow_store': 'int',
                'narrow_elem': 'int', 'narrow_arg': 'int', 'narrow_ret': 'int', 'narrow_index_store': 'int', 'narrow_index_compound': 'int',
                'narrow_index_load': 'int', 'narrow_length': 'int', 'narrow_arith': 'int', 'narrow_index_store_word': 'int'}[c]
        l = opnd('A', srct, k)
        x = l.text
        extra = set(helpers)
        if c == 'byte_int':
            body, spec, p2 = use_text(pos, '%s is int' % x, False), (lambda T, v: v), pos
        elif c == 'implicit_byte_int':
            body, spec, p2 = 'int wide = %s; sleep(wide + 0);' % x, (lambda T, v: v), 'value'
        elif c == 'bool_int':
            body, spec, p2 = use_text(pos, '(%s is bool) is int' % x, False), (lambda T, v: T.b2w(T.cmp('ne', v, 0))), pos
        elif c == 'bool_byte':
            body, spec, p2 = 'write((%s is bool) is byte);' % x, (lambda T, v: T.b2w(T.cmp('ne', v, 0))), 'byteval'
        elif c == 'int_byte':
            body, spec, p2 = 'write(%s is byte);' % x, (lambda T, v: v), 'byteval'
        elif c == 'int_byte_int':
            body, spec, p2 = 'sleep((%s is byte) is int);' % x, (lambda T, v: T.low_byte_word(v)), 'value'
        elif c == 'narrow_store':
            body, spec, p2 = 'byte nb = %s is byte; int wide = nb; sleep(wide);' % x, (lambda T, v: T.low_byte_word(v)), 'value'
        elif c == 'narrow_elem':
            body, spec, p2 = 'byte[] nb = [1, 2, 3]; nb[1] = %s is byte; sleep(nb[1]); ' % x, (lambda T, v: T.low_byte_word(v)), 'value'
        elif c == 'narrow_arg':
            extra.add('int widen(byte v) { return v; }')
            body, spec, p2 = 'sleep(widen(%s is byte));' % x, (lambda T, v: T.low_byte_word(v)), 'value'
        elif c == 'narrow_ret':
            extra.add('byte narrow(int v) { return v is byte; }')
            body, spec, p2 = 'sleep(narrow(%s));' % x, (lambda T, v: T.low_byte_word(v)), 'value'
        # a narrowing cast of a computed value used directly where the generator reads a "fast" operand: store index, compound-store
        # index, load index, dynamic length, arithmetic operand (the low byte must be taken before the use, whatever the use is)
        elif c == 'narrow_index_store':
            body, spec, p2 = 'byte[] nb = [1, 2, 3, 4]; nb[(%s %% 4 + 768) is byte] = 9; sleep(nb[%s %% 4]);' % (x, x), (lambda T, v: 9), 'value'
        elif c == 'narrow_index_store_word':
            body, spec, p2 = 'int[] nw = [1, 2, 3, 4]; nw[(%s %% 4 + 256) is byte] = 9; sleep(nw[%s %% 4]);' % (x, x), (lambda T, v: 9), 'value'
        elif c == 'narrow_index_compound':
            body, spec, p2 = ('byte[] nb = [1, 2, 3, 4]; nb[(%s %% 4 + 768) is byte] += 5; sleep(nb[%s %% 4]);' % (x, x),
                              (lambda T, v: T.arith('add', T.arith('mod', v, 4), 6)), 'value')
        elif c == 'narrow_index_load':
            body, spec, p2 = 'byte[] nb = [1, 2, 3, 4]; sleep(nb[(%s %% 4 + 512) is byte]);' % x, (lambda T, v: T.arith('add', T.arith('mod', v, 4), 1)), 'value'
        elif c == 'narrow_length':
            body, spec, p2 = 'int nv[(%s %% 3 + 257) is byte]; sleep(nv.length);' % x, (lambda T, v: T.arith('add', T.arith('mod', v, 3), 1)), 'value'
        elif c == 'narrow_arith':
            body, spec, p2 = 'sleep(((%s + 0) is byte) + 1);' % x, (lambda T, v: T.arith('add', T.low_byte_word(v), 1)), 'value'
        elif c in ('int_bool', 'byte_bool'):
            body, spec, p2 = use_text(pos, '%s is bool' % x, True), (lambda T, v: T.b2w(T.cmp('ne', v, 0))), pos
        else:
            raise ValueError(c)
        src = program([l], body, extra)
        return src, (lambda T, inputs: observe(T, p2, [([], spec(T, l.value(T, inputs)))])), arrays
    if fam == 'casttruth':
        c = task['cast']
        srct = {'int_byte': 'int', 'byte_int': 'byte', 'int_byte_int': 'int', 'bool_byte': 'int', 'bool_int': 'int'}[c]
        l = opnd('A', srct, task['k'])
        x = l.text
        expr = {'int_byte': '%s is byte', 'byte_int': '%s is int', 'int_byte_int': '(%s is byte) is int', 'bool_byte': '(%s is bool) is byte', 'bool_int': '(%s is bool) is int'}[c] % x
        val = {'int_byte': lambda T, v: T.low_byte_word(v), 'byte_int': lambda T, v: v, 'int_byte_int': lambda T, v: T.low_byte_word(v),
               'bool_byte': lambda T, v: T.b2w(T.cmp('ne', v, 0)), 'bool_int': lambda T, v: T.b2w(T.cmp('ne', v, 0))}[c]
        neg = task.get('negate', False)
        cond = ('not (%s)' % expr) if neg else expr
        pos = task['pos']
        if pos in ('value', 'stored'):
            body = use_text(pos, '(%s) is bool' % expr, True)
        elif pos == 'defeat' and not neg:
            body = use_text(pos, '(%s) is bool' % expr, True)       # !truth_is_defeat takes a bool: explicit cast
        else:
            body = use_text(pos, cond, True)                         # if / while conditions convert implicitly
        src = program([l], body, helpers)

        def oracle(T, inputs):
            v = val(T, l.value(T, inputs))
            t = T.b2w(T.cmp('ne', v, 0))
            if neg:
                t = T.arith('xor', t, 1)
            return observe(T, pos, [([], t)])
        return src, oracle, arrays
    if fam == 'litlit':
        G = lits(W, 'int')
        la, lb = G[task['la']], G[task['lb']]
        op = task['op']
        l, r = Opnd('A', 'int', 'lit', la), Opnd('B', 'int', 'lit', lb)
        x = Opnd('X', 'int', 'param')
        isb = op in CMP
        smin, smax = -(1 << (8 * W - 1)), (1 << (8 * W - 1)) - 1
        exact = {'+': lambda a, b: a + b, '-': lambda a, b: a - b, '*': lambda a, b: a * b}.get(op)
        in_range = exact is None or smin <= exact(la[1], lb[1]) <= smax
        if not in_range or (op in ('/', '%') and lb[1] == 0) or (op == '/' and la[1] == smin and lb[1] == -1):
            # folded intermediates outside the word are the C14 known finding; constant division by zero is a compile error
            la, lb = ('3', 3), ('(-2)', -2)
            l, r = Opnd('A', 'int', 'lit', la), Opnd('B', 'int', 'lit', lb)
        expr = '%s %s %s' % (l.text, op, r.text)
        src = program([x], use_text(task['pos'], expr, isb) + ' sleep(pX);', helpers)

        def oracle(T, inputs):
            lv, rv = l.value(T, inputs), r.value(T, inputs)
            outs = spec_arith(T, ARITH[op], lv, rv) if op in ARITH else [([], T.b2w(T.cmp(CMP[op], lv, rv)))]
            return [(c, ev[:-1] + (('sleep', inputs['pX'][0]),) + WIN, k) for (c, ev, k) in observe(T, task['pos'], outs)]
        return src, oracle, arrays
    if fam == 'shortfault':
        a, b = Opnd('A', 'int', 'param'), Opnd('B', 'int', 'param')
        op = task['op']
        expr = '(pA > 0) %s (10 / pB > 1)' % op
        src = program([a, b], use_text(task['pos'], expr, True), helpers)

        def oracle(T, inputs):
            av, bv = inputs['pA'][0], inputs['pB'][0]
            lc = T.cmp('gt', av, 0)
            decided = lc if op == 'or' else T.not_(lc)        # left alone decides
            outs = []
            if decided is not False:
                outs.append(([decided] if decided is not True else [], 1 if op == 'or' else 0))
            if decided is not True:
                rest = [T.not_(decided)] if decided is not False else []
                for conds, v in spec_arith(T, 'div', 10, bv):
                    outs.append((rest + conds, v if isinstance(v, tuple) else T.b2w(T.cmp('gt', v, 1))))
            return observe(T, task['pos'], outs)
        return src, oracle, arrays
    raise ValueError(fam)


def concrete_inputs(built, argv):
    """argv dict (as produced by model_argv) -> inputs mapping like vm.inputs but with ints"""
    return {k: list(v) for k, v in argv.items()}


def run_task(task):
    res = dict(name=repr(sorted((k, v) for k, v in task.items())), violations=[], inconclusive=[], harness_errors=[])
    src, oracle, arrays = make(task)
    case = Case(src, word=task['W'], stack=48, arrays=arrays, name=res['name'])
    st = Stats()
    b = build(case, max_steps=4000)
    paths = b.vm.run()
    st.add_vm(b.vm, paths)
    cases = oracle(b.vm.T, b.vm.inputs)
    dec = Decider(task['W'])
    mism, inconc = compare(dec, b, paths, cases, st)
    st.queries += dec.nq
    st.solver_s += dec.tq
    res['inconclusive'] += inconc
    res['kinds'] = sorted({p.kind for p in paths})
    res['witness'] = fmt_events(paths[0].events, 6) if paths else ''
    res['src'] = src
    res['ncases'] = len(cases)
    for m in mism:
        # replay: concrete VM vs oracle evaluated on the concrete inputs
        argv = argv_for_compiled(b.compiled, m['argv'], task['W'])
        p = run_concrete_case(case, argv)
        T = b.vm.T
        cin = {}
        for k, v in m['argv'].items():
            cin[k] = v
        exp = [c for c in oracle(T, cin) if all(x is True for x in c[0])]
        got = conc_events(p.events)
        ok = len(exp) == 1 and p.kind == exp[0][2] and got == conc_events(exp[0][1])
        if ok:
            res['harness_errors'].append('counterexample did not replay: %s %s' % (res['name'], m))
        else:
            res['violations'].append(dict(
                what='operator/cast result differs from the specification' if m['kind'] == 'mismatch' else 'VM reports ' + m['kind'],
                template=task, source=src, vm_symbolic=m['vm'], oracle_symbolic=m['oracle'],
                replay=dict(type='vm-events', src=src, word=task['W'], stack=48, unchecked=False,
                            argv=jsonable_argv(argv), expected=[list(map(list, c[1])) for c in exp][:1],
                            observed=dict(kind=p.kind, events=got, info=str(p.info)))))
    res['stats'] = st.as_dict()
    return res


def main():
    rep = Report(PID, 'translation_validation', 'symbolic execution of emitted Sphinx assembly (z3 bit-vectors) against bit-vector operator specifications')
    widths = [2, 3, 4] if rep.tier == 'quick' else [2, 3, 4, 8]
    rng = random.Random(rep.seed)
    tasks = []
    for W in widths:
        tasks += list(templates(W, rep.tier, rng))
    fams = {}
    nontrivial = 0
    for r in pmap(run_task, tasks, limit=300):
        rep.counts['evaluations'] += 1
        rep.add_stats(r.get('stats', {}))
        for v in r.get('violations', []):
            rep.violation(v)
        rep.inconclusive += r.get('inconclusive', [])
        rep.harness_errors += r.get('harness_errors', [])
        if r.get('src'):
            rep.distinct_keys.add(hash(r['src']))
            if len(rep.samples) < 10 and rep.counts['evaluations'] % 97 == 1:
                rep.sample(dict(template=r['name'], source=r['src'], vm_path_kinds=r.get('kinds'), first_path=r.get('witness'), oracle_cases=r.get('ncases')))
    rep.rule = ('one operator or cast per template x operand storage kinds x usage position x word size; a template is counted once per '
                'distinct emitted source text; non-trivial = the VM produced at least one committed path and the oracle at least one case')
    rep.functions_encoded = ['emitted code of CodeGen.eval_expr / bool_expr_branch / truth_is_defeat / arith_op_reg_arg / un_op_reg_arg / '
                             'array_assignment for each template (generated by the real hidc from /repo)']
    rep.bounds = dict(word_sizes=widths, operands='all values of the word / byte (symbolic)', literals='boundary set, in range of the signed word',
                      instructions_per_path=4000, outside='expressions with more than one operator under test; out-of-range literals (C14)')
    rep.assumptions = ['Sphinx machine model of DESIGN section 3 (div/mod floor semantics for negative operands: depends_on div_floor)',
                       'term library hv/terms.py shared between VM and specification']
    rep.cov['programs'] = len(rep.distinct_keys)
    rep.cov['disagreements_checked'] = len(rep.violations) + len(rep.harness_errors)
    rep.cov['templates'] = len(tasks)
    return rep.finish()


if __name__ == '__main__':
    sys.exit(main())
