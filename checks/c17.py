"""C17 — the write family prints canonically for every value and does not disturb the caller.

(a) write(int) for *all* x at 16 bits (24 bits in the thorough tier): emitted code on the symbolic VM vs the decimal
    specification (optional '-' then the digits of |x| by udiv/urem with powers of ten), including MIN and 0.
(b) 32/64 bits: loop-free lemmas on the real routine, executed as fragments from an arbitrary symbolic loop state
    (prologue: sign/MIN; one get_digits iteration; epilogue), each decided by z3 for the whole word; plus boundary values.
(c) write(bool/byte/string/byte[]) and writeln for const / mutable / string-converted arrays with symbolic contents.
(d) caller state (locals, arrays) around each call is unchanged (generous stack here; every stack size in C04).
"""
import os
import sys

sys.path.insert(0, os.path.dirname(os.path.dirname(os.path.abspath(__file__))))
from hv.report import Report
from hv import families as F
from hv.famcheck import run_tasks
from hv.vmri import case_to_task

PID = 'C17'


def write_templates(W, lens, sym_int):
    out = []

    def T(name, src, **arrays):
        out.append(F.C('write/' + name, src, **arrays).with_(word=W))
    smax = (1 << (8 * W - 1)) - 1
    if sym_int:
        T('int', "empty @is_you(int x) { write(x); }\n")
        T('writeln-int', "empty @is_you(int x) { writeln(x); write('|'); }\n")
        T('int-caller', "empty @is_you(int x, int y) { int a = y; byte b = 'q'; int[] arr = [y, 7]; byte[] bs = [1, 2, 3]; write(x); sleep(a); write(b); sleep(arr[0]); sleep(arr[1]); write(bs); }\n")
        T('int-expr', "empty @is_you(int x, int y) { write(x - y); write(' '); write(x); }\n")
    vals = [0, 1, -1, 9, 10, -10, 99, 100, 255, 256, 1000, 9999, 10000, 12345, -12345, 32767, -32767, smax, -smax, smax - 1, 10 ** (len(str(smax)) - 1), 10 ** (len(str(smax)) - 1) - 1]
    for v in sorted(set(x for x in vals if -smax <= x <= smax)):
        T('int-const-%d' % v, "empty @is_you() { int[] arr = [5, 6]; write(%s); write(' '); writeln(%s); sleep(arr[1]); }\n" % ('(%d)' % v, '(%d)' % v))
    T('int-const-min', "empty @is_you() { int[] arr = [5, 6]; write(-%d - 1); writeln(-%d - 1); sleep(arr[1]); }\n" % (smax, smax))
    # integer constants in every spelling (a character constant used as an int prints its code, not its spelling) and literals outside the
    # signed word range (the word the program holds is printed)
    T('int-const-spellings', "const int NL = '\\n';\nconst int KC = 'K';\nconst byte KB = 'k';\nempty @is_you() { write('A' is int); write(' '); writeln(NL); write(KC); write(' '); write(KB is int); write(' '); write(0x41); write(' '); "
      "write(0b101); write(' '); write(0o17); write(' '); write(1_000); write(' '); write(('a' is int) + 1); write(' '); write(-('A' is int)); write(' '); write(+'\\'' is int); write(' '); write('\\\\' is int); write(' '); "
      "write('\\0' is int); write(' '); write(\"s\"[0] is int); write(' '); write(true is int); write(' '); writeln('\\xff' is int); }\n")
    for v in (smax + 1, 2 * smax + 1, 2 * smax + 7, smax + 1000):
        T('int-const-wrapped-%d' % v, "empty @is_you() { write(%d); write(' '); writeln(%d); write(0 - %d); }\n" % (v, v, v))
    # what write is handed: a widened byte result of a call after an earlier write(int) used the same stack depth; constants with equal
    # values in arrays of another element type compiled first
    T('int-from-byte-call-after-write', "byte seven() { return 7; }\nbyte lowb(int v) { return v is byte; }\nempty @is_you(byte b) { writeln(12345); writeln(seven() is int); writeln(-32100); writeln(lowb(b) is int); write(9999); write(seven() + 0); write(' '); write(seven()); }\n")
    T('same-values-other-type-first', "const int[] scores = [72, 105];\nconst bool[] flags = [true, false];\nempty @is_you(int i) { sleep(scores[i % 2]); writeln([72, 105]); const byte[] hi = [72, 105]; write(hi); write([1, 0]); write(flags[i % 2]); writeln(\"Hi\"); write([72, 105] is byte[]); }\n")
    T('int-var-min', "empty @is_you(int x) { int m = -%d; m -= 1; write(m); write(x is byte); }\n" % smax)
    T('bool', "empty @is_you(int x) { write(x > 0); write(' '); writeln(x == 0); write(x is bool); }\n")
    T('bool-caller', "empty @is_you(int x, int y) { int a = y; bool[] fl = [true, x > 0, false]; write(fl[1]); sleep(a); write(fl[0]); write(fl[2]); }\n")
    T('bool-dirty-stack', "empty @is_you(int x) { write(x); write(false); write(true); write(x > 0); }\n" if sym_int else "empty @is_you(int x) { sleep(big(x)); write(false); write(true); write(x > 0); }\nint big(int v) { int[] t = [v, v, v, 255, 255]; return t[3]; }\n")
    T('byte', "empty @is_you(byte b, int x) { write(b); writeln(b); write(x is byte); writeln(); write('z'); }\n")
    for n in lens:
        T('string-%d' % n, "empty @is_you(string s) { write(s); write('|'); writeln(s); sleep(s.length); }\n", s=[n])
        T('string-bytes-%d' % n, "empty @is_you(string s) { write(s is byte[]); write('|'); const byte[] b = s is byte[]; writeln(b); }\n", s=[n])
        T('cbytes-%d' % n, "empty @is_you(const byte[] xs) { write(xs); write('|'); writeln(xs); }\n", xs=n)
        T('mbytes-%d' % n, "empty @is_you(byte[] xs) { write(xs); write('|'); if (xs.length > 0) { xs[0] = 'M'; } writeln(xs); }\n", xs=n)
        T('strings-%d' % n, "empty @is_you(const string[] xs) { for (int i = 0; i < xs.length; i += 1) { write(xs[i]); write(','); } }\n", xs=[n, 0, 1])
    for n in [l for l in lens if l <= 8]:
        elems = ', '.join("(x + %d) is byte" % i for i in range(n)) or ''
        if n:
            T('stackbytes-%d' % n, "empty @is_you(int x) { byte[] a = [%s]; int keep = x; write(a); writeln(a); sleep(keep); }\n" % elems)
            T('vla-bytes-%d' % n, "empty @is_you(int x) { byte a[%d]; for (int i = 0; i < %d; i += 1) { a[i] = (x + i) is byte; } write(a); }\n" % (n, n))
    # constants containing the bytes that have their own spelling in the assembly (write emits exactly that byte)
    T('const-escapes', "const byte[] cb = ['\\0', '\\t', '\\n', '\\r', '\\'', '\"', '\\\\', '\\x7f', '\\xff', ' '];\nempty @is_you(int x) { write('\\r'); write('\\n'); write('\\t'); write('\\0'); write('\\''); write('\"'); write('\\\\'); write('\\x0d'); "
      "write(\"a\\rb\\nc\\td\\0e'f\\\"g\\\\h\\x0d\\x7f\\xff\"); write(cb); writeln(\"\\r\"); writeln('\\r'); byte[] mb = ['\\r', '\\n']; write(mb); write(\"\\r\\n\" is byte[]); }\n")
    # lengths around the byte boundary of the length word (the length is a word, not a byte)
    if W == 2:
        for n in (255, 256, 257, 300):
            T('global-bytes-long-%d' % n, "byte big[%d];\nempty @is_you(int x) { for (int i = 0; i < %d; i += 1) { big[i] = (x + i) is byte; } write(big); write('|'); sleep(big.length); }\n" % (n, n))
        T('const-bytes-long-300', "empty @is_you(int x) { write(\"%s\"); write('|'); write(\"%s\" is byte[]); writeln(x is byte); }\n" % ('0123456789' * 30, 'abcdefghij' * 26))
    T('global-bytes', "byte[] gb = [1, 2, 3];\nconst byte[] cb = ['x', 'y'];\nempty @is_you(byte v) { gb[1] = v; write(gb); write(cb); writeln(\"lit\"); write(\"\"); }\n")
    T('string-caller', "empty @is_you(string s, int y) { int a = y; byte[] bs = [1, 2, 3]; write(s); sleep(a); write(bs); write(\"const\"); sleep(a); }\n", s=[3])
    return out


def lemma_task(task):
    """loop-free lemmas on the real write_int routine at word size W (fragment execution from symbolic states)"""
    import z3
    from hv import hidc as H
    from hv.asm import assemble
    from hv.vm import VM
    from hv.harness import Stats, Decider
    from hv.terms import Inconclusive, isc
    W = task['W']
    B = 8 * W
    res = dict(name='write/lemmas-w%d' % W, violations=[], inconclusive=[], harness_errors=[])
    st = Stats()
    comp = H.compile_src("empty @is_you(int x) { write(x); }\n", W, 40, False)
    prog = assemble(comp.lines, {'x': {'n': 1}})
    L = prog.labels
    dec = Decider(W, timeout_ms=task.get('timeout_ms', 120000))
    T = dec.T

    def lab(n):
        return L[n][1]
    fp_addr, r0a, r1a, r2a = lab('fp'), lab('r0'), lab('r1'), lab('r2')
    FP = lab('stack_end') - 8 * W       # a mid-stack frame pointer
    ten = z3.BitVecVal(10, B)

    def check(name, conds, goal):
        st.obligations += 1
        try:
            m = dec.check(list(conds) + [z3.Not(goal)])
        except Inconclusive as e:
            res['inconclusive'].append('%s %s: %s' % (res['name'], name, e))
            return
        if m is None:
            st.discharged += 1
        else:
            res['violations'].append(dict(what='write_int lemma "%s" fails at word size %d' % (name, W), model=str(m), replay=dict(type='none')))

    # --- lemma 1: one iteration of get_digits from an arbitrary non-negative r2 and arbitrary buffer pointer
    v = z3.BitVec('v', B)
    vm = VM(prog, max_steps=200, stop_pcs={lab('write_int_get_digits'), lab('write_int_get_digits') + 0, lab('write_int_get_digits_body') + 7 + 0})
    after_loop = lab('write_int_get_digits_body') + 7      # mod, div, add, sub, sbs, j, hne -> next instruction
    assert prog.code[after_loop - 1].op == 'hne' and prog.code[after_loop - 2].op == 'j', 'write_int layout changed'
    vm.stop_pcs = {lab('write_int_get_digits'), after_loop}
    init = vm.initial_state(entry=lab('write_int_get_digits_body'))
    vm.put(init.mem, fp_addr, FP, W)
    R0 = FP - W - 3
    vm.put(init.mem, r0a, R0, W)
    vm.put(init.mem, r2a, v, W)
    paths = vm.run(assumptions=[v >= 0], init=init)
    st.add_vm(vm, paths)
    seen = set()
    for p in paths:
        if p.kind != 'stop':
            res['violations'].append(dict(what='write_int iteration lemma: unexpected path %s %s' % (p.kind, p.info), replay=dict(type='none')))
            continue
        pc, mem, nch = p.info
        seen.add(pc)
        r2n = vm.get(mem, r2a, W, vm.sizes['state'])
        r0n = vm.get(mem, r0a, W, vm.sizes['state'])
        byte = vm.get(mem, R0 - 1, 1, vm.sizes['state'])
        conds = list(p.conds)
        check('pointer decreases by one', conds, T.Z(r0n) == R0 - 1)
        check('stored digit = 48 + v mod 10', conds, T.Z(byte, 8) == z3.Extract(7, 0, z3.URem(v, ten)) + 48)
        check('quotient = v div 10', conds, T.Z(r2n) == z3.UDiv(v, ten))
        check('quotient decreases (termination)', conds, z3.Or(v == 0, z3.ULT(T.Z(r2n), v)))
        check('loop continues iff quotient != 0', conds, (T.Z(r2n) != 0) if pc == lab('write_int_get_digits') else (T.Z(r2n) == 0))
        check('no output in the iteration', conds, z3.BoolVal(len(p.events) == 0))
    if seen != {lab('write_int_get_digits'), after_loop}:
        res['harness_errors'].append('%s: iteration lemma did not reach both exits: %s' % (res['name'], seen))

    # --- lemma 2: prologue from routine entry with arbitrary argument x
    x = z3.BitVec('x', B)
    vm2 = VM(prog, max_steps=200)
    vm2.stop_pcs = {lab('write_int_get_digits_body'), lab('write_int_push')}
    init = vm2.initial_state(entry=lab('write_int'))
    vm2.put(init.mem, fp_addr, FP, W)
    vm2.put(init.mem, lab('ap'), lab('stack_start'), W)
    vm2.put(init.mem, FP - 2 * W, x, W)
    paths = vm2.run(init=init)
    st.add_vm(vm2, paths)
    MIN = z3.BitVecVal(1 << (B - 1), B)
    kinds = set()
    for p in paths:
        if p.kind != 'stop':
            res['violations'].append(dict(what='write_int prologue lemma: unexpected path %s %s' % (p.kind, p.info), replay=dict(type='none')))
            continue
        pc, mem, nch = p.info
        r2n = T.Z(vm2.get(mem, r2a, W, vm2.sizes['state']))
        r0n = vm2.get(mem, r0a, W, vm2.sizes['state'])
        conds = list(p.conds)
        outs = [e[1] for e in p.events if e[0] == 'out']
        check('prologue: buffer pointer = fp - 1w', conds, T.Z(r0n) == FP - W)
        if pc == lab('write_int_get_digits_body'):
            kinds.add('body')
            check('prologue: x >= 0 -> no sign, r2 = x', conds + [x >= 0], z3.And(z3.BoolVal(outs == []), r2n == x))
            check('prologue: x < 0 -> "-", r2 = -x > 0', conds + [x < 0], z3.And(z3.BoolVal(outs == [45]), r2n == -x, r2n > 0, x != MIN))
        else:
            kinds.add('push')
            r1n = T.Z(vm2.get(mem, r1a, W, vm2.sizes['state']))
            check('prologue: only MIN takes the special path', conds, x == MIN)
            check('prologue: MIN -> "-", last digit and remaining quotient', conds,
                  z3.And(z3.BoolVal(outs == [45]), r1n == z3.URem(MIN, ten), r2n == z3.UDiv(MIN, ten), r2n > 0))
    if kinds != {'body', 'push'}:
        res['harness_errors'].append('%s: prologue lemma did not reach both continuations: %s' % (res['name'], kinds))

    # --- lemma 3: epilogue: after the loop, the bytes [r0, fp - 1w) are written in order and control returns to RA
    n = task.get('ndig', 3)
    vm3 = VM(prog, max_steps=400)
    init = vm3.initial_state(entry=after_loop)
    vm3.put(init.mem, fp_addr, FP, W)
    vm3.put(init.mem, FP - W, lab('all_is_win'), W)
    vm3.put(init.mem, r0a, FP - W - n, W)
    syms = [z3.BitVec('d%d' % i, 8) for i in range(n)]
    for i, sy in enumerate(syms):
        init.mem[FP - W - n + i] = sy
    paths = vm3.run(init=init)
    st.add_vm(vm3, paths)
    for p in paths:
        outs = [e[1] for e in p.events if e[0] == 'out']
        good = p.kind == 'done' and len(outs) == n and all(z3.eq(T.Z(o, 8), sy) for o, sy in zip(outs, syms)) and p.events[-1] == ('flag', 'win')
        st.obligations += 1
        if good:
            st.discharged += 1
            st.syntactic += 1
        else:
            res['violations'].append(dict(what='write_int epilogue lemma fails at word size %d: %s %s' % (W, p.kind, p.events), replay=dict(type='none')))
    st.queries += dec.nq
    st.solver_s += dec.tq
    res['stats'] = st.as_dict()
    res['npaths'] = 1
    res['path_kinds'] = ['lemma']
    return res


def main():
    rep = Report(PID, 'translation_validation', 'symbolic execution of the emitted library routines (z3): full-width decimal specification at 16 bit, per-iteration lemmas on the real routine at 24/32/64 bit')
    quick = rep.tier == 'quick'
    lens = [0, 1, 2, 3, 8] if quick else [0, 1, 2, 3, 5, 8, 16, 33, 64]
    tasks = []
    for c in write_templates(2, lens, True):
        tasks.append(case_to_task(c.with_(stack=120), max_steps=40000 if 'long' in c.name else 20000, vm_wall=300, ri_max_loop=400 if 'long' in c.name else 64))
    for W in ([3, 4] if quick else [3, 4, 8]):
        for c in write_templates(W, lens[:4] if quick else lens, sym_int=False):        # the whole-word symbolic write(int) does not bit-blast above 16 bits (solver unknown after 40 min at 24 bit): lemmas + boundary constants instead
            tasks.append(case_to_task(c.with_(stack=120), max_steps=20000, vm_wall=1500 if not quick else 300))
    run_tasks(rep, tasks, limit=2400)
    # "none of them disturbs the caller's variables or arrays": the write templates of the allocation family at every
    # stack size (the C04 sweep: access monitor + tight-vs-generous differential)
    sys.path.insert(0, os.path.dirname(os.path.abspath(__file__)))
    import c04
    stasks = []
    for c in F.alloc_templates():
        if 'write' in c.name:
            for W in ([2] if quick else [2, 3, 4, 8]):
                c04.add_tasks(stasks, c.with_(word=W), full=True, wall=400)
    nsz = [0]

    def on_sweep(r):
        nsz[0] += r.get('sizes', 0)
    run_tasks(rep, stasks, worker=c04.sweep_task, limit=900, on_result=on_sweep)
    rep.cov['stack_sizes_explored_for_caller_state'] = nsz[0]
    ltasks = [dict(W=W, name='lemmas-w%d' % W) for W in ([2, 4] if quick else [2, 3, 4, 8])]
    run_tasks(rep, ltasks, worker=lemma_task, limit=1200)
    rep.rule = ('write(int) with the whole word symbolic (16 bit), boundary constants at every word size, write(bool/byte/string/const+mutable+converted byte arrays) with symbolic contents of '
                'lengths %s, writeln variants, caller-state templates; lemma tasks = prologue / one digit-loop iteration / epilogue of the real write_int from symbolic states' % lens)
    rep.functions_encoded = ['stdlib.py: write_int, write_bool, write_string, write_const_byte_array, write_state_byte_array (as emitted text); generator.py: inlined write(byte)/writeln, dispatch by array storage']
    rep.bounds = dict(full_width_symbolic='16 bit', lemma_word_sizes=[t['W'] for t in ltasks], array_lengths=lens, stack_words=120,
                      outside='at 24/32/64 bit the composition of the three lemmas over the <= 20 loop iterations is an induction on paper; C04 covers every stack size')
    rep.assumptions = ['Sphinx machine model (DESIGN section 3); div/mod by the positive constant 10 on non-negative values does not depend on the rounding assumption']
    return rep.finish()


if __name__ == '__main__':
    sys.exit(main())
