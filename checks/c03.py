"""C03 — a compiled program never halts on its committed timeline.  Reachability query on the
symbolic VM: no committed 'halt' path is feasible, in checked builds (all inputs) and in unchecked
builds on inputs whose checked run is fault-free."""
import os
import sys

sys.path.insert(0, os.path.dirname(os.path.dirname(os.path.abspath(__file__))))
from hv.report import Report
from hv import families as F
from hv.famcheck import run_tasks
from hv.vmri import case_to_task
from hv.diff import diff_task

PID = 'C03'


def flavour_matrix():
    """you / defeat / ordinary functions x constructs allowed in them x exit routes"""
    out = []
    bodies = {
        'plain': "write('a');", 'ret': "if (a > 0) { return; } write('b');",
        'loop-break': "int k = a % 3; while (true) { if (k > 1) { break; } k += 1; }",
        'loop-continue': "for (int i = 0; i < 3; i += 1) { if (i == a) { continue; } write('c'); }",
        'win': "if (a == 3) { all_is_win(); } write('d');", 'broken': "if (a == 4) { all_is_broken(); } write('e');",
        'ifelse': "if (a > b) { write('f'); } else { write('g'); }",
        'cast-bool': "bool t = a is bool; if (t) { write('h'); } sleep(t is int);",
        'and-or': "if (a > 0 and b > 0 or a == b) { write('i'); }",
    }
    defeat_extra = {
        'defeat': "!truth_is_defeat(a > 2); write('j');", 'is-defeat': "if (b > 2) { !is_defeat(); } write('k');",
        'preempt': "preempt { write('P'); a = 0; } !truth_is_defeat(a > 1);",
        'call-defeat': "!inner(a); write('l');", 'loop-defeat': "for (int i = 0; i < 3; i += 1) { !truth_is_defeat(i == b); }",
        'preempt-return': "preempt { return; } !truth_is_defeat(a > 0);",
    }
    you_extra = {
        'try-undo': "try { !truth_is_defeat(a > 0); write('m'); } undo { write('n'); }",
        'try-stop': "try { !inner(a); write('o'); } stop { write('p'); }",
        'spec': "sleep(ord(a) ?? b);",
        'try-loop-exit': "for (int i = 0; i < 3; i += 1) { try { if (i == a) { break; } if (i == b) { continue; } !truth_is_defeat(i == 1); } stop { write('q'); } }",
        'try-return': "try { if (a > 0) { return; } !is_defeat(); } stop { write('r'); }",
        'you-call': "@other(b);",
        'try-preempt-break': "int k = 0; while (k < 3) { try { preempt { break; } !truth_is_defeat(a > k); k += 1; } undo { write('s'); break; } }",
    }
    pre = ("int ord(int v) { return v + 1; }\nempty !inner(int v) { write('<'); !truth_is_defeat(v > 1); write('>'); }\n"
           "empty @other(int v) { try { !inner(v); } undo { write('u'); } }\n")
    for name, body in bodies.items():
        out.append(F.C('flavour/ord-' + name, pre + "empty fn(int a, int b) { %s }\nempty @is_you(int a, int b) { fn(a, b); write('.'); }\n" % body))
    for name, body in list(bodies.items()) + list(defeat_extra.items()):
        for h in ('undo', 'stop'):
            out.append(F.C('flavour/defeat-%s-%s' % (name, h), pre + "empty !fn(int a, int b) { %s }\nempty @is_you(int a, int b) { try { !fn(a, b); write('t'); } %s { write('h'); } write('.'); }\n" % (body, h)))
    for name, body in list(bodies.items()) + list(you_extra.items()):
        out.append(F.C('flavour/you-' + name, pre + "empty @fn(int a, int b) { %s }\nempty @is_you(int a, int b) { @fn(a, b); write('.'); }\n" % body))
    for name, body in list(bodies.items()) + list(defeat_extra.items()):
        for h in ('undo', 'stop'):
            if 'return' in body or name == 'ret':
                continue
            out.append(F.C('flavour/trybody-%s-%s' % (name, h), pre + "empty @is_you(int a, int b) { try { %s write('t'); } %s { write('h'); } write('.'); }\n" % (body, h)))
    return out


def main():
    rep = Report(PID, 'model_checking', 'reachability of a committed halt on the symbolic Sphinx VM (z3 decides feasibility of every halting path)')
    quick = rep.tier == 'quick'
    cases = (flavour_matrix() + F.time_enumerated(rep.tier) + F.cf_enumerated() + F.cf_random(rep.seed, 80 if quick else 800)
             + F.fault_templates() + F.seq_enumerated()[::2 if quick else 1] + F.time_random(rep.seed, 60 if quick else 600)
             + F.scope_templates()[::3 if quick else 1] + F.op_positions() + F.usesite_matrix()[::3 if quick else 1])
    widths = [2, 3] if quick else [2, 3, 4, 8]
    tasks = []
    for W in widths:
        for i, c in enumerate(cases):
            if W != 2 and (i % 3 or 'write-int' in c.name or 'writeln-int' in c.name):
                continue        # write(int) of a symbolic value does not bit-blast above 16 bits
            if W == 8 and c.name.startswith(('usesite/', 'oppos/', 'seq/nested-', 'seq/string-index', 'seq/vla-', 'seq/packed', 'seq/const-cast')):
                continue        # product families run at 16/24/32 bit (solver `unknown` on a few 64-bit obligations)
            tasks.append(case_to_task(c.with_(word=W, stack=96), mode='halt', max_steps=8000, allow_reject=('random' in c.name or 'cf/' in c.name)))
    if quick:
        for i, c in enumerate(cases[::9]):
            if 'write-int' in c.name or 'writeln-int' in c.name:
                continue
            tasks.append(case_to_task(c.with_(word=3 + i % 2, stack=96), mode='halt', max_steps=8000, allow_reject=True))
    nfree = [0]

    def on_result(r):
        nfree[0] += r.get('fault_free_paths', 0)
    run_tasks(rep, tasks, worker=diff_task, on_result=on_result)
    rep.cov['states'] = rep.counts['instructions']
    rep.cov['transitions'] = rep.counts['instructions']
    rep.cov['traces_validated_against_impl'] = rep.counts['paths']
    rep.cov['unchecked_runs_under_fault_free_assumption'] = nfree[0]
    rep.rule = ('families: flavour matrix (ordinary/defeat/you function and try body x construct x handler kind), T-time, T-cf, T-fault, T-seq, T-scope, every operator in every position (incl. write(int) of a symbolic word at 16 bit), random; '
                'each compiled checked and unchecked; the unchecked build is executed once per fault-free checked path under that path condition')
    rep.functions_encoded = ['every `halt`/`hCC` in the emitted code of each template: goto, bool_expr_branch + halt_inversion, IntToBool normalisation, try/undo/stop/preempt lowering, '
                             'truth_is_defeat, speculation, stdlib loops and error stubs']
    rep.bounds = dict(word_sizes=sorted(set(t['word'] for t in tasks)), instructions_per_path=8000, outside='programs outside the families; unchecked runs that fault; uninitialised strings')
    rep.assumptions = ['Sphinx machine model (DESIGN section 3)', 'states/transitions = VM instructions executed symbolically (each is one machine state transition)']
    return rep.finish()


if __name__ == '__main__':
    sys.exit(main())
