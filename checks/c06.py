"""C06 — flavour and context rules are enforced on every program.

(1) CrossHair step lemmas (ch/c06_ctx.py): for an arbitrary valid BlockContext, one nesting step of every construct /
    expression position with every probe leaf is accepted by the real grammar rules iff the README table allows it; plus
    function-flavour and global-scope lemmas.  The lemmas compose by structural induction over nesting (argument in
    DESIGN.md, not a solver result).
(2) Composition guard: nested skeletons of depth <= 3 rendered as text and parsed by the real hidc.parser.parse (through
    the lexer), compared with an independent context checker that walks the generating tree.
"""
import os
import random
import sys

sys.path.insert(0, os.path.dirname(os.path.dirname(os.path.abspath(__file__))))
from hv.report import Report
from hv.par import pmap

PID = 'C06'

FUNC, YOU, DEFEAT, TRY, LOOP = 'FUNC', 'YOU', 'DEFEAT', 'TRY', 'LOOP'


def gen_tree(rng, depth):
    """random nesting tree; leaves are probes"""
    if depth <= 0 or rng.random() < 0.25:
        return ('leaf', rng.choice(['ord', 'you', 'defeat', 'spec', 'break', 'continue', 'plain', 'expr-you', 'expr-defeat', 'spec-you', 'spec-nested', 'return-you']))
    k = rng.choice(['block', 'if', 'ifelse', 'while', 'for', 'try-undo', 'try-stop', 'preempt', 'seq'])
    if k in ('ifelse', 'try-undo', 'try-stop', 'seq'):
        return (k, gen_tree(rng, depth - 1), gen_tree(rng, depth - 1))
    return (k, gen_tree(rng, depth - 1))


def render(t):
    k = t[0]
    if k == 'leaf':
        return {'ord': 'f();', 'you': '@f();', 'defeat': '!f();', 'spec': 'x = f() ?? 1;', 'break': 'break;', 'continue': 'continue;', 'plain': 'x = 1;',
                'expr-you': 'x = a[(@g(1))] + 2;', 'expr-defeat': 'x = g(1, [!h()][0]);', 'spec-you': 'x = @g(1) ?? 2;', 'spec-nested': 'x = (g(1) ?? 2) ?? 3;',
                'return-you': 'if (x > 0) { x = @g(2) is int; }'}[t[1]]
    if k == 'block': return '{ %s }' % render(t[1])
    if k == 'if': return 'if (x > 0) { %s }' % render(t[1])
    if k == 'ifelse': return 'if (x > 0) { %s } else { %s }' % (render(t[1]), render(t[2]))
    if k == 'while': return 'while (x > 0) { %s }' % render(t[1])
    if k == 'for': return 'for (int i = 0; i < 2; i += 1) { %s }' % render(t[1])
    if k == 'try-undo': return 'try { %s } undo { %s }' % (render(t[1]), render(t[2]))
    if k == 'try-stop': return 'try { %s } stop { %s }' % (render(t[1]), render(t[2]))
    if k == 'preempt': return 'preempt { %s }' % render(t[1])
    if k == 'seq': return '%s %s' % (render(t[1]), render(t[2]))
    raise ValueError(k)


def ok(t, ctx):
    """independent context checker (README): ctx is a frozenset of flags"""
    k = t[0]
    if k == 'leaf':
        l = t[1]
        if l == 'ord': return FUNC in ctx
        if l == 'you': return YOU in ctx
        if l == 'defeat': return DEFEAT in ctx
        if l == 'spec': return YOU in ctx                       # operands: ordinary call and literal
        if l in ('break', 'continue'): return LOOP in ctx
        if l == 'plain': return True
        if l == 'expr-you': return YOU in ctx
        if l == 'expr-defeat': return DEFEAT in ctx and FUNC in ctx
        if l == 'spec-you': return False                          # a you-call is never allowed inside a ?? operand
        if l == 'spec-nested': return False                       # ?? is not allowed inside a ?? operand
        if l == 'return-you': return YOU in ctx
    if k in ('block', 'if'): return ok(t[1], ctx)
    if k == 'ifelse': return ok(t[1], ctx) and ok(t[2], ctx)
    if k in ('while', 'for'): return ok(t[1], ctx | {LOOP})
    if k in ('try-undo', 'try-stop'):
        return YOU in ctx and ok(t[1], (ctx - {YOU}) | {TRY, DEFEAT, FUNC}) and ok(t[2], ctx)
    if k == 'preempt': return DEFEAT in ctx and ok(t[1], ctx)
    if k == 'seq': return ok(t[1], ctx) and ok(t[2], ctx)
    raise ValueError(k)


def compose_task(task):
    sys.path.insert(0, os.environ.get('HIDC_ROOT', '/repo'))
    from hv import hidc as H
    from hidc.errors import ParserError, LexerError
    rng = random.Random(task['seed'])
    res = dict(name='compose-%d' % task['seed'], violations=[], inconclusive=[], harness_errors=[], n=0, accepted=0)
    PRE = "int g(int v) { return v; }\nint g(int a, int b) { return a; }\nint f() { return 1; }\nint @f() { return 1; }\nint @g(int v) { return v; }\nint !f() { return 1; }\nint !h() { return 1; }\nint[] a = [1, 2];\n"
    ginits = ['1 + f()', '[f(), 2][0]', '(f())', '-f()', 'a[f()]', 'f() is byte', 'g(f())', 'g(1, f())', '1 ?? 2', '(1 ?? 2) + 1', '@f()', '1 * !f()']
    for gi in ginits:
        for form in ('int q = %s;', 'int q[%s];', 'const int q = %s;', 'int[] q = [1, %s];'):
            src = PRE + (form % gi) + '\nempty fn(int x) { }\n'
            try:
                H.parse(H.SourceCode.from_string(src))
                got = True
            except (ParserError, LexerError):
                got = False
            res['n'] += 1
            if got:
                res['violations'].append(dict(what='context rules: a global initialised with a call (or ??) is accepted', case=form % gi, replay=dict(type='parse', src=src, expected_accept=False)))
    for i in range(task['n']):
        t = gen_tree(rng, 3)
        fl = rng.choice(['', '@', '!'])
        ctx0 = frozenset({'': [FUNC], '@': [FUNC, YOU], '!': [FUNC, DEFEAT]}[fl])
        src = PRE + 'empty %sfn(int x) { %s }\n' % (fl, render(t))
        exp = ok(t, ctx0)
        try:
            H.parse(H.SourceCode.from_string(src))
            got = True
        except ParserError:
            got = False
        except LexerError as e:
            res['harness_errors'].append('lexer error in generated program: %s' % e)
            continue
        res['n'] += 1
        res['accepted'] += got
        if got != exp:
            res['violations'].append(dict(what='context rules: program %s but the README rules say it should be %s' % ('accepted' if got else 'rejected', 'accepted' if exp else 'rejected'),
                                          case=src[len(PRE):], replay=dict(type='parse', src=src, expected_accept=exp)))
            if len(res['violations']) > 3:
                break
    return res


def main():
    rep = Report(PID, 'proof', 'CrossHair symbolic execution of the real grammar rules on token lists: one nesting step from an arbitrary context (z3 explores every context x construct x probe path)')
    quick = rep.tier == 'quick'
    from hv import chx
    chx.run_into(rep, 'c06', per_condition_timeout=600 if quick else 900)
    n = 0
    acc = 0
    for r in pmap(compose_task, [dict(seed=rep.seed * 1000 + i, n=150 if quick else 1500) for i in range(16)], limit=600):
        rep.absorb(r)
        n += r.get('n', 0)
        acc += r.get('accepted', 0)
    rep.counts['evaluations'] += n
    rep.cov['composition_guard_programs'] = n
    rep.cov['composition_guard_accepted'] = acc
    rep.cov['composition_guard_note'] = 'concrete cross-check of the induction over nesting depth (depth <= 3, through the real lexer); auxiliary, not solver evidence'
    rep.rule = ('step lemmas: 10 valid contexts x 12 statement constructs x 9 statement probes; 13 expression positions + 5 block-header positions x 6 expression probes; ?? operand lemma; '
                'function flavour x 9 probes; global initialiser lemmas; each lemma has to be "Confirmed over all paths"')
    rep.functions_encoded = ['hidc/parser/grammar.py: ps_block, ps_stmt, ps_expr (speculation re-parse), ps_func_call, ps_ident, ps_program/ps_func, BlockContext; hidc/parser/rules.py']
    rep.bounds = dict(nesting='one step per lemma; composition over nesting depth is an induction argued in DESIGN.md, guarded by depth-3 skeletons',
                      per_condition_timeout_s=240 if quick else 900)
    rep.assumptions = ['token lists stand for source text (the lexer is C12\'s subject)', 'README table of what each block allows']
    rep.cov['checker_cmd'] = 'python3-vt -m crosshair check --report_all ch/c06_ctx.py'
    return rep.finish()


if __name__ == '__main__':
    sys.exit(main())
