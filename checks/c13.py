"""C13 — constant data reaches the output byte for byte.

(A) run-time side, solver: after assembling the real output, the payload of every constant (string bytes, .word / .byte
    items of constant arrays, packed bools) is replaced by fresh symbols; the symbolic VM must emit exactly those symbols
    (write), return symbol i (indexing, symbolic index; bit i%8 of byte i/8 for bools) and the exact length, for every
    content at once; path conditions must not mention the payload.
(B) compile-time side: every byte value 0..255 in a string, in a character literal and in a constant byte array, and all
    pairs from a boundary set, through the whole pipeline: the strict assembler accepts the output and the VM prints the bytes.
(C) CrossHair on asm._escape_bytes (round trip with the assembler's unescape, symbolic byte and quote) and CodeGen.pack_bools.
"""
import os
import sys

sys.path.insert(0, os.path.dirname(os.path.dirname(os.path.abspath(__file__))))
from hv.report import Report
from hv.famcheck import run_tasks

PID = 'C13'


def marker_bytes(k, n):
    """distinct printable content for constant number k (so that it can be located in the data sections)"""
    base = 33 + (k * 7) % 50
    return bytes((base + (i * (k + 3)) % 40) for i in range(n))


def payload_task(task):
    import z3
    from hv import hidc as H
    from hv.asm import assemble
    from hv.vm import VM
    from hv.harness import Stats, Decider, sym_argspec
    from hv.terms import Inconclusive, Terms
    W = task['W']
    B = 8 * W
    kind, n = task['kind'], task['n']
    res = dict(name='const/%s-%d-w%d' % (kind, n, W), violations=[], inconclusive=[], harness_errors=[])
    st = Stats()
    T = Terms(W)

    def esc(bs):
        return ''.join('\\x%02x' % b for b in bs)
    mk = marker_bytes(1, n)
    mk2 = marker_bytes(2, max(n, 1))
    if kind in ('string', 'string-global', 'string-arg', 'string-bytes'):
        lit = '"%s"' % esc(mk)
        if kind == 'string':
            src = 'empty @is_you(int i) { string s = %s; write(s); write(\'|\'); sleep(s.length); write(s[i]); }\n' % lit
        elif kind == 'string-global':
            src = 'const string gs = %s;\nstring ms = "%s";\nempty @is_you(int i) { write(gs); write(\'|\'); write(ms); sleep(gs.length); write(gs[i]); }\n' % (lit, esc(mk2))
        elif kind == 'string-arg':
            src = 'empty show(string s, int i) { writeln(s); sleep(s.length); write(s[i]); }\nempty @is_you(int i) { show(%s, i); }\n' % lit
        else:
            src = 'empty @is_you(int i) { const byte[] b = %s is byte[]; write(b); write(\'|\'); sleep(b.length); write(b[i]); write(%s is byte[]); }\n' % (lit, lit)
        finder = ('bytes', mk)
    elif kind in ('cbytes', 'cbytes-local'):
        vals = ', '.join(str(b) for b in mk)
        if kind == 'cbytes':
            src = 'const byte[] gc = [%s];\nempty @is_you(int i) { write(gc); write(\'|\'); sleep(gc.length); write(gc[i]); }\n' % vals
        else:
            src = 'empty @is_you(int i) { const byte[] lc = [%s]; write(lc); write(\'|\'); sleep(lc.length); write(lc[i]); }\n' % vals
        finder = ('byteitems', list(mk))
    elif kind in ('cints', 'cints-local'):
        vs = [1000 + 3 * j for j in range(n)]
        vals = ', '.join(map(str, vs))
        if kind == 'cints':
            src = 'const int[] gc = [%s];\nempty @is_you(int i) { sleep(gc.length); sleep(gc[i]); for (int k = 0; k < gc.length; k += 1) { sleep(gc[k]); } }\n' % vals
        else:
            src = 'empty @is_you(int i) { const int[] lc = [%s]; sleep(lc.length); sleep(lc[i]); for (int k = 0; k < lc.length; k += 1) { sleep(lc[k]); } }\n' % vals
        finder = ('worditems', vs)
    elif kind == 'cbools':
        bits = [(j * 5 + 1) % 3 == 0 for j in range(n)]
        vals = ', '.join('true' if b else 'false' for b in bits)
        src = 'const bool[] gc = [%s];\nempty @is_you(int i) { sleep(gc.length); sleep(gc[i] is int); for (int k = 0; k < gc.length; k += 1) { sleep(gc[k] is int); } }\n' % vals
        packed = []
        for j, b in enumerate(bits):
            if j % 8 == 0:
                packed.append(0)
            packed[-1] |= int(b) << (j % 8)
        finder = ('byteitems', packed)
    elif kind == 'strings':
        parts = [marker_bytes(3 + j, 1 + (j % 3)) for j in range(n)]
        src = 'const string[] gs = [%s];\nempty @is_you(int i) { sleep(gs.length); write(gs[i]); for (int k = 0; k < gs.length; k += 1) { write(gs[k]); write(\',\'); } }\n' % ', '.join('"%s"' % esc(p) for p in parts)
        finder = ('multi-bytes', parts)
    else:
        raise ValueError(kind)
    if n == 0 and kind in ('cbytes', 'cbytes-local', 'cints', 'cints-local', 'cbools', 'strings'):
        # an empty array literal has no element type of its own: declare through a typed constant
        src = src.replace('= [];', '= [];')
    try:
        comp = H.compile_src(src, W, 64, False)
    except H.CompilerError as e:
        if n == 0:
            res['status'] = 'rejected'
            res['stats'] = st.as_dict()
            return res
        res['harness_errors'].append('%s does not compile: %s' % (res['name'], e))
        return res
    prog = assemble(comp.lines, sym_argspec(comp, {}))
    vm = VM(prog, max_steps=20000, addr_cap=70)
    # ---- locate and re-bind the payload
    items = prog.items['const']

    def find_bytes(data):
        hits = [it for it in items if it[1] == 'bytes' and bytes(it[2]) == bytes(data)]
        return hits

    syms = []
    if finder[0] == 'bytes':
        hits = find_bytes(finder[1]) if n else []
        if n and len(hits) != 1:
            res['harness_errors'].append('%s: constant not found exactly once in the const section (%d)' % (res['name'], len(hits)))
            return res
        if n:
            syms = vm.rebind_data('const', hits[0][0], n, 1, 'c')
    elif finder[0] == 'multi-bytes':
        groups = []
        for j, part in enumerate(finder[1]):
            hits = find_bytes(part)
            if len(hits) != 1:
                res['harness_errors'].append('%s: string constant %d not found exactly once' % (res['name'], j))
                return res
            groups.append(vm.rebind_data('const', hits[0][0], len(part), 1, 'c%d' % j))
        syms = groups
    else:
        width = 1 if finder[0] == 'byteitems' else W
        want = finder[1]
        k = 'byte' if width == 1 else 'word'
        seq = [(it[0], it[-1]) for it in items if it[1] == k]
        pos = None
        for s0 in range(len(seq) - len(want) + 1):
            if [v for _, v in seq[s0:s0 + len(want)]] == [x & ((1 << (8 * width)) - 1) for x in want] and \
                    all(seq[s0 + j][0] == seq[s0][0] + j * width for j in range(len(want))):
                pos = s0
                break
        if want and pos is None:
            res['harness_errors'].append('%s: constant array not found in the const section' % res['name'])
            return res
        if want:
            syms = vm.rebind_data('const', seq[pos][0], len(want), width, 'c')
    paths = vm.run()
    st.add_vm(vm, paths)
    dec = Decider(W)
    i = T.Z(vm.inputs['i'][0])
    flat = [s for g in syms for s in g] if finder[0] == 'multi-bytes' else syms
    names = {str(s) for s in flat}

    def mentions_payload(t):
        return any(nm in str(t) for nm in names) if names else False

    def expect(conds):
        """expected events as a function of i (symbolic) given the payload symbols"""
        out = []
        W_ = lambda v: v
        if kind in ('string', 'string-global', 'string-arg', 'string-bytes', 'cbytes', 'cbytes-local'):
            el = lambda j: syms[j]
        return out

    # element j of the constant, as a term over the payload symbols
    def elem(j):
        if kind == 'cbools':
            return z3.ZeroExt(B - 1, z3.Extract(j % 8, j % 8, syms[j // 8]))
        if kind in ('cints', 'cints-local'):
            return syms[j]
        return syms[j]

    for p in paths:
        if p.kind != 'done':
            res['inconclusive' if p.kind in ('bound', 'unknown') else 'violations'].append(
                '%s: path %s %s' % (res['name'], p.kind, p.info) if p.kind in ('bound', 'unknown') else
                dict(what='constant-data template reaches %s: %s' % (p.kind, p.info), case=res['name'], replay=dict(type='none', src=src)))
            continue
        st.obligations += 1
        if any(mentions_payload(c) for c in p.conds):
            res['violations'].append(dict(what='control flow depends on the contents of a constant', case=res['name'], replay=dict(type='none', src=src)))
            continue
        st.discharged += 1
        st.syntactic += 1
        ev = list(p.events)
        faulted = ('flag', 'out_of_bounds') in ev
        # the index: on a non-fault path i is concretised by the forking on addresses or stays symbolic for bit selection
        try:
            m = dec.check(p.conds)
        except Inconclusive as e:
            res['inconclusive'].append('%s: %s' % (res['name'], e))
            continue
        if m is None:
            continue
        iv = m.eval(i, True).as_long()
        # is i fixed on this path?
        fixed = dec.check(list(p.conds) + [i != iv]) is None
        exp = []
        nelem = n

        def out_b(t):
            exp.append(('out', t))

        def slp(t):
            exp.append(('sleep', t))
        ok_index = 0 <= (iv if iv < (1 << (B - 1)) else iv - (1 << B)) < nelem
        if kind in ('string', 'string-bytes', 'cbytes', 'cbytes-local', 'string-global'):
            for s_ in syms:
                out_b(s_)
            out_b(124)
            if kind == 'string-global':
                for b_ in mk2:
                    out_b(b_)
            slp(n)
            if not faulted:
                if not fixed:
                    res['inconclusive'].append('%s: index not determined on a non-fault path' % res['name'])
                    continue
                out_b(syms[iv])
                if kind == 'string-bytes':
                    for s_ in syms:
                        out_b(s_)
        elif kind == 'string-arg':
            for s_ in syms:
                out_b(s_)
            out_b(10)
            slp(n)
            if not faulted:
                out_b(syms[iv])
        elif kind in ('cints', 'cints-local', 'cbools'):
            slp(n)
            if not faulted:
                if fixed:
                    slp(elem(iv))
                else:
                    slp(None)      # placeholder: checked below by the solver for the symbolic bit index
                for j in range(n):
                    slp(elem(j))
        elif kind == 'strings':
            slp(n)
            if not faulted:
                for s_ in syms[iv]:
                    out_b(s_)
                for g in syms:
                    for s_ in g:
                        out_b(s_)
                    out_b(44)
        if faulted:
            exp += [('flag', 'out_of_bounds'), ('flag', 'error')]
        else:
            exp.append(('flag', 'win'))
        # compare: identical terms expected (the payload travels untouched), solver for the symbolic-index selections
        st.obligations += 1
        if len(exp) != len(ev):
            res['violations'].append(dict(what='constant-data template emits %d events, expected %d' % (len(ev), len(exp)), case=res['name'],
                                          observed=str(ev)[:400], expected=str(exp)[:400], replay=dict(type='none', src=src)))
            continue
        diffs = []
        for a, b in zip(ev, exp):
            if a[0] != b[0]:
                diffs.append(z3.BoolVal(True))
                continue
            if a[0] == 'flag':
                if a[1] != b[1]:
                    diffs.append(z3.BoolVal(True))
                continue
            if b[1] is None:
                # symbolic index into the constant: value must be the i-th element for every feasible i
                x = T.Z(a[1])
                sel = elem(nelem - 1)
                for j in range(nelem - 2, -1, -1):
                    sel = z3.If(i == j, elem(j), sel)
                diffs.append(x != sel)
                continue
            bits = 8 if a[0] == 'out' else B
            x, y = T.Z(a[1], bits), T.Z(b[1], bits)
            if not z3.eq(x, y):
                diffs.append(x != y)
        if not diffs:
            st.discharged += 1
            st.syntactic += 1
            continue
        try:
            mm = dec.check(list(p.conds) + [z3.Or(*diffs)])
        except Inconclusive as e:
            res['inconclusive'].append('%s: %s' % (res['name'], e))
            continue
        if mm is None:
            st.discharged += 1
        else:
            res['violations'].append(dict(what='a constant does not reach the output byte for byte (contents symbolic)', case=res['name'], model=str(mm)[:300],
                                          observed=str(ev)[:400], expected=str(exp)[:400], replay=dict(type='none', src=src)))
    st.queries += dec.nq
    st.solver_s += dec.tq
    res['stats'] = st.as_dict()
    res['npaths'] = len(paths)
    res['path_kinds'] = sorted({p.kind for p in paths})
    res['witness'] = str(paths[0].events[:6]) if paths else ''
    return res


def bytes_task(task):
    """every byte value through the real pipeline: lexer escape -> token -> emitted text -> strict assembler -> VM output"""
    from hv import hidc as H
    from hv.asm import assemble, AsmError
    from hv.vm import VM
    from hv.harness import Stats
    from hv.terms import events_bytes
    W = task['W']
    res = dict(name='bytes/%s-%s-w%d' % (task['form'], task['chunk'], W), violations=[], inconclusive=[], harness_errors=[])
    st = Stats()
    for data in task['datas']:
        data = bytes(data)
        NAMED = {7: '\\a', 8: '\\b', 12: '\\f', 10: '\\n', 13: '\\r', 9: '\\t', 0: '\\0', 39: "\\'", 34: '\\"', 92: '\\\\'}
        spell = task.get('spell', 'hex')
        if spell == 'named':        # the documented one-letter escapes (README), independent of the lexer's table
            one = lambda b: NAMED.get(b, '\\x%02x' % b)
        elif spell == 'unicode':    # \u{...} for ASCII code points
            one = lambda b: '\\u{%x}' % b if b < 0x80 else '\\x%02x' % b
        else:
            one = lambda b: '\\x%02x' % b
        esc = ''.join(one(b) for b in data)
        form = task['form']
        if form == 'string':
            src = 'empty @is_you() { write("%s"); sleep("%s".length); write("%s"[0]); }\n' % (esc, esc, esc)
            exp, sl = data + data[:1], [len(data)]
        elif form == 'raw-string':
            # printable ASCII written literally in the source (no escape on the way in)
            lit = data.decode('latin-1')
            src = 'empty @is_you() { write("%s"); }\n' % lit
            exp, sl = data, []
        elif form == 'char':
            src = 'empty @is_you() { write(\'%s\'); byte b = \'%s\'; write(b); sleep(\'%s\'); }\n' % (esc, esc, esc)
            exp, sl = data + data, [data[0]]
        elif form == 'cbytes':
            src = 'const byte[] g = [%s];\nempty @is_you() { write(g); write([%s]); }\n' % (', '.join("'%s'" % one(b) for b in data), ', '.join("'%s'" % one(b) for b in data))
            exp, sl = data + data, []
        elif form == 'string-array':
            src = 'const string[] g = ["%s", "q%s"];\nempty @is_you() { write(g[0]); write(g[1]); }\n' % (esc, esc)
            exp, sl = data + b'q' + data, []
        st.obligations += 1
        try:
            comp = H.compile_src(src, W, 40, False)
            prog = assemble(comp.lines, {})
            p = VM(prog, max_steps=20000).run_concrete()
            b, f, s = events_bytes(p.events)
            ok = (b == exp and f == ['win'] and s == sl)
            why = 'printed %r flags %s sleeps %s, expected %r' % (b, f, s, exp)
        except AsmError as e:
            ok, why = False, 'emitted assembly is not well-formed: %s' % e
        except H.CompilerError as e:
            ok, why = False, 'compiler rejected the constant: %s' % e
        if ok:
            st.discharged += 1
        else:
            res['violations'].append(dict(what='constant bytes %r (%s): %s' % (data, form, why), replay=dict(type='vm-events', src=src, word=W, stack=40, unchecked=False, argv={},
                                                                                                            expected=None, observed=why)))
            if len(res['violations']) > 5:
                break
    st.paths = len(task['datas'])
    res['stats'] = st.as_dict()
    res['npaths'] = len(task['datas'])
    res['path_kinds'] = ['concrete']
    return res


def main():
    rep = Report(PID, 'translation_validation', 'symbolic execution with the payload of every constant replaced by solver symbols (z3); exhaustive byte values through the real pipeline and the strict assembler; CrossHair on the escaping function')
    quick = rep.tier == 'quick'
    tasks = []
    lens = [0, 1, 2, 7, 8, 9, 17, 40] if quick else list(range(0, 41))
    for W in ([2, 3] if quick else [2, 3, 4, 8]):
        for kind in ('string', 'string-global', 'string-arg', 'string-bytes', 'cbytes', 'cbytes-local', 'cints', 'cints-local', 'cbools', 'strings'):
            for n in lens:
                if kind == 'strings' and n > 12:
                    continue
                if n == 0 and kind != 'string':
                    continue
                if W != 2 and quick and n not in (1, 9, 40):
                    continue
                tasks.append(dict(name='const/%s-%d-w%d' % (kind, n, W), kind=kind, n=n, W=W))
    run_tasks(rep, tasks, worker=payload_task, limit=600)
    # (B) every byte value
    btasks = []
    singles = [[b] for b in range(256)]
    boundary = [0, 9, 10, 13, 31, 32, 34, 39, 92, 126, 127, 128, 255, 120, 48, 110]
    pairs = [[a, b] for a in boundary for b in boundary]
    import random
    rng = random.Random(rep.seed)
    rnd = [[rng.randrange(256) for _ in range(rng.randrange(3, 12))] for _ in range(60 if quick else 600)]
    for form in ('string', 'char', 'cbytes', 'string-array'):
        datas = singles + ([] if form == 'char' else pairs + rnd)
        for k in range(0, len(datas), 64):
            btasks.append(dict(name='bytes/%s-%d' % (form, k), form=form, chunk=k, datas=datas[k:k + 64], W=2))
    # long strings: escapes at every column of the emitted .ascii text
    longs = []
    for L in range(12, 100 if not quick else 80, 1 if not quick else 3):
        for pat in range(4):
            d = []
            for j in range(L):
                sel = (j * 7 + pat * 3 + L) % 11
                d.append([65 + j % 26, 0, 255, 34, 92, 10, 13, 39, 127, 32, 200][sel] if pat else 1 + (j * 37 + L) % 31)
            longs.append(d)
    for k in range(0, len(longs), 48):
        btasks.append(dict(name='bytes/long-%d' % k, form='string', chunk='long%d' % k, datas=longs[k:k + 48], W=2))
    named = [7, 8, 12, 10, 13, 9, 0, 39, 34, 92]
    for form in ('string', 'char', 'cbytes', 'string-array'):
        btasks.append(dict(name='bytes/named-' + form, form=form, chunk='named', spell='named', W=2,
                           datas=[[b] for b in named] + ([[a, b] for a in named for b in named] if form != 'char' else [])))
        btasks.append(dict(name='bytes/unicode-' + form, form=form, chunk='unicode', spell='unicode', W=2, datas=[[b] for b in range(0, 128)]))
    printable = [[b] for b in range(32, 127) if b not in (34, 92)]
    btasks.append(dict(name='bytes/raw', form='raw-string', chunk=0, datas=printable + [[65, b, 66] for b in range(32, 127) if b not in (34, 92)], W=2))
    run_tasks(rep, btasks, worker=bytes_task, limit=600, sample_every=5)
    # (D) several constants in one program (equal values in arrays of different element types, repeated strings, mixed
    #     global / local / const / mutable): VM vs reference interpreter
    from hv import families as F
    from hv.vmri import case_to_task, check_case
    multi = []

    def M(name, src, **arrays):
        multi.append(F.C('const-multi/' + name, src, **arrays))
    M('same-values', "const int[] a = [1, 2, 3];\nconst byte[] b = [1, 2, 3];\nconst bool[] c = [true, false, true];\nconst int[] d = [1, 2, 3];\nbyte[] e = [1, 2, 3];\n"
      "empty @is_you(int i) { sleep(a[i]); write(b[i]); sleep(c[i] is int); sleep(d[i]); e[1] = 9; write(e[i]); write(b); write(e); sleep(a[2] + d[0]); }\n")
    M('same-values-local', "empty @is_you(int i) { const int[] a = [7, 8]; const byte[] b = [7, 8]; const int[] d = [7, 8]; const bool[] c = [true, true, true, false, false, false, false, false]; "
      "sleep(a[i]); write(b[i]); sleep(d[i]); sleep(c[i] is int); const byte[] f = [7]; write(f); }\n")
    M('same-strings', "const string s1 = \"dup\";\nstring s2 = \"dup\";\nempty @is_you(int i) { write(s1); write(s2); s2 = \"du\"; write(s2); write(\"dup\"[i]); write(\"dup\" is byte[]); "
      "const byte[] z = ['d', 'u', 'p']; write(z[i]); const string[] ss = [\"dup\", \"du\", \"dup\"]; write(ss[i]); }\n")
    M('word-vs-bytes', "const int[] a = [258, 0];\nconst byte[] b = [2, 1, 0, 0];\nconst int[] c = [513];\nempty @is_you(int i) { sleep(a[i]); write(b[i]); sleep(c[0]); sleep(a[0]); }\n")
    M('bools-vs-bytes', "const bool[] f = [true, false, true, false, false, false, false, false, true];\nconst byte[] b = [5, 1];\nconst byte[] g = [5];\nempty @is_you(int i) { sleep(f[i] is int); write(b[i]); write(g); sleep(f[8] is int); }\n")
    M('mutable-globals', "int[] a = [4, 5, 6];\nconst int[] c = [4, 5, 6];\nint[] a2 = [4, 5, 6];\nempty @is_you(int i) { a[i] = 9; sleep(a[0] + a[1] + a[2]); sleep(c[i]); sleep(a2[i]); }\n")
    M('param-storage-bytes', "const byte[] gc = ['g', 'c', '!'];\nempty show(const byte[] a, int i) { write(a[i]); write(a); sleep(a.length); }\n"
      "empty @is_you(int i) { byte[] st = ['s', 't', 'k']; show(st, i); show(gc, i); show(\"str\", i); show(['l', 'i', 't'], i); const byte[] lc = ['l', 'c', '.']; show(lc, i); st[0] = 'S'; show(st, i); }\n")
    M('param-storage-ints', "const int[] gc = [7, 8, 9];\nint[] gm = [4, 5, 6];\nint pick(const int[] a, int i) { return a[i] + a.length; }\n"
      "empty @is_you(int i) { int[] st = [1, 2, 3]; sleep(pick(st, i)); sleep(pick(gc, i)); sleep(pick([10, 20, 30], i)); sleep(pick(gm, i)); gm[1] = 50; sleep(pick(gm, i)); sleep(pick(st, i)); }\n")
    M('param-storage-bools', "const bool[] gc = [true, false, true, true, false, false, true, false, true];\nint cnt(const bool[] a) { int n = 0; for (int i = 0; i < a.length; i += 1) { if (a[i]) { n += 1; } } return n; }\n"
      "empty @is_you(int x) { bool[] st = [x > 0, true, false]; sleep(cnt(st)); sleep(cnt(gc)); sleep(cnt([true, true])); sleep(cnt(st)); }\n")
    M('param-storage-strings', "const string[] gc = [\"ab\", \"c\"];\nempty all(const string[] a) { for (int i = 0; i < a.length; i += 1) { write(a[i]); write(','); } }\n"
      "empty @is_you(int x) { string[] st = [\"x\", \"yz\"]; all(st); all(gc); all([\"lit\"]); st[0] = \"X\"; all(st); }\n")
    M('param-storage-entry-args', "empty show(const byte[] a) { write(a); }\nempty @is_you(const byte[] xs) { byte[] st = ['s']; show(st); show(xs); show(\"k\"); }\n", xs=2)
    # empty constants of every kind reach the output as nothing at all (and the program goes on)
    M('empty-constants', "const byte[] ke = [];\nconst int[] ie = [];\nconst bool[] be = [];\nconst string se = \"\";\nconst string[] sa = [];\nempty show(const byte[] a) { write('<'); write(a); write('>'); }\n"
      "empty @is_you(int i) { write('['); write(ke); write(']'); writeln(ke); const byte[] le = []; write(le); show(le); show(ke); show(\"\"); show(\"\" is byte[]); show(se is byte[]); write(se); write(\"\"); "
      "sleep(ke.length + ie.length + be.length + se.length + sa.length); if (i > 0) { sleep(ie[i]); } write('.'); }\n")
    M('empty-then-data', "const byte[] ke = [];\nconst byte[] kd = ['d'];\nconst string s0 = \"\";\nconst string s1 = \"x\";\nempty @is_you(int i) { write(ke); write(kd); write(s0); write(s1); write(ke); writeln(s0); write([\"\", \"y\"][i]); }\n")
    # tables with special contents (all zero, all equal, all ones): a compact encoding of such a table must still occupy and return
    # every element, for every element type and section, with a distinct table right behind it
    for v, tag in ((0, 'zero'), (1, 'one'), (-1, 'minus1'), (255, 'ff')):
        for n in (1, 2, 3, 5):
            vs = ', '.join([str(v)] * n)
            bv = ', '.join([str(v & 0xFF)] * n)
            fv = ', '.join(['true' if v & 1 else 'false'] * n)
            M('uniform-%s-%d' % (tag, n),
              "const int[] t = [%s];\nconst int[] after = [11, 22, 33];\nint[] mt = [%s];\nint[] mafter = [44, 55];\nconst byte[] bt = [%s];\nconst byte[] bafter = [66, 77];\n"
              "const bool[] ft = [%s];\nconst bool[] fafter = [true, false, true];\n"
              "empty @is_you(int i) { sleep(t[i %% %d]); sleep(after[i %% 3]); sleep(t.length); sleep(mt[i %% %d]); sleep(mafter[i %% 2]); write(bt[i %% %d]); write(bafter); sleep(ft[i %% %d] is int); "
              "sleep(fafter[i %% 3] is int); const int[] lt = [%s]; const int[] lafter = [88, 99]; sleep(lt[i %% %d]); sleep(lafter[i %% 2]); int[] st = [%s]; sleep(st[i %% %d]); sleep(after[2] + mafter[1] + lafter[1]); }\n"
              % (vs, vs, bv, fv, n, n, n, n, vs, n, vs, n))
    M('empty-strings-table', "const string[] es = [\"\", \"\", \"\"];\nconst string[] after = [\"a\", \"\", \"bc\"];\nconst string z = \"\\0\\0\";\nconst string zz = \"\\0\";\n"
      "empty @is_you(int i) { write(es[i % 3]); write('|'); write(after[i % 3]); write('|'); write(z); write('|'); write(zz); sleep(z.length + zz.length + es.length); sleep(es[i % 3].length); }\n")
    # tables whose encodings coincide although the tables differ: packed bools of different lengths, 0/1 bytes vs bools, in both orders
    M('packed-bools-lengths', "const bool[] a3 = [true, false, true];\nconst bool[] a5 = [true, false, true, false, false];\nconst bool[] b9 = [true, true, false, false, true, false, false, false, true];\n"
      "const bool[] b16 = [true, true, false, false, true, false, false, false, true, false, false, false, false, false, false, false];\n"
      "empty @is_you(byte i) { sleep(a3.length); sleep(a5.length); sleep(b9.length); sleep(b16.length); sleep(a5[i % 5] is int); sleep(a3[i % 3] is int); sleep(b16[i % 16] is int); sleep(b9[i % 9] is int); "
      "const bool[] l3 = [false, true, true]; const bool[] l6 = [false, true, true, false, false, false]; sleep(l3.length + l6.length * 10); sleep(l6[i % 6] is int); }\n")
    for first in ('bytes', 'bools'):
        decl = ["const byte[] digits = [1, 0, 1];", "const bool[] flags = [true, false, true];"]
        if first == 'bools':
            decl.reverse()
        M('bytes01-vs-bools-' + first, "empty @is_you(int i) { %s %s write(digits[i %% 3]); sleep(flags[i %% 3] is int); sleep([true, false, true][i %% 3] is int); write(([1, 0, 1] is byte[])[i %% 3]); "
          "sleep([1, 0, 1][i %% 3]); sleep(digits.length + flags.length); }\n" % tuple(decl))
    # long strings: the length is a word (length, truthiness, last element, view as bytes)
    for n in (255, 256, 257, 300, 513):
        body = ''.join(chr(97 + (j * 7 + n) % 26) for j in range(n))
        M('long-string-%d' % n, "const string gl = \"%s\";\nempty @is_you(int i) { string s = \"%s\"; sleep(s.length); sleep(gl.length); if (s) { write('t'); } else { write('f'); } write(s[%d]); write(gl[i %% 7 + %d]); "
          "const byte[] v = s is byte[]; sleep(v.length); write(v[%d]); sleep((gl is bool) is int); }\n" % (body, body, n - 1, n - 7, n - 1))
    # the byte view of a string that reaches the conversion in every way (literal, local, parameter, element, call result, global)
    M('string-views', "const string[] names = [\"ab\", \"cde\"];\nstring gs = \"fgh\";\nstring pick(int v) { return names[v % 2]; }\nempty show(string p, int i) { const byte[] v = p is byte[]; write(v); write(v[i % p.length]); sleep(v.length); }\n"
      "empty @is_you(int i) { string l = \"xyz\"; const byte[] a = l is byte[]; write(a); sleep(a.length); write(a[i % 3]); write(names[i % 2] is byte[]); write(pick(i) is byte[]); write(gs is byte[]); "
      "show(l, i); show(names[1], i); show(\"lit\", i); const byte[] b = names[0] is byte[]; write(b[i % 2]); const byte[] c = pick(i + 1) is byte[]; sleep(c.length); write(c); }\n")
    mtasks = [case_to_task(c.with_(word=W, stack=96)) for c in multi for W in ([2, 4] if quick else [2, 3, 4, 8])]
    run_tasks(rep, mtasks, worker=check_case, limit=600, sample_every=3)
    # (C) CrossHair on the escaping function
    try:
        from hv import chx
        chx.run_into(rep, 'c13', per_condition_timeout=500 if quick else 900)
    except ImportError:
        rep.cov['crosshair'] = 'CrossHair harness not available'
    rep.rule = ('payload templates: kind in {string local/global/argument/converted, const byte/int/bool arrays global and local, string arrays} x length %s x word size, contents symbolic; '
                'byte enumeration: all 256 values singly (string, char, const byte array, string array), boundary pairs, seeded random strings' % (lens,))
    rep.functions_encoded = ['asm._escape_bytes, IntLiteral.__bytes__, AsciiDirective, WordDirective/ByteDirective, CodeGen.label_for_string/make_global/add_global_array/pack_bools, emitted string table and const arrays']
    rep.bounds = dict(lengths=lens, outside='source text is concrete (escapes written as \\xHH or printable ASCII); non-ASCII source characters are the lexer\'s subject (C12)')
    rep.assumptions = ['Sphinx machine model (DESIGN section 3) incl. the assembler\'s escape syntax (\\\\ \\" \\\' \\n \\r \\t \\0 \\xHH)']
    return rep.finish()


if __name__ == '__main__':
    sys.exit(main())
