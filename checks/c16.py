"""C16 — control never runs off the end of a function; dropped "unreachable" code can never run.
(1) fall-off monitor on the symbolic VM (committed and speculative timelines) over control-flow skeletons;
(2) VM vs reference interpreter on the same programs: a non-empty function always returns a value (the
    caller observes it), and the RI raises `dropped-code-reached` when a block the compiler truncated
    completes its last kept statement normally."""
import os
import sys

sys.path.insert(0, os.path.dirname(os.path.dirname(os.path.abspath(__file__))))
from hv.report import Report
from hv import families as F
from hv.famcheck import run_tasks
from hv.vmri import case_to_task

PID = 'C16'


def extra_cases():
    out = []

    def T(name, src, **arrays):
        out.append(F.C('cf/' + name, src, **arrays))
    sent = "empty sentinel() { write('#'); write('#'); all_is_broken(); }\n"
    # bodies whose only exits are inside loops / try / nested blocks; every condition an input
    T('loop-cond-return', "int f(int a, int b) { while (a > 0) { return 1; } return 2; }\n" + sent + "empty @is_you(int a, int b) { sleep(f(a, b)); write('.'); }\n")
    T('for-continue-return', "int f(int a, int b) { b = b % 3; for (;;) { if (b < 2) { b += 1; continue; } return b; } }\n" + sent + "empty @is_you(int a, int b) { sleep(f(a, b)); write('.'); }\n")
    T('while-true-continue', "int f(int a, int b) { b = b % 3; while (true) { b += 1; if (b < 3) { continue; } return b; } }\n" + sent + "empty @is_you(int a, int b) { sleep(f(a, b)); write('.'); }\n")
    T('defeat-func-end', "int !f(int a) { !truth_is_defeat(a > 0); return 5; }\n" + sent + "empty @is_you(int a, int b) { try { sleep(!f(a)); } stop { write('s'); } write('.'); }\n")
    T('defeat-func-is-defeat', "int !f(int a) { if (a > 0) { return 3; } !is_defeat(); }\n" + sent + "empty @is_you(int a, int b) { try { sleep(!f(a)); } undo { write('u'); } write('.'); }\n")
    T('empty-func-fall', "empty f(int a) { if (a > 0) { write('p'); return; } write('n'); }\n" + sent + "empty @is_you(int a, int b) { f(a); f(b); write('.'); }\n")
    T('empty-func-loop', "empty f(int a) { a = a % 3; while (a > 0) { a -= 1; if (a == 1) { return; } } }\n" + sent + "empty @is_you(int a, int b) { f(a); f(b); write('.'); }\n")
    T('nested-blocks-return', "int f(int a, int b) { { { if (a > b) { return a; } } } { return b; } }\n" + sent + "empty @is_you(int a, int b) { sleep(f(a, b)); write('.'); }\n")
    T('try-both-return', "int @f(int a, int b) { try { !truth_is_defeat(a > 0); return 1; } undo { return 2; } }\n" + sent + "empty @is_you(int a, int b) { sleep(@f(a, b)); write('.'); }\n")
    T('try-stop-fall', "int @f(int a, int b) { try { !truth_is_defeat(a > 0); return 1; } stop { write('s'); } return 3; }\n" + sent + "empty @is_you(int a, int b) { sleep(@f(a, b)); write('.'); }\n")
    T('win-at-end', "int f(int a) { if (a > 0) { return 1; } write('w'); all_is_win(); }\n" + sent + "empty @is_you(int a, int b) { sleep(f(a)); write('.'); }\n")
    T('dropped-after-return', "int f(int a) { if (a > 0) { return 1; } else { return 2; } write('X'); return 3; }\n" + sent + "empty @is_you(int a, int b) { sleep(f(a)); write('.'); }\n")
    T('dropped-after-loop', "int f(int a) { while (true) { if (a > 0) { return 1; } a += 1; } write('X'); return 3; }\n" + sent + "empty @is_you(int a, int b) { sleep(f(a % 3)); write('.'); }\n")
    T('dropped-after-continue', "empty f(int a) { for (int i = 0; i < 2; i += 1) { if (i == a) { continue; write('X'); } write('k'); } }\n" + sent + "empty @is_you(int a, int b) { f(a); write('.'); }\n")
    T('user-all-is-win-overload', "empty all_is_win(bool really) { write('w'); }\nint pick(int a) { if (a > 0) { return 1; } all_is_win(false); }\n" + sent + "empty @is_you(int a, int b) { sleep(pick(a)); write('.'); }\n")
    T('user-all-is-broken-overload', "empty all_is_broken(int code) { sleep(code); }\nint pick(int a) { if (a > 0) { return 1; } all_is_broken(3); write('x'); return 2; }\n" + sent + "empty @is_you(int a, int b) { sleep(pick(a)); write('.'); }\n")
    T('user-overload-then-code', "empty all_is_win(int n) { sleep(n); }\nempty f(int a) { all_is_win(a); write('a'); if (a > 1) { all_is_win(); } write('b'); }\n" + sent + "empty @is_you(int a, int b) { f(a); write('.'); }\n")
    T('terminal-calls-in-expr-position', "int f(int a) { if (a > 0) { all_is_broken(); } return 4; }\n" + sent + "empty @is_you(int a, int b) { sleep(f(a)); write('.'); }\n")
    # the only break of a constant-true loop sits in a nested block that is followed by further nested blocks
    for nm, brk in (('if', "if (a > 0) { break; }"), ('bare', "{ if (a > 0) { break; } }"), ('try', "try { !truth_is_defeat(a < 0); if (a > 0) { break; } } undo { a += 2; }"),
                    ('else', "if (a <= 0) { a += 1; } else { break; }"), ('nested-loop', "for (int i = 0; i < 2; i += 1) { a += 1; } if (a > 2) { break; }")):
        for fnm, follow in (('if', "if (b > 0) { b -= 1; }"), ('bare', "{ b -= 1; }"), ('loop', "while (b > 1) { b -= 1; }"), ('try', "try { !truth_is_defeat(b > 5); b += 1; } undo { b -= 1; }"),
                            ('two', "if (b > 0) { b -= 1; } { a += 1; }")):
            T('break-in-%s-then-%s' % (nm, fnm), "int @scan(int a, int b) { a = a %% 3; b = b %% 3; while (true) { %s %s a += 1; } write('r'); return a + b; }\n" % (brk, follow) + sent
              + "empty @is_you(int a, int b) { sleep(@scan(a, b)); write('.'); }\n")
    T('break-in-if-then-if-empty', "empty scan(int a, int b) { a = a % 3; b = b % 3; while (true) { if (a > 0) { break; } if (b > 0) { b -= 1; } a += 1; } write('r'); }\n" + sent + "empty @is_you(int a, int b) { scan(a, b); write('.'); }\n")
    T('continue-in-if-then-if', "int scan(int a, int b) { a = a % 3; for (int i = 0; i < 3; i += 1) { if (a > i) { continue; } if (b > 0) { b -= 1; } return i; } write('r'); return 9; }\n" + sent + "empty @is_you(int a, int b) { sleep(scan(a, b)); write('.'); }\n")
    # every activation returns to its caller, also when arrays of the function are still in scope at the return
    for nm, decl in (('lit', "int[] v = [a, 2, 3];"), ('vla', "int v[3]; v[0] = a;"), ('bytes', "byte[] v = ['a', 'b']; v[0] = a is byte;"), ('dyn', "int n = a % 2 + 1; int v[n]; v[0] = a;"),
                     ('two', "int[] v = [a, 1]; bool[] w = [a > 0, true];")):
        T('return-with-array-' + nm, "int f(int a) { %s if (a > 5) { return v[0] + 1; } return v[0]; }\n" % decl + sent + "empty @is_you(int a, int b) { sleep(f(a)); sleep(f(b)); write('.'); }\n")
        T('implicit-return-with-array-' + nm, "empty f(int a) { %s sleep(v[0]); if (a > 5) { return; } write('k'); }\n" % decl + sent + "empty @is_you(int a, int b) { f(a); f(b); write('.'); }\n")
        T('nested-return-with-array-' + nm, "int f(int a) { for (int i = 0; i < 2; i += 1) { %s if (a > i) { return v[0] + i; } } return 0 - 1; }\nint g(int a) { %s return f(a) + v[0]; }\n" % (decl, decl)
          + sent + "empty @is_you(int a, int b) { sleep(g(a)); write('.'); }\n")
    T('return-with-array-in-try', "int @f(int a) { int[] v = [a, 2]; try { int[] w = [a, a]; !truth_is_defeat(a > 3); return w[0] + v[1]; } stop { return v[0]; } }\n" + sent + "empty @is_you(int a, int b) { sleep(@f(a)); sleep(@f(b)); write('.'); }\n")
    T('return-with-array-recursive', "int f(int n) { int[] v = [n, n + 1]; if (n <= 0) { return v[1]; } return f(n - 1) + v[0]; }\n" + sent + "empty @is_you(int a, int b) { sleep(f(a % 3)); write('.'); }\n")
    # functions with nothing in their body still return to their caller
    T('empty-body-functions', "empty hook() { }\nempty stub(int a, int b) { }\nempty !dhook() { }\nempty @yhook() { }\n" + sent
      + "empty @is_you(int a, int b) { write('a'); hook(); write('b'); stub(a, b); write('c'); try { !dhook(); write('d'); } undo { write('u'); } @yhook(); write('.'); if (a > 0) { tail(); } write('!'); }\nempty tail() { }\n")
    T('empty-body-blocks', "empty f(int a) { { } if (a > 0) { } else { } while (a > 100) { } }\nint g(int a) { { { } } return a; }\n" + sent + "empty @is_you(int a, int b) { f(a); sleep(g(b)); write('.'); }\n")
    # several try/stop blocks in one function, with another try/stop function running in between and defeat raised in a callee
    T('two-try-stop-one-function', "empty !d(int v) { write('d'); !truth_is_defeat(v > 0); }\nempty @other(int v) { try { !d(v); write('o'); } stop { write('O'); } }\n"
      "int @two(int a, int b) { int r = 0; try { !d(a); r += 1; } stop { write('1'); r += 10; } @other(b); try { !d(b); r += 2; } stop { write('2'); r += 20; } if (a > 5) { try { !d(a - 6); r += 4; } stop { r += 40; } } return r; }\n"
      + sent + "empty @is_you(int a, int b) { sleep(@two(a, b)); @other(a); sleep(@two(b, a)); write('.'); }\n")
    T('try-stop-in-untaken-branch', "empty !d(int v) { !truth_is_defeat(v > 0); }\nint @deep(int a, int b) { if (a > 3) { try { !d(b); return 1; } stop { return 2; } } return @inner(b); }\n"
      "int @inner(int b) { try { !d(b); return 3; } stop { write('s'); } try { !d(b - 1); return 4; } stop { return 5; } }\n" + sent + "empty @is_you(int a, int b) { sleep(@deep(a, b)); sleep(@deep(b, a)); write('.'); }\n")
    # activations of the library routines with boundary arguments (empty arrays of every storage class, empty strings, zero): each returns to its caller
    for n in (0, 1):
        T('library-boundary-args-%d' % n, "const byte[] ke = [];\nempty show(const byte[] a) { write('<'); write(a); write('>'); }\n" + sent
          + "empty @is_you(const byte[] codes, int a) { write(\"first\"); write('['); write(\"\" is byte[]); write(']'); write(ke); write(codes); writeln(codes); show(\"\" is byte[]); show(ke); show(codes); "
            "byte[] st = []; write(st); show(st); write(\"\"); writeln(\"\"); write(a > 0); write(0); byte dyn[a % 2]; write(dyn.length); write('.'); }\n", codes=n)
    T('last-function', "empty @is_you(int a, int b) { sleep(f(a)); write('.'); }\nint f(int a) { if (a > 0) { return 1; } return 2; }\n")
    return out


def main():
    rep = Report(PID, 'model_checking', 'symbolic execution of the emitted assembly (z3) with a function-extent fall-through and return-to-caller monitor, and VM vs reference interpreter for returned values and dropped code')
    quick = rep.tier == 'quick'
    cases = extra_cases() + F.cf_enumerated() + F.cf_random(rep.seed, 300 if quick else 3000)
    widths = [2, 3, 4] if quick else [2, 3, 4, 8]
    tasks = []
    for W in widths:
        for i, c in enumerate(cases):
            if W != 2 and i % 3:
                continue
            tasks.append(case_to_task(c.with_(word=W, stack=96), monitor='hv.monitors.FalloffMonitor', max_steps=8000, allow_reject=True))
            if i % 5 == 0:
                tasks.append(case_to_task(c.with_(word=W, stack=96, unchecked=True, name=c.name + '/unchecked'), monitor='hv.monitors.FalloffMonitor', max_steps=8000, allow_reject=True))
    run_tasks(rep, tasks)
    rep.cov['states'] = rep.counts['instructions']
    rep.cov['transitions'] = rep.counts['instructions']
    rep.cov['traces_validated_against_impl'] = rep.counts['paths']
    rep.rule = ('function bodies built from {statement, return, break, continue, !is_defeat, !truth_is_defeat, all_is_win, all_is_broken, if/else, while(c), while(true), for, '
                'try/undo, try/stop, preempt}: hand-written shapes, all bodies of <= 2 atoms from a 16-atom list (ordinary and you functions), seeded random bodies to depth 3; '
                'each function followed by a sentinel function; programs the compiler rejects ("Missing return statement") are counted separately, not as failures')
    rep.functions_encoded = ['exit-mode analysis of hidc/ast/blocks.py + program.py as reflected in the emitted code; gen_block cleanup skipping; implicit return']
    rep.bounds = dict(word_sizes=widths, nesting_depth=3, instructions_per_path=8000, outside='bodies outside the families; loops are while(true) or bounded by construction')
    rep.assumptions = ['Sphinx machine model (DESIGN section 3)', 'function extents = code between consecutive func_*/library entry labels']
    return rep.finish()


if __name__ == '__main__':
    sys.exit(main())
