"""CrossHair harness for C14: the constant folder of hidc/ast (operands are symbolic Python integers).

Claim per foldable node kind: for operands inside the signed word range whose exact result is inside the range too,
the folded literal equals the machine result (wrap-around arithmetic, floor division, signed comparison, byte
truncation, 0/1 booleans), division/modulo are rejected exactly for a zero divisor, and the literal's coercibility
to byte is what the unfolded operator would have.  Outside that range the folder does not wrap: known finding
`fold-int-no-wrap` (finding_* functions).
"""
import sys
import os
sys.path.insert(0, os.environ.get('HIDC_ROOT', '/repo'))
from hidc.ast import (Add, Sub, Mul, Div, Mod, Neg, Pos, Not, And, Or, Lt, Le, Gt, Ge, Eq, Ne, Is, IntValue, ByteValue, BoolValue,
                      DataType, Environment)
from hidc.errors import TypeCheckError
from hidc.lexer import Span, Cursor

SP = Span(Cursor(0, 0), Cursor(0, 1))
ENV = Environment.empty()
FINDING_KEY = {'finding_add_wraps': 'fold-int-no-wrap', 'finding_neg_min': 'fold-int-no-wrap', 'finding_compare_after_overflow': 'fold-int-no-wrap'}
ARITH = [Add, Sub, Mul, Div, Mod]
CMPS = [Lt, Le, Gt, Ge, Eq, Ne]
GRID = [0, 1, -1, 2, 3, 7, 10, 127, 128, 255, 256, -128, -255, 1000, 32767, -32768, 181, -181]


def lo(W: int) -> int:
    return -(1 << (8 * W - 1))


def hi(W: int) -> int:
    return (1 << (8 * W - 1)) - 1


def wrap(v: int, W: int) -> int:
    m = 1 << (8 * W)
    return (v - lo(W)) % m + lo(W)


def machine(k: int, a: int, b: int, W: int) -> int:
    """the word the machine computes for operator k on in-range words a, b"""
    if k == 0:
        return wrap(a + b, W)
    if k == 1:
        return wrap(a - b, W)
    if k == 2:
        return wrap(a * b, W)
    if k == 3:
        return wrap(a // b, W)
    return wrap(a % b, W)


def lemma_addsub_fold(k: int, W: int, a: int, b: int) -> bool:
    """
    pre: 0 <= k <= 1 and 2 <= W <= 4
    pre: lo(W) <= a <= hi(W) and lo(W) <= b <= hi(W)
    pre: lo(W) <= (a + b if k == 0 else a - b) <= hi(W)
    post: __return__
    """
    r = ARITH[k](SP, IntValue(a, SP), IntValue(b, SP)).evaluate(ENV)
    return type(r) is IntValue and r.data == machine(k, a, b, W)


def twin_addsub_fold(k: int, W: int, a: int, b: int) -> bool:
    """
    pre: 0 <= k <= 1 and 2 <= W <= 4
    pre: lo(W) <= a <= hi(W) and lo(W) <= b <= hi(W)
    post: __return__
    """
    r = ARITH[k](SP, IntValue(a, SP), IntValue(b, SP)).evaluate(ENV)
    return r.data != 5


def lemma_mul_fold(i: int, W: int, b: int) -> bool:
    """
    pre: 0 <= i < len(GRID) and 2 <= W <= 4
    pre: lo(W) <= b <= hi(W) and lo(W) <= GRID[i] <= hi(W)
    pre: lo(W) <= GRID[i] * b <= hi(W)
    post: __return__
    """
    a = GRID[i]
    r1 = Mul(SP, IntValue(a, SP), IntValue(b, SP)).evaluate(ENV)
    r2 = Mul(SP, IntValue(b, SP), IntValue(a, SP)).evaluate(ENV)
    return type(r1) is IntValue and r1.data == machine(2, a, b, W) and r2.data == r1.data


def lemma_divmod_fold(k: int, W: int, a: int, i: int) -> bool:
    """
    pre: 3 <= k <= 4 and 2 <= W <= 4
    pre: 0 <= i < len(GRID) and GRID[i] != 0
    pre: lo(W) <= a <= hi(W) and lo(W) <= GRID[i] <= hi(W)
    pre: not (a == lo(W) and GRID[i] == -1)
    post: __return__
    """
    b = GRID[i]
    r = ARITH[k](SP, IntValue(a, SP), IntValue(b, SP)).evaluate(ENV)
    return type(r) is IntValue and r.data == machine(k, a, b, W)


def lemma_divmod_fold_symbolic_divisor(k: int, a: int, b: int) -> bool:
    """
    pre: 3 <= k <= 4
    pre: -300 <= a <= 300 and -20 <= b <= 20 and b != 0
    post: __return__
    """
    r = ARITH[k](SP, IntValue(a, SP), IntValue(b, SP)).evaluate(ENV)
    q = a // b
    return r.data == (q if k == 3 else a - b * q)


def lemma_div_by_zero_rejected(k: int, a: int, b: int) -> bool:
    """
    pre: 3 <= k <= 4
    pre: -40000 <= a <= 40000 and -3 <= b <= 3
    post: __return__
    """
    try:
        ARITH[k](SP, IntValue(a, SP), IntValue(b, SP)).evaluate(ENV)
        rejected = False
    except TypeCheckError:
        rejected = True
    return rejected == (b == 0)


def lemma_compare_fold(k: int, a: int, b: int) -> bool:
    """
    pre: 0 <= k <= 5
    pre: -32768 <= a <= 32767 and -32768 <= b <= 32767
    post: __return__
    """
    r = CMPS[k](SP, IntValue(a, SP), IntValue(b, SP)).evaluate(ENV)
    exp = [a < b, a <= b, a > b, a >= b, a == b, a != b][k]
    return type(r) is BoolValue and (r.data is True or r.data is False) and r.data == exp


def twin_compare_fold(k: int, a: int, b: int) -> bool:
    """
    pre: 0 <= k <= 5
    pre: -32768 <= a <= 32767 and -32768 <= b <= 32767
    post: __return__
    """
    r = CMPS[k](SP, IntValue(a, SP), IntValue(b, SP)).evaluate(ENV)
    return r.data is False


def lemma_unary_fold(a: int, W: int) -> bool:
    """
    pre: 2 <= W <= 4
    pre: lo(W) < a <= hi(W)
    post: __return__
    """
    n = Neg(SP, IntValue(a, SP)).evaluate(ENV)
    p = Pos(SP, IntValue(a, SP)).evaluate(ENV)
    return type(n) is IntValue and n.data == wrap(-a, W) and p.data == a


def lemma_logic_fold(x: bool, y: bool) -> bool:
    """
    post: __return__
    """
    a = And(SP, BoolValue(x, SP), BoolValue(y, SP)).evaluate(ENV)
    o = Or(SP, BoolValue(x, SP), BoolValue(y, SP)).evaluate(ENV)
    n = Not(SP, BoolValue(x, SP)).evaluate(ENV)
    e = Eq(SP, BoolValue(x, SP), BoolValue(y, SP)).evaluate(ENV)
    return (type(a) is BoolValue and a.data is (x and y) and o.data is (x or y) and n.data is (not x) and e.data is (x == y))


def lemma_casts_fold(a: int, W: int) -> bool:
    """
    pre: 2 <= W <= 4
    pre: lo(W) <= a <= hi(W)
    post: __return__
    """
    b = Is(SP, IntValue(a, SP), DataType.BYTE).evaluate(ENV)
    t = Is(SP, IntValue(a, SP), DataType.BOOL).evaluate(ENV)
    back = Is(SP, Is(SP, IntValue(a, SP), DataType.BYTE), DataType.INT).evaluate(ENV)
    ti = Is(SP, Is(SP, IntValue(a, SP), DataType.BOOL), DataType.INT).evaluate(ENV)
    tb = Is(SP, Is(SP, IntValue(a, SP), DataType.BOOL), DataType.BYTE).evaluate(ENV)
    return (type(b) is ByteValue and b.data == a % 256 and type(t) is BoolValue and (t.data is True or t.data is False) and t.data == (a != 0)
            and type(back) is IntValue and back.data == a % 256 and ti.data == (1 if a != 0 else 0) and type(ti.data) is int
            and type(tb) is ByteValue and tb.data == (1 if a != 0 else 0))


def twin_casts_fold(a: int) -> bool:
    """
    pre: -32768 <= a <= 32767
    post: __return__
    """
    b = Is(SP, IntValue(a, SP), DataType.BYTE).evaluate(ENV)
    return b.data == a


def lemma_byte_literal_arith(a: int, b: int, k: int) -> bool:
    """
    pre: 0 <= a <= 255 and 0 <= b <= 255 and 0 <= k <= 2
    post: __return__
    """
    # byte-typed literals are zero-extended operands; the result is an int literal that stays coercible to byte
    r = ARITH[k](SP, ByteValue(a, SP, True, True), ByteValue(b, SP, True, True)).evaluate(ENV)
    exact = [a + b, a - b, a * b][k]
    return type(r) is IntValue and r.data == exact and r.coercible(DataType.BYTE)


def lemma_shrinkable_matches_unfolded(s1: bool, s2: bool, a: int, b: int, k: int) -> bool:
    """
    pre: 0 <= k <= 2 and -100 <= a <= 100 and -100 <= b <= 100
    post: __return__
    """
    # README: the result of arithmetic is coercible to byte iff all its operands are -- folded or not
    r = ARITH[k](SP, IntValue(a, SP, s1), IntValue(b, SP, s2)).evaluate(ENV)
    return r.coercible(DataType.BYTE) == (s1 and s2) and r.coercible(DataType.INT)


def lemma_substituted_constant_not_shrinkable(a: int) -> bool:
    """
    pre: -1000 <= a <= 1000
    post: __return__
    """
    v = IntValue(a, SP).at(SP)
    r = Add(SP, v, IntValue(1, SP)).evaluate(ENV)
    return (not v.coercible(DataType.BYTE)) and (not r.coercible(DataType.BYTE)) and r.data == a + 1


def lemma_chain_fold(a: int, b: int, c: int, k1: int, k2: int) -> bool:
    """
    pre: 0 <= k1 <= 1 and 0 <= k2 <= 1
    pre: -32768 <= a <= 32767 and -32768 <= b <= 32767 and -32768 <= c <= 32767
    pre: -32768 <= (a + b if k1 == 0 else a - b) <= 32767
    pre: -32768 <= ((a + b if k1 == 0 else a - b) + c if k2 == 0 else (a + b if k1 == 0 else a - b) - c) <= 32767
    post: __return__
    """
    inner = ARITH[k1](SP, IntValue(a, SP), IntValue(b, SP))
    r = ARITH[k2](SP, inner, IntValue(c, SP)).evaluate(ENV)
    return type(r) is IntValue and r.data == machine(k2, machine(k1, a, b, 2), c, 2)


def finding_add_wraps(a: int, b: int) -> bool:
    """
    pre: -32768 <= a <= 32767 and -32768 <= b <= 32767
    post: __return__
    """
    r = Add(SP, IntValue(a, SP), IntValue(b, SP)).evaluate(ENV)
    return wrap(r.data, 2) == r.data       # the folded value is not representable: the target would have wrapped


def finding_neg_min(a: int) -> bool:
    """
    pre: -32768 <= a <= 32767
    post: __return__
    """
    r = Neg(SP, IntValue(a, SP)).evaluate(ENV)
    return wrap(r.data, 2) == r.data


def finding_compare_after_overflow(a: int, b: int) -> bool:
    """
    pre: 0 <= a <= 32767 and 0 <= b <= 32767
    post: __return__
    """
    r = Gt(SP, Add(SP, IntValue(a, SP), IntValue(b, SP)), IntValue(0, SP)).evaluate(ENV)
    return r.data == (wrap(a + b, 2) > 0)
