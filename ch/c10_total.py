"""CrossHair harness for C10 (reduced scope, see DESIGN.md): totality of the pieces that can be executed symbolically.

 * compiler options: CodeGen(env, word_size, stack_size, unchecked) with symbolic integers either raises CodeGenError or the
   configuration is one the assembler can represent;
 * the parser on short token lists drawn from a representative token universe raises nothing but ParserError;
 * the typechecker -> generator interface on statement skeletons built from selectors: evaluate() then CodeGen raise nothing
   but CompilerError.
"""
import os
import sys
sys.path.insert(0, os.environ.get('HIDC_ROOT', '/repo'))
from hidc.lexer import Lexeme, Span, Cursor, SourceCode
from hidc.lexer import tokens as T
from hidc.parser import rules, parse
from hidc.parser.grammar import ps_program, ps_block, ps_expr, ps_stmt, BlockContext as BC
from hidc.utils.lazylist import lazy_list
from hidc.errors import ParserError, CompilerError, CodeGenError
from hidc.ast import Environment
from hidc.codegen import CodeGen

_src = "empty @is_you() { }\n"
_env = Environment.empty()
parse(SourceCode.from_string(_src)).evaluate(_env)


def lemma_options(word_size: int, stack_size: int, unchecked: bool) -> bool:
    """
    pre: -2 <= word_size <= 9 and -70000 <= stack_size <= 70000
    post: __return__
    """
    try:
        cg = CodeGen(_env, word_size, stack_size, unchecked)
    except CodeGenError:
        return True
    # accepted: the state section (registers, stack, entry frame) must be addressable with non-negative sizes
    return word_size >= 2 and stack_size >= 0 and (stack_size + 5) * word_size <= (1 << (8 * word_size - 1)) - 1


def twin_options(word_size: int, stack_size: int) -> bool:
    """
    pre: -2 <= word_size <= 9 and -70000 <= stack_size <= 70000
    post: __return__
    """
    try:
        CodeGen(_env, word_size, stack_size, False)
    except CodeGenError:
        return True
    return False


def lexemes(toks):
    for i, t in enumerate(toks):
        yield Lexeme(t, Span(Cursor(0, i), Cursor(0, i + 1)))
    return Cursor(0, len(toks))


B = T.BracToken
UNIVERSE = [T.Ident('a'), T.Ident('f', T.Flavor.YOU), T.Ident('d', T.Flavor.DEFEAT), T.IntToken(1), T.CharToken(65), T.StringToken(b's'), T.BoolToken.TRUE,
            B.LPAREN, B.RPAREN, B.LCURLY, B.RCURLY, B.LSQUARE, B.RSQUARE, T.SepToken.SEMICOLON, T.SepToken.COMMA, T.SepToken.DOT,
            T.OpToken.ADD, T.OpToken.NOT, T.OpToken.IS, T.OpToken.SPECULATION, T.OpToken.EQ, T.StmtToken.ASSIGN, T.IncAssignToken.IADD,
            T.StmtToken.RETURN, T.StmtToken.BREAK, T.StmtToken.CONST, T.BlockToken.IF, T.BlockToken.ELSE, T.BlockToken.WHILE, T.BlockToken.FOR,
            T.BlockToken.TRY, T.BlockToken.UNDO, T.BlockToken.PREEMPT, T.DataType.INT, T.DataType.EMPTY, T.Ident('length')]
NU = len(UNIVERSE)
RULES = [lambda: ps_program(), lambda: ps_block(BC.YOU), lambda: ps_block(BC.TRY | BC.LOOP), lambda: ps_expr(BC.YOU), lambda: ps_stmt(BC.DEFEAT), lambda: ps_expr(BC.NONE)]
NR = len(RULES)


def _parse_only_parser_error(r, toks):
    rule = RULES[r]()
    rule = rules.Parser(rule.consume, backtrack=False)
    try:
        rule.process(lazy_list(lexemes(toks)))
    except ParserError:
        pass
    return True         # any other exception propagates and is reported by CrossHair as a counterexample


def lemma_parser_total_len2(ra: int, a: int, b: int) -> bool:
    """
    pre: 0 <= ra < NR * 3 and 0 <= a < NU and 0 <= b < NU
    pre: a % 3 == ra % 3
    post: __return__
    """
    # partitioned by rule entry point (ra // 3) and the residue of the first token selector (ra % 3)
    return _parse_only_parser_error(ra // 3, [UNIVERSE[a], UNIVERSE[b]])


def lemma_parser_total_len1(r: int, a: int) -> bool:
    """
    pre: 0 <= r < NR and 0 <= a < NU
    post: __return__
    """
    return _parse_only_parser_error(r, [UNIVERSE[a]]) and _parse_only_parser_error(r, [])


def twin_parser_total_split(r: int, a: int) -> bool:
    """
    pre: 0 <= r < 2 and 0 <= a < NU
    post: __return__
    """
    # vacuity twin of the partitioned lemma: claims that no one-token input is ever rejected
    return _parse_only_parser_error(r, [UNIVERSE[a]]) and a != 1


SPLITS = {'twin_parser_total_split': ('r', 2), 'lemma_parser_total_len2': ('ra', 18)}
THOROUGH_ONLY = []

for _c in (BC.YOU, BC.TRY | BC.LOOP, BC.DEFEAT, BC.NONE, BC.FUNC):
    _ = _c.flavors
for _r in range(NR):
    for _a in range(NU):
        _parse_only_parser_error(_r, [UNIVERSE[_a]])
