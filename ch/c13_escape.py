"""CrossHair harness for C13 (compile-time side): asm._escape_bytes followed by the verification assembler's unescape is
the identity (symbolic byte value, both quote kinds); IntLiteral character immediates; CodeGen.pack_bools bit layout."""
import os
import sys
sys.path.insert(0, os.environ.get('HIDC_ROOT', '/repo'))
sys.path.insert(0, os.path.dirname(os.path.dirname(os.path.abspath(__file__))))
from hidc.codegen.asm import _escape_bytes, IntLiteral
from hidc.codegen.generator import CodeGen

ESC = {110: 10, 114: 13, 116: 9, 48: 0, 92: 92, 39: 39, 34: 34}
HEX = b'0123456789abcdefABCDEF'


def unescape(body):
    """the assembler's escape syntax (hv/asm.py), written over integer byte values so that CrossHair can follow it"""
    out = []
    i = 0
    n = len(body)
    while i < n:
        c = body[i]
        if c == 92:
            if i + 1 >= n:
                return None
            d = body[i + 1]
            if d == 120:
                if i + 3 >= n or body[i + 2] not in HEX or body[i + 3] not in HEX:
                    return None
                out.append(int(bytes([body[i + 2], body[i + 3]]), 16))
                i += 4
            elif d in ESC:
                out.append(ESC[d])
                i += 2
            else:
                return None
        else:
            if c < 0x20 or c > 0x7e:
                return None
            out.append(c)
            i += 1
    return out


def lemma_escape_one_byte(b: int, q: int) -> bool:
    """
    pre: 0 <= b <= 255 and 0 <= q <= 1
    post: __return__
    """
    quote = b'"' if q == 0 else b"'"
    e = _escape_bytes(bytes([b]), quote)
    # round trip, and the quote character never appears unescaped
    if unescape(e) != [b]:
        return False
    j = 0
    while j < len(e):
        if e[j] == 92:
            j += 2
            continue
        if e[j] == quote[0]:
            return False
        j += 1
    return True


def twin_escape_one_byte(b: int) -> bool:
    """
    pre: 0 <= b <= 255
    post: __return__
    """
    return len(_escape_bytes(bytes([b]), b'"')) == 1


def lemma_escape_two_bytes_classes(i: int, j: int, q: int) -> bool:
    """
    pre: 0 <= i < len(REPS) and 0 <= j < len(REPS) and 0 <= q <= 1
    post: __return__
    """
    quote = b'"' if q == 0 else b"'"
    data = bytes([REPS[i], REPS[j]])
    return unescape(_escape_bytes(data, quote)) == [REPS[i], REPS[j]]


REPS = [0, 9, 10, 13, 31, 32, 34, 39, 48, 65, 92, 110, 120, 126, 127, 128, 255]


def lemma_char_immediate(b: int) -> bool:
    """
    pre: 0 <= b <= 255
    post: __return__
    """
    t = IntLiteral(b, is_char=True).__bytes__()
    return len(t) >= 3 and t[0] == 39 and t[-1] == 39 and unescape(t[1:-1]) == [b] and IntLiteral(b).__bytes__() == str(b).encode()


def lemma_pack_bools(n: int, bits: int) -> bool:
    """
    pre: 0 <= n <= 9 and 0 <= bits < (1 << n)
    post: __return__
    """
    bools = [((bits >> k) & 1) == 1 for k in range(n)]
    packed = CodeGen.pack_bools(bools)
    if len(packed) != (n + 7) // 8:
        return False
    for k in range(n):
        if ((packed[k // 8] >> (k % 8)) & 1) != int(bools[k]):
            return False
    return all(0 <= p <= 255 for p in packed)


def twin_escape_split(b: int, q: int) -> bool:
    """
    pre: 0 <= b <= 255 and 0 <= q <= 1
    post: __return__
    """
    # vacuity twin of the partitioned lemmas: claims that escaping never lengthens a byte
    quote = b'"' if q == 0 else b"'"
    return len(_escape_bytes(bytes([b]), quote)) == 1


SPLITS = {'twin_escape_split': ('q', 2), 'lemma_pack_bools': ('n', 0, 10), 'lemma_escape_one_byte': ('q', 2)}
