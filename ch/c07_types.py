"""CrossHair harness for C07: the typechecker's coercion / cast lattice and overload resolution on real AST objects.

Selectors are small integers indexing PREBUILT lists of expression factories and types; the oracle is a transcription of
the README's typing rules written over (type, is-literal, ...) descriptors, independent of hidc's cast()/coercible().
"""
import os
import sys
sys.path.insert(0, os.environ.get('HIDC_ROOT', '/repo'))
from hidc import ast as A
from hidc.ast import DataType as D, ArrayType, Environment
from hidc.lexer import Span, Cursor
from hidc.lexer.tokens import Ident
from hidc.errors import TypeCheckError

SP = Span(Cursor(0, 0), Cursor(0, 1))
SCAL = [D.INT, D.BYTE, D.BOOL, D.STRING]
TYPES = SCAL + [ArrayType(t, c) for t in SCAL for c in (False, True)]
NT = len(TYPES)


def var(t, const=False):
    return A.VariableLookup(A.Variable('v', t, const), SP)


# expression factories with their descriptor (type, shrinkable-int-literal?)
SRC = [(lambda t=t: var(t), (t, False)) for t in TYPES] + [
    (lambda: A.IntValue(5, SP), (D.INT, True)),
    (lambda: A.IntValue(300, SP), (D.INT, True)),
    (lambda: A.IntValue(5, SP).at(SP), (D.INT, False)),                                  # substituted constant: no longer a literal
    (lambda: A.ByteValue(65, SP, is_char=True), (D.BYTE, False)),
    (lambda: A.BoolValue(True, SP), (D.BOOL, False)),
    (lambda: A.StringValue(b'x', SP), (D.STRING, False)),
    (lambda: A.Add(SP, var(D.BYTE), A.IntValue(1, SP)).evaluate(Environment.empty()), (D.INT, True)),      # byte + literal stays shrinkable
    (lambda: A.Add(SP, var(D.INT), A.IntValue(1, SP)).evaluate(Environment.empty()), (D.INT, False)),
    (lambda: A.Neg(SP, var(D.BYTE)).evaluate(Environment.empty()), (D.INT, True)),
    (lambda: A.Is(SP, A.IntValue(5, SP), D.INT).evaluate(Environment.empty()), (D.INT, False)),            # explicit cast: not shrinkable
    (lambda: A.Is(SP, var(D.INT), D.BYTE).evaluate(Environment.empty()), (D.BYTE, False)),
]
NS = len(SRC)


def spec_coercible(st, tt, shrink):
    if st == tt:
        return True
    if isinstance(st, ArrayType):
        return isinstance(tt, ArrayType) and tt.el_type == st.el_type and tt.const
    if st == D.BYTE and tt == D.INT:
        return True
    if st == D.STRING and tt == ArrayType(D.BYTE, True):
        return True
    if shrink and st == D.INT and tt == D.BYTE:
        return True
    return False


def spec_castable(st, tt):
    """explicit `is` (README "Allowed explicit type casts")"""
    if st == tt:
        return True
    if isinstance(tt, ArrayType):
        if isinstance(st, ArrayType):
            return st.el_type == tt.el_type and (tt.const or not st.const)
        return st == D.STRING and tt == ArrayType(D.BYTE, True)
    if isinstance(st, ArrayType):
        return tt == D.BOOL
    return (st, tt) in {(D.BYTE, D.INT), (D.BOOL, D.INT), (D.INT, D.BYTE), (D.BOOL, D.BYTE), (D.INT, D.BOOL), (D.BYTE, D.BOOL), (D.STRING, D.BOOL)}


def lemma_coercion_lattice(i: int, j: int) -> bool:
    """
    pre: 0 <= i < NS and 0 <= j < NT
    post: __return__
    """
    e = SRC[i][0]()
    st, shrink = SRC[i][1]
    tt = TYPES[j]
    exp = spec_coercible(st, tt, shrink)
    if e.type != st or e.coercible(tt) != exp:
        return False
    try:
        r = e.coerce(tt)
        ok = True
    except TypeCheckError:
        ok = False
    return ok == exp and (not ok or r.type == tt)


def twin_coercion_lattice(i: int, j: int) -> bool:
    """
    pre: 0 <= i < NS and 0 <= j < NT
    post: __return__
    """
    return not SRC[i][0]().coercible(TYPES[j])


def lemma_cast_lattice(i: int, j: int) -> bool:
    """
    pre: 0 <= i < NS and 0 <= j < NT
    post: __return__
    """
    e = SRC[i][0]()
    st = SRC[i][1][0]
    tt = TYPES[j]
    if isinstance(tt, ArrayType) and not tt.const:
        return True             # `is T[]` always denotes const T[] in the grammar
    exp = spec_castable(st, tt)
    try:
        r = e.cast(tt)
        ok = True
    except TypeCheckError:
        ok = False
    return ok == exp and (not ok or r.type == tt)


def lemma_coercible_implies_castable(i: int, j: int) -> bool:
    """
    pre: 0 <= i < NS and 0 <= j < NT
    post: __return__
    """
    e = SRC[i][0]()
    tt = TYPES[j]
    if not e.coercible(tt):
        return True
    try:
        return e.cast(tt).type == tt
    except TypeCheckError:
        return False


# ---- array literals: element-type inference and const flexibility
ELEMS = [lambda: A.IntValue(1, SP), lambda: var(D.BYTE), lambda: var(D.INT), lambda: A.BoolValue(True, SP), lambda: A.StringValue(b's', SP),
         lambda: A.ByteValue(66, SP, is_char=True), lambda: A.IntValue(300, SP)]
EDESC = [(D.INT, True), (D.BYTE, False), (D.INT, False), (D.BOOL, False), (D.STRING, False), (D.BYTE, False), (D.INT, True)]
NE = len(ELEMS)


def lemma_array_literal(a: int, b: int, j: int) -> bool:
    """
    pre: 0 <= a < NE and 0 <= b < NE and 0 <= j < NT
    post: __return__
    """
    tt = TYPES[j]
    descs = [EDESC[a], EDESC[b]]
    # the literal's own type: the first element type every element coerces to
    pref = None
    for (t, _s) in descs:
        if all(spec_coercible(t2, t, s2) for (t2, s2) in descs):
            pref = t
            break
    try:
        lit = A.ArrayLiteral((ELEMS[a](), ELEMS[b]()), SP).evaluate(Environment.empty())
        ok = True
    except TypeCheckError:
        ok = False
    if ok != (pref is not None):
        return False
    if not ok:
        return True
    if lit.type != ArrayType(pref, True):
        return False
    exp = isinstance(tt, ArrayType) and all(spec_coercible(t2, tt.el_type, s2) for (t2, s2) in descs)
    if lit.coercible(tt) != exp:
        return False
    if exp:
        c = lit.coerce(tt)
        return c.type == tt and all(v.type == tt.el_type for v in c.values)
    return True


def lemma_nested_array_rejected(a: int) -> bool:
    """
    pre: 0 <= a < NE
    post: __return__
    """
    inner = A.ArrayLiteral((ELEMS[a](),), SP)
    try:
        A.ArrayLiteral((inner, inner), SP).evaluate(Environment.empty())
        return False
    except TypeCheckError:
        pass
    try:
        A.ArrayLiteral((var(ArrayType(D.INT, False)),), SP).evaluate(Environment.empty())
        return False
    except TypeCheckError:
        return True


# ---- overload resolution: exact match first, else the first declared overload every argument can be coerced to
PT = [D.INT, D.BYTE, D.BOOL, D.STRING, ArrayType(D.INT, True), ArrayType(D.BYTE, True), ArrayType(D.INT, False)]
NP = len(PT)
ARGS = [(lambda: A.IntValue(5, SP), (D.INT, True)), (lambda: var(D.BYTE), (D.BYTE, False)), (lambda: var(D.INT), (D.INT, False)), (lambda: A.BoolValue(True, SP), (D.BOOL, False)),
        (lambda: A.StringValue(b's', SP), (D.STRING, False)), (lambda: var(ArrayType(D.INT, False)), (ArrayType(D.INT, False), False)),
        (lambda: var(ArrayType(D.BYTE, True)), (ArrayType(D.BYTE, True), False))]
NA = len(ARGS)
RETS = [D.INT, D.BYTE, D.BOOL]


def lemma_overload_resolution(p0: int, p1: int, p2: int, a: int) -> bool:
    """
    pre: 0 <= p0 < NP and 0 <= p1 < NP and 0 <= p2 < NP and 0 <= a < NA
    pre: p0 != p1 and p0 != p2 and p1 != p2
    post: __return__
    """
    env = Environment.empty()
    ps = [PT[p0], PT[p1], PT[p2]]
    env.add_funcs([A.BuiltinStub(RETS[k], Ident('f'), (ps[k],)) for k in range(3)])
    at, shrink = ARGS[a][1]
    exp = None
    for k in range(3):
        if ps[k] == at:
            exp = k
            break
    if exp is None:
        for k in range(3):
            if spec_coercible(at, ps[k], shrink):
                exp = k
                break
    try:
        r = A.FuncCall(Ident('f'), (ARGS[a][0](),), SP).evaluate(env)
        got = RETS.index(r.type)
        return exp == got and r.args[0].type == ps[got]
    except TypeCheckError:
        return exp is None


def lemma_overload_arity2(p0: int, p1: int, q0: int, q1: int, a: int, b: int) -> bool:
    """
    pre: 0 <= p0 <= 1 and 0 <= p1 <= 1 and 0 <= q0 <= 1 and 0 <= q1 <= 1 and 0 <= a <= 2 and 0 <= b <= 2
    pre: (p0, p1) != (q0, q1)
    post: __return__
    """
    env = Environment.empty()
    sigs = [(PT[p0], PT[p1]), (PT[q0], PT[q1])]
    env.add_funcs([A.BuiltinStub(RETS[k], Ident('f'), sigs[k]) for k in range(2)])
    descs = [ARGS[a][1], ARGS[b][1]]
    exp = None
    for k in range(2):
        if sigs[k] == (descs[0][0], descs[1][0]):
            exp = k
            break
    if exp is None:
        for k in range(2):
            if all(spec_coercible(descs[m][0], sigs[k][m], descs[m][1]) for m in range(2)):
                exp = k
                break
    try:
        r = A.FuncCall(Ident('f'), (ARGS[a][0](), ARGS[b][0]()), SP).evaluate(env)
        return exp == RETS.index(r.type)
    except TypeCheckError:
        return exp is None


def _bind2(env, sigs, a, b):
    descs = [ARGS[a][1], ARGS[b][1]]
    exp = None
    for k in range(2):
        if sigs[k] == (descs[0][0], descs[1][0]):
            exp = k
            break
    if exp is None:
        for k in range(2):
            if all(spec_coercible(descs[m][0], sigs[k][m], descs[m][1]) for m in range(2)):
                exp = k
                break
    try:
        r = A.FuncCall(Ident('f'), (ARGS[a][0](), ARGS[b][0]()), SP).evaluate(env)
        return exp == RETS.index(r.type)
    except TypeCheckError:
        return exp is None


SIGPAIRS = [((p0, p1), (q0, q1)) for p0 in range(2) for p1 in range(2) for q0 in range(2) for q1 in range(2) if (p0, p1) != (q0, q1)]
NSP = len(SIGPAIRS)


def lemma_overload_history(sp: int, a: int, b: int, c: int, d: int) -> bool:
    """
    pre: 0 <= sp < NSP
    pre: 0 <= a <= 2 and 0 <= b <= 2 and 0 <= c <= 2 and 0 <= d <= 2
    post: __return__
    """
    # the binding of a call does not depend on the calls checked before it (same program, another function body)
    env = Environment.empty()
    (p0, p1), (q0, q1) = SIGPAIRS[sp]
    sigs = [(PT[p0], PT[p1]), (PT[q0], PT[q1])]
    env.add_funcs([A.BuiltinStub(RETS[k], Ident('f'), sigs[k]) for k in range(2)])
    first = _bind2(env.new_child(), sigs, a, b)
    second = _bind2(env.new_child(), sigs, c, d)
    return first and second


def lemma_wrong_arity_rejected(n: int) -> bool:
    """
    pre: 0 <= n <= 3
    post: __return__
    """
    env = Environment.empty()
    env.add_funcs([A.BuiltinStub(D.INT, Ident('f'), (D.INT, D.INT))])
    try:
        A.FuncCall(Ident('f'), tuple(A.IntValue(1, SP) for _ in range(n)), SP).evaluate(env)
        return n == 2
    except TypeCheckError:
        return n != 2


def twin_overload_split(p0: int, a: int) -> bool:
    """
    pre: 0 <= p0 < 2 and 0 <= a < NA
    post: __return__
    """
    # vacuity twin of the partitioned lemmas: claims that every call binds to the first declared overload
    env = Environment.empty()
    ps = [PT[p0], PT[p0 + 2]]
    env.add_funcs([A.BuiltinStub(RETS[k], Ident('f'), (ps[k],)) for k in range(2)])
    try:
        r = A.FuncCall(Ident('f'), (ARGS[a][0](),), SP).evaluate(env)
        return RETS.index(r.type) == 0
    except TypeCheckError:
        return False


SPLITS = {'twin_overload_split': ('p0', 2), 'lemma_cast_lattice': ('j', 12), 'lemma_overload_resolution': ('p0', 7), 'lemma_overload_history': ('sp', 12)}
