"""CrossHair harness for C11: expressions group by the documented precedence and associativity.

The real ps_expr (hidc/parser/grammar.py) is fed token lists built from symbolic selectors; the oracle is an independent
precedence-climbing parser over the same tokens written from the README table:
    postfix [i] .length  >  unary + - not  >  is  >  * / %  >  + -  >  == != < <= > >=  >  and  >  or  >  ??
binary operators of one level group to the left, ?? does not chain, parentheses override.
"""
import os
import sys
sys.path.insert(0, os.environ.get('HIDC_ROOT', '/repo'))
from hidc.lexer import Lexeme, Span, Cursor
from hidc.lexer import tokens as T
from hidc.parser import rules
from hidc.parser.grammar import ps_expr, BlockContext as BC
from hidc.utils.lazylist import lazy_list
from hidc.errors import ParserError
from hidc import ast as A

O = T.OpToken
BINOPS = [O.MUL, O.DIV, O.MOD, O.ADD, O.SUB, O.EQ, O.NE, O.LT, O.LE, O.GT, O.GE, O.AND, O.OR, O.SPECULATION]
LEVEL = {O.MUL: 4, O.DIV: 4, O.MOD: 4, O.ADD: 5, O.SUB: 5, O.EQ: 6, O.NE: 6, O.LT: 6, O.LE: 6, O.GT: 6, O.GE: 6, O.AND: 7, O.OR: 8, O.SPECULATION: 9}
NB = len(BINOPS)
UNOPS = [None, O.ADD, O.SUB, O.NOT]
LP, RP, LS, RS = T.BracToken.LPAREN, T.BracToken.RPAREN, T.BracToken.LSQUARE, T.BracToken.RSQUARE
CM = T.SepToken.COMMA
CTX = BC.YOU
NAMES = ['a', 'b', 'c', 'd']


def lexemes(toks):
    for i, t in enumerate(toks):
        yield Lexeme(t, Span(Cursor(0, i), Cursor(0, i + 1)))
    return Cursor(0, len(toks))


def real_parse(toks):
    r = rules.Parser(ps_expr(CTX).consume, backtrack=False)
    try:
        res, rem = r.process(lazy_list(lexemes(toks)))
    except ParserError:
        return None
    if res is None or (True if rem else False):
        return None
    return shape(res)


def shape(n):
    if isinstance(n, A.VariableLookup):
        return n.var.name
    if isinstance(n, A.ByteValue):
        return ('chr', n.data)
    if isinstance(n, A.IntValue):
        return n.data
    if isinstance(n, A.StringValue):
        return ('str', n.data)
    if isinstance(n, A.BoolValue):
        return ('bool', n.data)
    if isinstance(n, A.ArrayLiteral):
        return ('arr',) + tuple(shape(v) for v in n.values)
    if isinstance(n, A.FuncCall):
        return ('call', n.func.name) + tuple(shape(v) for v in n.args)
    if isinstance(n, A.Speculation):
        return (O.SPECULATION, shape(n.left), shape(n.right))
    if isinstance(n, A.Binary):
        return (type(n).token, shape(n.left), shape(n.right))
    if isinstance(n, A.Unary):
        return ('u', type(n).token, shape(n.arg))
    if isinstance(n, A.Is):
        return ('is', shape(n.expr), n.type)
    if isinstance(n, A.ArrayLookup):
        return ('idx', shape(n.source), shape(n.index))
    if isinstance(n, A.LengthLookup):
        return ('len', shape(n.source))
    raise TypeError(n)


# ---------------- reference parser (precedence climbing from the README table)
class Ref:
    def __init__(self, toks):
        self.t = toks
        self.i = 0
        self.in_spec = 0       # > 0 while inside an operand of ??: a nested ?? is not allowed there (context rule, C06)

    def peek(self):
        return self.t[self.i] if self.i < len(self.t) else None

    def primary(self):
        t = self.peek()
        if t == LP:
            self.i += 1
            e = self.top()
            if e is None or self.peek() != RP:
                return None
            self.i += 1
        elif isinstance(t, T.Ident):
            self.i += 1
            e = t.name
            if self.peek() == LP:
                self.i += 1
                items = self.comma_list(RP)
                if items is None:
                    return None
                e = ('call', t.name) + items
        elif isinstance(t, T.IntToken):
            self.i += 1
            e = t.data
        elif isinstance(t, T.CharToken):
            self.i += 1
            e = ('chr', t.data)
        elif isinstance(t, T.StringToken):
            self.i += 1
            e = ('str', t.data)
        elif isinstance(t, T.BoolToken):
            self.i += 1
            e = ('bool', t.data)
        elif t == LS:
            self.i += 1
            items = self.comma_list(RS)
            if items is None:
                return None
            e = ('arr',) + items
        else:
            return None
        while True:
            t = self.peek()
            if t == LS:
                self.i += 1
                ix = self.top()
                if ix is None or self.peek() != RS:
                    return None
                self.i += 1
                e = ('idx', e, ix)
            elif t == T.SepToken.DOT:
                self.i += 1
                if self.peek() != T.Ident('length'):
                    return None
                self.i += 1
                e = ('len', e)
            else:
                return e

    def comma_list(self, close):
        items = []
        if self.peek() != close:
            while True:
                e = self.top()
                if e is None:
                    return None
                items.append(e)
                if self.peek() == CM:
                    self.i += 1
                    continue
                break
        if self.peek() != close:
            return None
        self.i += 1
        return tuple(items)

    def unary(self):
        t = self.peek()
        if t in (O.ADD, O.SUB, O.NOT):
            self.i += 1
            a = self.unary()
            return None if a is None else ('u', t, a)
        return self.primary()

    def cast(self):
        e = self.unary()
        if e is None:
            return None
        if self.peek() == O.IS:
            self.i += 1
            tp = self.peek()
            if not isinstance(tp, T.DataType) or tp == T.DataType.EMPTY:
                return None
            self.i += 1
            return ('is', e, tp)
        return e

    def binary(self, level):
        if level == 3:
            return self.cast()
        e = self.binary(level - 1)
        if e is None:
            return None
        while self.peek() in LEVEL and LEVEL[self.peek()] == level:
            op = self.peek()
            self.i += 1
            r = self.binary(level - 1)
            if r is None:
                return None
            e = (op, e, r)
        return e

    def top(self):
        e = self.binary(8)
        if e is None:
            return None
        if self.peek() == O.SPECULATION:
            if self.in_spec or has_spec(e):
                return None
            self.i += 1
            self.in_spec += 1
            r = self.binary(8)
            self.in_spec -= 1
            if r is None:
                return None
            return (O.SPECULATION, e, r)
        return e


def has_spec(t):
    if not isinstance(t, tuple):
        return False
    if t[0] == O.SPECULATION:
        return True
    return any(has_spec(x) for x in t[1:])


def valid_tree(t):
    """no ?? inside an operand of another ??"""
    if not isinstance(t, tuple):
        return True
    if t[0] == O.SPECULATION and (has_spec(t[1]) or has_spec(t[2])):
        return False
    return all(valid_tree(x) for x in t[1:])


def ref_parse(toks):
    p = Ref(toks)
    e = p.top()
    if e is None or p.i != len(toks):
        return None
    return e


def operand(name, u, post, cast):
    """tokens of one operand: optional unary prefix, postfix form and `is` cast"""
    toks = []
    if UNOPS[u] is not None:
        toks.append(UNOPS[u])
    toks.append(T.Ident(name))
    if post == 1:
        toks += [LS, T.IntToken(0), RS]
    elif post == 2:
        toks += [T.SepToken.DOT, T.Ident('length')]
    elif post == 3:
        toks += [LS, T.Ident('i'), O.ADD, T.IntToken(1), RS, T.SepToken.DOT, T.Ident('length')]
    if cast:
        toks += [O.IS, T.DataType.BYTE]
    return toks


def _pair(i, j, u1, u2, u3, post, cast):
    toks = operand('a', u1, post, 0) + [BINOPS[i]] + operand('b', u2, 0, cast) + [BINOPS[j]] + operand('c', u3, post, 0)
    return real_parse(toks) == ref_parse(toks)


def lemma_pairs_plain(i: int, j: int) -> bool:
    """
    pre: 0 <= i < NB and 0 <= j < NB
    post: __return__
    """
    return _pair(i, j, 0, 0, 0, 0, 0)


def lemma_pairs_unary(i: int, j: int, u1: int, u2: int) -> bool:
    """
    pre: 0 <= i < NB and 0 <= j < NB and 1 <= u1 <= 3 and 0 <= u2 <= 3
    post: __return__
    """
    return _pair(i, j, u1, u2, u1, 0, 0)


def lemma_pairs_postfix_cast(i: int, j: int, post: int, cast: int) -> bool:
    """
    pre: 0 <= i < NB and 0 <= j < NB and 0 <= post <= 3 and 0 <= cast <= 1 and post + cast > 0
    post: __return__
    """
    return _pair(i, j, 2, 3, 0, post, cast)


def lemma_unary_before_cast(u: int, post: int, j: int) -> bool:
    """
    pre: 1 <= u <= 3 and 0 <= post <= 3 and 0 <= j < NB
    post: __return__
    """
    toks = operand('a', u, post, 1) + [BINOPS[j]] + operand('b', u, 0, 1)
    return real_parse(toks) == ref_parse(toks)


# ---- every kind of primary expression takes postfix operators, which bind tighter than any operator
def primary_toks(k, name):
    return [[T.Ident(name)], [T.IntToken(7)], [T.StringToken(b'str')], [T.CharToken(99)], [T.BoolToken.TRUE], [LP, T.IntToken(7), RP], [LP, T.StringToken(b'str'), RP],
            [LP, T.Ident(name), RP], [LS, T.IntToken(1), CM, T.Ident(name), RS], [LS, RS], [T.Ident('f'), LP, T.Ident(name), CM, T.IntToken(2), RP], [T.Ident('f'), LP, RP],
            [LP, T.Ident(name), O.ADD, T.IntToken(1), RP], [LS, T.StringToken(b's'), RS]][k]


NPRIM = 14


def postfix_toks(post):
    if post == 1:
        return [LS, T.IntToken(0), RS]
    if post == 2:
        return [T.SepToken.DOT, T.Ident('length')]
    if post == 3:
        return [LS, T.Ident('i'), O.ADD, T.IntToken(1), RS, T.SepToken.DOT, T.Ident('length')]
    if post == 4:
        return [LS, T.IntToken(0), RS, LS, T.IntToken(1), RS]
    return []


def _postfix_primaries(k, post, u, j):
    un = [UNOPS[u]] if UNOPS[u] is not None else []
    toks = un + primary_toks(k, 'a') + postfix_toks(post) + [BINOPS[j]] + primary_toks(k, 'b') + postfix_toks(post)
    r = real_parse(toks)
    return r is not None and r == ref_parse(toks)


def lemma_postfix_on_primaries(k: int, post: int, jr: int) -> bool:
    """
    pre: 0 <= k < NPRIM and 0 <= post <= 4 and 0 <= jr < 3
    post: __return__
    """
    return _postfix_primaries(k, post, 2, [0, 7, 13][jr])       # * < ??


def lemma_postfix_on_primaries_full(k: int, post: int, ui: int, jr: int) -> bool:
    """
    pre: 0 <= k < NPRIM and 0 <= post <= 4 and 0 <= ui < 3 and 0 <= jr < 6
    post: __return__
    """
    # thorough tier: no prefix / minus / not  x  one operator per precedence level
    return _postfix_primaries(k, post, [0, 2, 3][ui], REPS[jr])


def lemma_postfix_inside(k: int, post: int, where: int) -> bool:
    """
    pre: 0 <= k < NPRIM and 1 <= post <= 4 and 0 <= where <= 2
    post: __return__
    """
    inner = primary_toks(k, 'a') + postfix_toks(post)
    if where == 0:
        toks = [T.Ident('f'), LP] + inner + [CM] + inner + [RP]
    elif where == 1:
        toks = [T.Ident('b'), LS] + inner + [RS]
    else:
        toks = [LS] + inner + [CM] + inner + [RS, LS, T.IntToken(0), RS]
    r = real_parse(toks)
    return r is not None and r == ref_parse(toks)


# ---- long chains: operators of one level group to the left however long the chain is
def _chain_left(i, j, n):
    if LEVEL[BINOPS[i]] != LEVEL[BINOPS[j]] or BINOPS[i] == O.SPECULATION:
        return True
    toks = [T.Ident(NAMES[0])]
    for m in range(1, n):
        toks += [BINOPS[i] if m % 2 else BINOPS[j], T.Ident(NAMES[m % 4])]
    r = real_parse(toks)
    if r is None or r != ref_parse(toks):
        return False
    # left-deep spine: the right child of every node on the spine is a leaf
    depth = 0
    while isinstance(r, tuple):
        if isinstance(r[2], tuple):
            return False
        r = r[1]
        depth += 1
    return depth == n - 1


CHAIN_NS = [5, 10, 14]
CHAIN_OPS = [(0, 1), (3, 4), (7, 5), (11, 11), (12, 12)]      # (operator, same-level partner) per binary level: * /  + -  < ==  and  or


def lemma_chain_left(lv: int, alt: int, ni: int) -> bool:
    """
    pre: 0 <= lv < 5 and 0 <= alt <= 1 and 0 <= ni < 3
    post: __return__
    """
    i, j = CHAIN_OPS[lv]
    return _chain_left(i, j if alt else i, CHAIN_NS[ni])


def lemma_chain_left_full(i: int, j: int, n: int) -> bool:
    """
    pre: 0 <= i < NB and 0 <= j < NB and 3 <= n <= 14
    post: __return__
    """
    return _chain_left(i, j, n)


def lemma_chain_mixed(i: int, j: int, n: int) -> bool:
    """
    pre: 0 <= i < NB and 0 <= j < NB and 3 <= n <= 12
    post: __return__
    """
    # two operators of any levels alternating: only agreement with the reference grouping is required
    toks = [T.Ident(NAMES[0])]
    for m in range(1, n):
        toks += [BINOPS[i] if m % 2 else BINOPS[j], T.Ident(NAMES[m % 4])]
    return real_parse(toks) == ref_parse(toks)


def lemma_unary_stack(u1: int, u2: int, u3: int, jr: int) -> bool:
    """
    pre: 1 <= u1 <= 3 and 1 <= u2 <= 3 and 0 <= u3 <= 3 and 0 <= jr < 3
    post: __return__
    """
    # stacked prefix operators nest right to left: the first one written is the outermost
    pre = [UNOPS[u1], UNOPS[u2]] + ([UNOPS[u3]] if UNOPS[u3] is not None else [])
    j = [0, 7, 13][jr]
    toks = pre + [T.Ident('a'), BINOPS[j]] + list(reversed(pre)) + [T.Ident('b'), O.IS, T.DataType.BYTE]
    r = real_parse(toks)
    if r is None or r != ref_parse(toks):
        return False
    # the left operand of the root is u1(u2(u3(a)))
    n = r[1]
    for u in pre:
        if not (isinstance(n, tuple) and n[0] == 'u' and n[1] == u):
            return False
        n = n[2]
    return n == 'a'


def twin_pairs(i: int, j: int) -> bool:
    """
    pre: 0 <= i < NB and 0 <= j < NB
    post: __return__
    """
    toks = operand('a', 0, 0, 0) + [BINOPS[i]] + operand('b', 0, 0, 0) + [BINOPS[j]] + operand('c', 0, 0, 0)
    r = real_parse(toks)
    return r is None or r[0] == BINOPS[j]       # false whenever the first operator ends up at the root


def _triple(i, j, k, par):
    a, b, c, d = ([T.Ident(n)] for n in NAMES)
    ops = [BINOPS[i]], [BINOPS[j]], [BINOPS[k]]
    if par == 0:
        toks = a + ops[0] + b + ops[1] + c + ops[2] + d
    elif par == 1:
        toks = [LP] + a + ops[0] + b + [RP] + ops[1] + c + ops[2] + d
    elif par == 2:
        toks = a + ops[0] + [LP] + b + ops[1] + c + [RP] + ops[2] + d
    elif par == 3:
        toks = a + ops[0] + b + ops[1] + [LP] + c + ops[2] + d + [RP]
    else:
        toks = a + ops[0] + [LP] + b + ops[1] + c + ops[2] + d + [RP]
    return real_parse(toks) == ref_parse(toks)


def lemma_triples_level_reps(i: int, j: int, k: int, par: int) -> bool:
    """
    pre: 0 <= i < 6 and 0 <= j < len(REPS) and 0 <= k < len(REPS) and 0 <= par <= 4
    post: __return__
    """
    return _triple(REPS[i], REPS[j], REPS[k], par)


REPS = [0, 3, 7, 11, 12, 13]      # one operator per precedence level: * + < and or ??


# ---------------- round trip: minimal-parenthesis printing followed by the real parser is the identity
def prec(t):
    if isinstance(t, tuple) and t[0] in LEVEL:
        return LEVEL[t[0]]
    return 0


def render(t):
    """tokens of tree t with the minimal parentheses the README table requires"""
    if not isinstance(t, tuple):
        return [T.Ident(t)]
    op, l, r = t
    lv = LEVEL[op]
    lt, rt = render(l), render(r)
    if op == O.SPECULATION:
        if prec(l) >= lv: lt = [LP] + lt + [RP]
        if prec(r) >= lv: rt = [LP] + rt + [RP]
    else:
        if prec(l) > lv: lt = [LP] + lt + [RP]          # left child of the same level needs none (left associative)
        if prec(r) >= lv: rt = [LP] + rt + [RP]
    return lt + [op] + rt


SHAPES = 5


def build(sh, o1, o2, o3):
    a, b, c, d = NAMES
    if sh == 0: return (o3, (o2, (o1, a, b), c), d)
    if sh == 1: return (o3, (o1, a, (o2, b, c)), d)
    if sh == 2: return (o2, (o1, a, b), (o3, c, d))
    if sh == 3: return (o1, a, (o3, (o2, b, c), d))
    return (o1, a, (o2, b, (o3, c, d)))


def _round_trip(sh, i, j, k):
    t = build(sh, BINOPS[i], BINOPS[j], BINOPS[k])
    if not valid_tree(t):
        return real_parse(render(t)) is None
    return real_parse(render(t)) == t


def lemma_round_trip_level_reps(sh: int, i: int, j: int, k: int) -> bool:
    """
    pre: 0 <= sh < SHAPES and 0 <= i < 6 and 0 <= j < len(REPS) and 0 <= k < len(REPS)
    post: __return__
    """
    return _round_trip(sh, REPS[i], REPS[j], REPS[k])


def lemma_round_trip_two(i: int, j: int, left: int) -> bool:
    """
    pre: 0 <= i < NB and 0 <= j < NB and 0 <= left <= 1
    post: __return__
    """
    t = (BINOPS[j], (BINOPS[i], 'a', 'b'), 'c') if left else (BINOPS[i], 'a', (BINOPS[j], 'b', 'c'))
    if not valid_tree(t):
        return real_parse(render(t)) is None
    return real_parse(render(t)) == t


def twin_round_trip(i: int, j: int) -> bool:
    """
    pre: 0 <= i < NB and 0 <= j < NB
    post: __return__
    """
    t = (BINOPS[i], 'a', (BINOPS[j], 'b', 'c'))
    return len(render(t)) == 5          # false whenever parentheses are needed


THOROUGH_ONLY = ['lemma_pairs_postfix_cast', 'lemma_triples_level_reps', 'lemma_round_trip_level_reps', 'lemma_chain_mixed', 'lemma_chain_left_full', 'lemma_postfix_on_primaries_full']
def twin_chain_left_split(lv: int, alt: int, ni: int) -> bool:
    """
    pre: 0 <= lv < 5 and 0 <= alt <= 1 and 0 <= ni < 3
    post: __return__
    """
    # vacuity twin of the partitioned lemmas: false for one value in every partition
    i, j = CHAIN_OPS[lv]
    return _chain_left(i, j if alt else i, CHAIN_NS[ni]) and ni != 1


SPLITS = {'twin_chain_left_split': ('lv', 5), 'lemma_unary_stack': ('u1', 1, 4), 'lemma_postfix_on_primaries': ('k', 14), 'lemma_postfix_on_primaries_full': ('k', 14), 'lemma_chain_left_full': ('i', 14), 'lemma_postfix_inside': ('k', 14), 'lemma_chain_left': ('lv', 5), 'lemma_chain_mixed': ('i', 14), 'lemma_unary_before_cast': ('u', 1, 4), 'lemma_pairs_unary': ('i', 14), 'lemma_round_trip_two': ('i', 14), 'lemma_pairs_postfix_cast': ('i', 14), 'lemma_triples_level_reps': ('i', 6), 'lemma_round_trip_level_reps': ('i', 6)}

# warm caches
_ = CTX.flavors
_ = BC((int(CTX) & ~int(BC.YOU)) | int(BC.FUNC)).flavors
for _i in range(NB):
    for _j in range(NB):
        _pair(_i, _j, 0, 0, 0, 0, 0)
