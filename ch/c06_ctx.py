"""CrossHair harness for C06: flavour and context rules, checked as ONE NESTING STEP from an arbitrary context.

The real grammar rules (hidc/parser/grammar.py) are fed Lexeme lists (no lexer).  For every valid BlockContext ctx, every
construct C that can contain code and every probe leaf L:
        real parser accepts  C[L]  under ctx     <=>     allowed(child_ctx_spec(ctx, C), L)
where child_ctx_spec / allowed are transcribed from the README table.  Inputs are small integers indexing PREBUILT lists
(never an enum built from a symbolic int), and every lazily filled cache is warmed at import.
"""
import os
import sys
sys.path.insert(0, os.environ.get('HIDC_ROOT', '/repo'))
from hidc.lexer import Lexeme, Span, Cursor
from hidc.lexer import tokens as T
from hidc.parser import rules
from hidc.parser.grammar import ps_block, ps_expr, ps_stmt, ps_program, BlockContext as BC
from hidc.utils.lazylist import lazy_list
from hidc.errors import ParserError


def lexemes(toks):
    for i, t in enumerate(toks):
        yield Lexeme(t, Span(Cursor(0, i), Cursor(0, i + 1)))
    return Cursor(0, len(toks))


LP, RP, LC, RC, LS, RS = T.BracToken.LPAREN, T.BracToken.RPAREN, T.BracToken.LCURLY, T.BracToken.RCURLY, T.BracToken.LSQUARE, T.BracToken.RSQUARE
SC, CM = T.SepToken.SEMICOLON, T.SepToken.COMMA
ID = T.Ident


def call(fl):
    return [ID('f', fl), LP, RP]


# ---- statement-level probes and what they need (README "Summary of what's allowed in different blocks")
SPROBES = [call(T.Flavor.NONE) + [SC], call(T.Flavor.YOU) + [SC], call(T.Flavor.DEFEAT) + [SC],
           [T.BlockToken.TRY, LC, RC, T.BlockToken.UNDO, LC, RC],
           [T.BlockToken.TRY, LC, RC, T.BlockToken.STOP, LC, RC],
           [T.BlockToken.PREEMPT, LC, RC],
           [ID('a'), T.OpToken.SPECULATION, ID('b'), SC],
           [T.StmtToken.BREAK, SC], [T.StmtToken.CONTINUE, SC]]
NS = len(SPROBES)
# ---- expression-level probes
EPROBES = [call(T.Flavor.NONE), call(T.Flavor.YOU), call(T.Flavor.DEFEAT), [ID('a'), T.OpToken.SPECULATION, ID('b')],
           [LP] + call(T.Flavor.YOU) + [RP], [ID('v'), LS] + call(T.Flavor.DEFEAT) + [RS]]
NE = len(EPROBES)


def has(ctx, flag):
    return (int(ctx) & int(flag)) == int(flag)


def s_allowed(ctx, p):
    FUNC, YOU, DEF, LOOP = has(ctx, BC.FUNC), has(ctx, BC.YOU), has(ctx, BC.DEFEAT), has(ctx, BC.LOOP)
    return [FUNC, YOU, DEF, YOU, YOU, DEF, YOU, LOOP, LOOP][p]


def e_allowed(ctx, p):
    FUNC, YOU, DEF = has(ctx, BC.FUNC), has(ctx, BC.YOU), has(ctx, BC.DEFEAT)
    return [FUNC, YOU, DEF, YOU, YOU, DEF][p]


# ---- constructs containing a statement sequence: token wrapper and README child context
def s_wrap(c, probe):
    X = ID('x')
    if c == 0: return [LC] + probe + [RC]
    if c == 1: return [T.BlockToken.IF, LP, X, RP, LC] + probe + [RC]
    if c == 2: return [T.BlockToken.IF, LP, X, RP, LC, RC, T.BlockToken.ELSE, LC] + probe + [RC]
    if c == 3: return [T.BlockToken.WHILE, LP, X, RP, LC] + probe + [RC]
    if c == 4: return [T.BlockToken.FOR, LP, SC, SC, RP, LC] + probe + [RC]
    if c == 5: return [T.BlockToken.TRY, LC] + probe + [RC, T.BlockToken.UNDO, LC, RC]
    if c == 6: return [T.BlockToken.TRY, LC] + probe + [RC, T.BlockToken.STOP, LC, RC]
    if c == 7: return [T.BlockToken.TRY, LC, RC, T.BlockToken.UNDO, LC] + probe + [RC]
    if c == 8: return [T.BlockToken.TRY, LC, RC, T.BlockToken.STOP, LC] + probe + [RC]
    if c == 9: return [T.BlockToken.PREEMPT, LC] + probe + [RC]
    if c == 10: return [LC, LC] + probe + [RC, RC]
    if c == 11: return [T.BlockToken.IF, LP, X, RP, T.BlockToken.WHILE, LP, X, RP, LC] + probe + [RC]
    raise ValueError(c)


NSC = 12


def mk(bits):
    return BC(bits)


def s_child(ctx, c):
    """(construct itself allowed under ctx, context of the contained statements) -- from the README"""
    if c in (0, 1, 2, 10): return True, ctx
    if c in (3, 4, 11): return True, CTX_LOOP[int(ctx)]
    if c in (5, 6): return has(ctx, BC.YOU), CTX_TRY[int(ctx)]
    if c in (7, 8): return has(ctx, BC.YOU), ctx
    if c == 9: return has(ctx, BC.DEFEAT), ctx
    raise ValueError(c)


# ---- expression positions inside a statement
def e_wrap(c, probe):
    X = ID('x')
    if c == 0: return probe + [SC]                                                   # expression statement
    if c == 1: return [LP] + probe + [RP, SC]                                        # parenthesised
    if c == 2: return [X, T.StmtToken.ASSIGN, LS, ID('y'), CM] + probe + [RS, SC]    # array literal element
    if c == 3: return [X, LS] + probe + [RS, SC]                                     # index
    if c == 4: return [ID('g'), LP, ID('y'), CM] + probe + [RP, SC]                  # call argument (ordinary callee)
    if c == 5: return probe + [T.OpToken.IS, T.DataType.INT, SC]                     # operand of `is`
    if c == 6: return [T.StmtToken.RETURN] + probe + [SC]                            # return value
    if c == 7: return [T.DataType.INT, X, T.StmtToken.ASSIGN] + probe + [SC]         # declaration initialiser
    if c == 8: return [X, T.StmtToken.ASSIGN] + probe + [SC]                         # assignment right-hand side
    if c == 9: return [X, LS] + probe + [RS, T.StmtToken.ASSIGN, ID('y'), SC]        # index on the left-hand side
    if c == 10: return [T.OpToken.SUB] + probe + [T.OpToken.ADD, ID('y'), SC]        # operand of arithmetic
    if c == 11: return [T.DataType.INT, X, LS] + probe + [RS, SC]                    # dynamic array length
    if c == 12: return [X, IADD] + probe + [SC]                                      # compound assignment
    raise ValueError(c)


IADD = T.IncAssignToken.IADD
NEC = 13


def b_wrap(c, probe):
    """expression positions of block headers"""
    X = ID('x')
    if c == 0: return [T.BlockToken.IF, LP] + probe + [RP, LC, RC]
    if c == 1: return [T.BlockToken.WHILE, LP] + probe + [RP, LC, RC]
    if c == 2: return [T.BlockToken.FOR, LP, X, T.StmtToken.ASSIGN] + probe + [SC, SC, RP, LC, RC]
    if c == 3: return [T.BlockToken.FOR, LP, SC] + probe + [SC, RP, LC, RC]
    if c == 4: return [T.BlockToken.FOR, LP, SC, SC, X, T.StmtToken.ASSIGN] + probe + [RP, LC, RC]
    raise ValueError(c)


NBC = 5

VALID = [b for b in range(32) if (b & 6) != 6 and (not (b & 8) or (b & 5) == 5) and (not (b & 6) or (b & 1))]
CTXS = [BC(v) for v in VALID]
NCTX = len(CTXS)
CTX_LOOP = {int(c): BC(int(c) | 16) for c in CTXS}
CTX_TRY = {int(c): BC((int(c) & ~int(BC.YOU)) | int(BC.TRY)) for c in CTXS}
CTX_SPEC = {int(c): BC((int(c) & ~int(BC.YOU)) | int(BC.FUNC)) for c in CTXS}


def accepts(rule, toks):
    r = rules.Parser(rule.consume, backtrack=False)
    try:
        res, rem = r.process(lazy_list(lexemes(toks)))
        return res is not None and (True if not rem else False)
    except ParserError:
        return False


def _block_step(k, c, p):
    ctx = CTXS[k]
    ok_c, cctx = s_child(ctx, c)
    exp = ok_c and s_allowed(cctx, p)
    return accepts(ps_block(ctx), s_wrap(c, SPROBES[p])) == exp


def _expr_step(k, c, p):
    ctx = CTXS[k]
    exp = e_allowed(ctx, p)
    return accepts(ps_stmt(ctx), e_wrap(c, EPROBES[p])[:-1]) == exp


def _header_step(k, c, p):
    ctx = CTXS[k]
    return accepts(ps_block(ctx), b_wrap(c, EPROBES[p])) == e_allowed(ctx, p)


def _spec_operand(k, side, p):
    """operands of ?? are parsed without YOU: only ordinary calls, no nested ??"""
    ctx = CTXS[k]
    other = [ID('z')]
    toks = (EPROBES[p] + [T.OpToken.SPECULATION] + other) if side == 0 else (other + [T.OpToken.SPECULATION] + EPROBES[p])
    octx = CTX_SPEC[int(ctx)]
    exp = has(ctx, BC.YOU) and e_allowed(octx, p)
    return accepts(ps_expr(ctx), toks) == exp


# statement-level step lemma, one function per construct so that the constructs run in parallel
def lemma_block_step_0(k: int, p: int) -> bool:
    """
    pre: 0 <= k < NCTX and 0 <= p < NS
    post: __return__
    """
    return _block_step(k, 0, p)


def lemma_block_step_1(k: int, p: int) -> bool:
    """
    pre: 0 <= k < NCTX and 0 <= p < NS
    post: __return__
    """
    return _block_step(k, 1, p)


def lemma_block_step_2(k: int, p: int) -> bool:
    """
    pre: 0 <= k < NCTX and 0 <= p < NS
    post: __return__
    """
    return _block_step(k, 2, p)


def lemma_block_step_3(k: int, p: int) -> bool:
    """
    pre: 0 <= k < NCTX and 0 <= p < NS
    post: __return__
    """
    return _block_step(k, 3, p)


def lemma_block_step_4(k: int, p: int) -> bool:
    """
    pre: 0 <= k < NCTX and 0 <= p < NS
    post: __return__
    """
    return _block_step(k, 4, p)


def lemma_block_step_5(k: int, p: int) -> bool:
    """
    pre: 0 <= k < NCTX and 0 <= p < NS
    post: __return__
    """
    return _block_step(k, 5, p)


def lemma_block_step_6(k: int, p: int) -> bool:
    """
    pre: 0 <= k < NCTX and 0 <= p < NS
    post: __return__
    """
    return _block_step(k, 6, p)


def lemma_block_step_7(k: int, p: int) -> bool:
    """
    pre: 0 <= k < NCTX and 0 <= p < NS
    post: __return__
    """
    return _block_step(k, 7, p)


def lemma_block_step_8(k: int, p: int) -> bool:
    """
    pre: 0 <= k < NCTX and 0 <= p < NS
    post: __return__
    """
    return _block_step(k, 8, p)


def lemma_block_step_9(k: int, p: int) -> bool:
    """
    pre: 0 <= k < NCTX and 0 <= p < NS
    post: __return__
    """
    return _block_step(k, 9, p)


def lemma_block_step_10(k: int, p: int) -> bool:
    """
    pre: 0 <= k < NCTX and 0 <= p < NS
    post: __return__
    """
    return _block_step(k, 10, p)


def lemma_block_step_11(k: int, p: int) -> bool:
    """
    pre: 0 <= k < NCTX and 0 <= p < NS
    post: __return__
    """
    return _block_step(k, 11, p)


def twin_block_step(k: int, c: int, p: int) -> bool:
    """
    pre: 0 <= k < NCTX and 0 <= c < NSC and 0 <= p < NS
    post: __return__
    """
    # vacuity: some placement must be accepted and some rejected
    return accepts(ps_block(CTXS[k]), s_wrap(c, SPROBES[p]))


def twin_block_step_reject(k: int, c: int, p: int) -> bool:
    """
    pre: 0 <= k < NCTX and 0 <= c < NSC and 0 <= p < NS
    post: __return__
    """
    return not accepts(ps_block(CTXS[k]), s_wrap(c, SPROBES[p]))


def lemma_expr_step_a(k: int, c: int, p: int) -> bool:
    """
    pre: 0 <= k < NCTX and 0 <= c <= 4 and 0 <= p < NE
    post: __return__
    """
    return _expr_step(k, c, p)


def lemma_expr_step_b(k: int, c: int, p: int) -> bool:
    """
    pre: 0 <= k < NCTX and 5 <= c <= 8 and 0 <= p < NE
    post: __return__
    """
    return _expr_step(k, c, p)


def lemma_expr_step_c(k: int, c: int, p: int) -> bool:
    """
    pre: 0 <= k < NCTX and 9 <= c < NEC and 0 <= p < NE
    post: __return__
    """
    return _expr_step(k, c, p)


def lemma_header_step(k: int, c: int, p: int) -> bool:
    """
    pre: 0 <= k < NCTX and 0 <= c < NBC and 0 <= p < NE
    post: __return__
    """
    return _header_step(k, c, p)


def lemma_spec_operands(k: int, side: int, p: int) -> bool:
    """
    pre: 0 <= k < NCTX and 0 <= side <= 1 and 0 <= p < NE
    post: __return__
    """
    return _spec_operand(k, side, p)


def spec_wrap(w, probe):
    X = ID('x')
    if w == 0: return [ID('g'), LP, ID('y'), CM] + probe + [RP]              # argument of an ordinary call
    if w == 1: return [LP] + probe + [RP]                                     # parenthesised
    if w == 2: return [X, LS] + probe + [RS]                                  # index
    if w == 3: return [LS, ID('y'), CM] + probe + [RS, LS, T.IntToken(0), RS]  # element of an indexed array literal
    if w == 4: return [T.OpToken.SUB] + probe + [T.OpToken.ADD, ID('y')]      # operand of arithmetic
    if w == 5: return [ID('g'), LP, ID('h'), LP] + probe + [RP, RP]           # argument of a call inside an argument
    raise ValueError(w)


NSW = 6
YOU_CTXS = [k for k in range(NCTX) if has(CTXS[k], BC.YOU)]


def lemma_spec_operands_wrapped(yk: int, side: int, w: int, p: int) -> bool:
    """
    pre: 0 <= yk < len(YOU_CTXS) and 0 <= side <= 1 and 0 <= w < NSW and 0 <= p < NE
    post: __return__
    """
    # the restriction on the operands of ?? reaches into every sub-expression of the operand
    ctx = CTXS[YOU_CTXS[yk]]
    other = [ID('z')]
    opnd = spec_wrap(w, EPROBES[p])
    toks = (opnd + [T.OpToken.SPECULATION] + other) if side == 0 else (other + [T.OpToken.SPECULATION] + opnd)
    return accepts(ps_expr(ctx), toks) == e_allowed(CTX_SPEC[int(ctx)], p)


def twin_spec_operands(k: int, side: int, p: int) -> bool:
    """
    pre: 0 <= k < NCTX and 0 <= side <= 1 and 0 <= p < NE
    post: __return__
    """
    ctx = CTXS[k]
    toks = (EPROBES[p] + [T.OpToken.SPECULATION, ID('z')]) if side == 0 else ([ID('z'), T.OpToken.SPECULATION] + EPROBES[p])
    return not accepts(ps_expr(ctx), toks)


# ---- function declarations (flavour -> initial context) and the global scope
FLAVS = [T.Flavor.NONE, T.Flavor.YOU, T.Flavor.DEFEAT]
INIT = [BC.FUNC, BC.YOU, BC.DEFEAT]


def lemma_function_flavour(f: int, p: int) -> bool:
    """
    pre: 0 <= f <= 2 and 0 <= p < NS
    post: __return__
    """
    toks = [T.DataType.EMPTY, ID('fn', FLAVS[f]), LP, RP, LC] + SPROBES[p] + [RC]
    return accepts(ps_program(), toks) == s_allowed(INIT[f], p)


def lemma_global_initialiser(p: int) -> bool:
    """
    pre: 0 <= p < NE
    post: __return__
    """
    toks = [T.DataType.INT, ID('g'), T.StmtToken.ASSIGN] + EPROBES[p] + [SC]
    return accepts(ps_program(), toks) is False        # globals are initialised without calls (and without ??)


GINIT = [call(T.Flavor.NONE), [T.IntToken(1), T.OpToken.ADD] + call(T.Flavor.NONE), [LP] + call(T.Flavor.NONE) + [RP], [LS] + call(T.Flavor.NONE) + [CM, T.IntToken(2), RS],
         [ID('h'), LS] + call(T.Flavor.NONE) + [RS], [T.OpToken.SUB] + call(T.Flavor.NONE), call(T.Flavor.NONE) + [T.OpToken.IS, T.DataType.BYTE],
         [ID('f'), LP] + call(T.Flavor.NONE) + [RP], [T.OpToken.NOT] + call(T.Flavor.YOU), [T.IntToken(1), T.OpToken.MUL] + call(T.Flavor.DEFEAT),
         [ID('a'), T.OpToken.SPECULATION, T.IntToken(1)], [LP, ID('a'), T.OpToken.SPECULATION, T.IntToken(1), RP, T.OpToken.ADD, T.IntToken(2)]]
NG = len(GINIT)


def lemma_global_no_calls_anywhere(p: int, form: int) -> bool:
    """
    pre: 0 <= p < NG and 0 <= form <= 2
    post: __return__
    """
    # globals are initialised without calls, however deeply the call is nested (initialiser, array length, const global)
    if form == 0:
        toks = [T.DataType.INT, ID('g'), T.StmtToken.ASSIGN] + GINIT[p] + [SC]
    elif form == 1:
        toks = [T.DataType.INT, ID('g'), LS] + GINIT[p] + [RS, SC]
    else:
        toks = [T.StmtToken.CONST, T.DataType.INT, ID('g'), T.StmtToken.ASSIGN] + GINIT[p] + [SC]
    return accepts(ps_program(), toks) is False


def lemma_global_plain_ok(v: int) -> bool:
    """
    pre: 0 <= v <= 3
    post: __return__
    """
    inits = [[T.IntToken(1)], [ID('h')], [LS, T.IntToken(1), CM, T.IntToken(2), RS], [T.IntToken(1), T.OpToken.ADD, ID('h')]]
    return accepts(ps_program(), [T.DataType.INT, ID('g'), T.StmtToken.ASSIGN] + inits[v] + [SC])


# warm every lazily filled cache (BlockContext.flavors is a cached_property; IntFlag pseudo-members are created on demand)
for _c in CTXS:
    _ = _c.flavors
for _d in (CTX_LOOP, CTX_TRY, CTX_SPEC):
    for _c in _d.values():
        _ = _c.flavors
for _k in range(NCTX):
    for _p in range(NS):
        for _c in range(NSC):
            _block_step(_k, _c, _p)
    for _p in range(NE):
        for _c in range(NEC):
            _expr_step(_k, _c, _p)
        for _c in range(NBC):
            _header_step(_k, _c, _p)
        _spec_operand(_k, 0, _p)
        _spec_operand(_k, 1, _p)
for _f in range(3):
    for _p in range(NS):
        lemma_function_flavour(_f, _p)
for _p in range(NG):
    for _f in range(3):
        lemma_global_no_calls_anywhere(_p, _f)


def twin_spec_wrapped_split(yk: int, w: int, p: int) -> bool:
    """
    pre: 0 <= yk < len(YOU_CTXS) and 0 <= w < NSW and 0 <= p < NE
    post: __return__
    """
    # vacuity twin (goes through the same partitioning as the lemma): claims that every wrapped operand is accepted
    ctx = CTXS[YOU_CTXS[yk]]
    return accepts(ps_expr(ctx), spec_wrap(w, EPROBES[p]) + [T.OpToken.SPECULATION, ID('z')])


SPLITS = {'lemma_spec_operands_wrapped': ('w', 6), 'twin_spec_wrapped_split': ('w', 2)}
