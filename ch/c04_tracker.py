"""CrossHair harness for C04 (layer 3): the frame-size Tracker (hidc/codegen/tracker.py) — the arithmetic every stack
overflow guard constant comes from.  For every sequence of push_level / add(v) / update(v) / pop_level of bounded length with
symbolic integer arguments, each DynamicValue is finalised to the maximum of its own add value and every update value seen
while its level was open."""
import os
import sys
sys.path.insert(0, os.environ.get('HIDC_ROOT', '/repo'))
from hidc.codegen.tracker import Tracker


def run_ops(ops):
    t = Tracker()
    levels = [[]]       # model: per open level, list of [dynamic value, maximum seen so far]
    done = []
    for k, v in ops:
        if k == 0:
            t.push_level()
            levels.append([])
        elif k == 1:
            d = t.add(v)
            levels[-1].append([d, v])
        elif k == 2:
            t.update(v)
            for lv in levels:
                for g in lv:
                    if v > g[1]:
                        g[1] = v
        else:
            if len(levels) <= 1:
                continue
            t.pop_level()
            for g in levels.pop():
                done.append(g)
    # close everything that is still open, innermost first (gen_func pops its last level at the end)
    while len(levels) > 1:
        t.pop_level()
        for g in levels.pop():
            done.append(g)
    t.pop_level()
    for g in levels.pop():
        done.append(g)
    for d, m in done:
        if not d._finalized or d._data != m:
            return False
    return True


def lemma_tracker_3(k1: int, v1: int, k2: int, v2: int, k3: int, v3: int) -> bool:
    """
    pre: 0 <= k1 <= 3 and 0 <= k2 <= 3 and 0 <= k3 <= 3
    pre: 0 <= v1 <= 40 and 0 <= v2 <= 40 and 0 <= v3 <= 40
    post: __return__
    """
    return run_ops([(k1, v1), (k2, v2), (k3, v3)])


def lemma_tracker_4(k1: int, v1: int, k2: int, v2: int, k3: int, v3: int, k4: int, v4: int) -> bool:
    """
    pre: 0 <= k1 <= 3 and 0 <= k2 <= 3 and 0 <= k3 <= 3 and 0 <= k4 <= 3
    pre: 0 <= v1 <= 40 and 0 <= v2 <= 40 and 0 <= v3 <= 40 and 0 <= v4 <= 40
    post: __return__
    """
    return run_ops([(k1, v1), (k2, v2), (k3, v3), (k4, v4)])


def lemma_tracker_5_adds_updates(v1: int, k2: int, v2: int, k3: int, v3: int, k4: int, v4: int, k5: int, v5: int) -> bool:
    """
    pre: 1 <= k2 <= 2 and 0 <= k3 <= 3 and 1 <= k4 <= 3 and 1 <= k5 <= 2
    pre: 0 <= v1 <= 40 and 0 <= v2 <= 40 and 0 <= v3 <= 40 and 0 <= v4 <= 40 and 0 <= v5 <= 40
    post: __return__
    """
    return run_ops([(1, v1), (k2, v2), (k3, v3), (k4, v4), (k5, v5)])


def lemma_tracker_6(k1: int, v1: int, k2: int, v2: int, k3: int, v3: int, k4: int, v4: int, k5: int, v5: int, k6: int, v6: int) -> bool:
    """
    pre: 0 <= k1 <= 3 and 0 <= k2 <= 3 and 0 <= k3 <= 3 and 0 <= k4 <= 3 and 0 <= k5 <= 3 and 0 <= k6 <= 3
    pre: 0 <= v1 <= 40 and 0 <= v2 <= 40 and 0 <= v3 <= 40 and 0 <= v4 <= 40 and 0 <= v5 <= 40 and 0 <= v6 <= 40
    post: __return__
    """
    return run_ops([(k1, v1), (k2, v2), (k3, v3), (k4, v4), (k5, v5), (k6, v6)])


def twin_tracker(v1: int, v2: int) -> bool:
    """
    pre: 0 <= v1 <= 40 and 0 <= v2 <= 40
    post: __return__
    """
    t = Tracker()
    d = t.add(v1)
    t.update(v2)
    t.pop_level()
    return d._data == v1          # false whenever the later update is larger


def twin_tracker_split(k1: int, v1: int, v2: int) -> bool:
    """
    pre: 0 <= k1 <= 1 and 0 <= v1 <= 40 and 0 <= v2 <= 40
    post: __return__
    """
    # vacuity twin of the partitioned lemmas (goes through the same partitioning): false whenever the later update is larger
    t = Tracker()
    d = t.add(v1 + k1)
    t.update(v2)
    t.pop_level()
    return d._data == v1 + k1


SPLITS = {'twin_tracker_split': ('k1', 2), 'lemma_tracker_4': ('k1', 4), 'lemma_tracker_5_adds_updates': ('k3', 4), 'lemma_tracker_6': ('k1', 4)}
THOROUGH_ONLY = ['lemma_tracker_6']
