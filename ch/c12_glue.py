"""CrossHair harness for C12: the regex-free glue of the lexer's scanner (hidc/lexer/scanner.py) — cursor and span
bookkeeping with symbolic line contents (<= 4 characters), symbolic column and symbolic probe strings."""
import os
import sys
sys.path.insert(0, os.environ.get('HIDC_ROOT', '/repo'))
from hidc.lexer.scanner import Scanner, SourceCode, Cursor, Span, Marker


def mk(l0: str, l1: str, line: int, col: int) -> Scanner:
    return Scanner(SourceCode('f', [l0, l1]), line, col)


def lemma_exact(l0: str, l1: str, line: int, col: int, probe: str) -> bool:
    """
    pre: len(l0) <= 4 and len(l1) <= 4 and len(probe) <= 3
    pre: 0 <= line <= 1 and 0 <= col <= len([l0, l1][line])
    post: __return__
    """
    sc = mk(l0, l1, line, col)
    cur = [l0, l1][line]
    r = sc.exact(probe)
    exp = cur[col:col + len(probe)] == probe
    if r != exp:
        return False
    if r:
        return sc.line == line and sc.col == col + len(probe) and sc.col <= len(cur)
    return sc.line == line and sc.col == col


def twin_exact(l0: str, l1: str, line: int, col: int, probe: str) -> bool:
    """
    pre: len(l0) <= 4 and len(l1) <= 4 and 1 <= len(probe) <= 3
    pre: 0 <= line <= 1 and 0 <= col <= len([l0, l1][line])
    post: __return__
    """
    return not mk(l0, l1, line, col).exact(probe)


def lemma_read(l0: str, l1: str, line: int, col: int, n: int) -> bool:
    """
    pre: len(l0) <= 4 and len(l1) <= 4 and 1 <= n <= 3
    pre: 0 <= line <= 1 and 0 <= col <= len([l0, l1][line])
    post: __return__
    """
    sc = mk(l0, l1, line, col)
    cur = [l0, l1][line]
    r = sc.read(n)
    if col + n <= len(cur):
        return r == cur[col:col + n] and sc.col == col + n and sc.line == line
    return r is None and sc.col == col and sc.line == line


def lemma_eol(l0: str, l1: str, line: int, col: int) -> bool:
    """
    pre: len(l0) <= 4 and len(l1) <= 4
    pre: 0 <= line <= 1 and 0 <= col <= len([l0, l1][line])
    post: __return__
    """
    # Scanner.__bool__ / linebreak() cannot be executed by CrossHair (the real __bool__ would have to return a symbolic
    # bool through Python's truth protocol): they are covered by the exhaustive concrete enumeration in checks/c12.py
    sc = mk(l0, l1, line, col)
    cur = [l0, l1][line]
    return sc.eol == (col >= len(cur)) and sc.cursor == Cursor(line, col)


def lemma_marker_spans_contiguous(l0: str, l1: str, a: int, b: int) -> bool:
    """
    pre: len(l0) <= 4 and len(l1) <= 4
    pre: 0 <= a <= b <= len(l0)
    post: __return__
    """
    sc = mk(l0, l1, 0, 0)
    m = sc.mark()
    sc.col = a
    s1 = m.advance()
    sc.col = b
    s2 = m.advance()
    return (s1.start == Cursor(0, 0) and s1.end == Cursor(0, a) and s2.start == s1.end and s2.end == Cursor(0, b)
            and m.cursor == Cursor(0, b))


def lemma_marker_restore(l0: str, l1: str, a: int, line: int) -> bool:
    """
    pre: len(l0) <= 4 and len(l1) <= 4 and 0 <= line <= 1
    pre: 0 <= a <= len([l0, l1][line])
    post: __return__
    """
    sc = mk(l0, l1, 0, 0)
    m = sc.mark()
    sc.line = line
    sc.col = a
    m.restore()
    return sc.line == 0 and sc.col == 0


def lemma_span_or(l1: int, c1: int, l2: int, c2: int, l3: int, c3: int, l4: int, c4: int) -> bool:
    """
    pre: 0 <= l1 <= 3 and 0 <= c1 <= 5 and 0 <= l2 <= 3 and 0 <= c2 <= 5 and 0 <= l3 <= 3 and 0 <= c3 <= 5 and 0 <= l4 <= 3 and 0 <= c4 <= 5
    pre: (l1, c1) <= (l2, c2) and (l3, c3) <= (l4, c4)
    post: __return__
    """
    a = Span(Cursor(l1, c1), Cursor(l2, c2))
    b = Span(Cursor(l3, c3), Cursor(l4, c4))
    u = a | b
    lo = min((l1, c1), (l3, c3))
    hi = max((l2, c2), (l4, c4))
    pt = a | Cursor(l3, c3)
    return ((u.start.line, u.start.col) == lo and (u.end.line, u.end.col) == hi and u == (b | a)
            and (pt.start.line, pt.start.col) == min((l1, c1), (l3, c3)) and (pt.end.line, pt.end.col) == max((l2, c2), (l3, c3)))


def lemma_cursor_order_and_text(l: int, c: int, l2: int, c2: int) -> bool:
    """
    pre: 0 <= l <= 50 and 0 <= c <= 50 and 0 <= l2 <= 50 and 0 <= c2 <= 50
    post: __return__
    """
    a, b = Cursor(l, c), Cursor(l2, c2)
    return ((a < b) == ((l, c) < (l2, c2))) and str(a) == '%d:%d' % (l + 1, c + 1) and a.start is a and a.end is a
