"""spasm.emulator.Emulator compatible front for the verification VM in concrete mode."""
import os, sys
sys.path.insert(0, os.path.dirname(os.path.dirname(os.path.dirname(os.path.abspath(__file__)))))
from hv.vm import VM


class Emulator:
    def __init__(self, prog, ctx=None):
        self.prog = prog
        self.ctx = ctx
        self._events = None

    def _run(self):
        vm = VM(self.prog, max_steps=3000000)
        p = vm.run_concrete()
        self._events = list(p.events)
        self._kind = p.kind
        self._info = p.info

    def step(self):
        if self._events is None:
            self._run()
        if self._events:
            k, v = self._events.pop(0)
            if k == 'out':
                self.ctx.output(bytes([v]))
            elif k == 'sleep':
                self.ctx.sleep(v)
            elif k == 'flag':
                self.ctx.on_flag(self.prog, v)
            return True
        if self._kind == 'halt':
            return False
        if self._kind in ('done', 'diverge'):
            return True
        raise RuntimeError('VM result: %s %s' % (self._kind, self._info))
