class ExecutionContext:
    def __init__(self): pass
    def output(self, val): pass
    def sleep(self, millis): pass
    def on_flag(self, prog, flag): pass
    def virtualize(self): return VirtualContext()


class VirtualContext(ExecutionContext):
    pass
