"""spasm.parser.Parser compatible front for the verification assembler."""
import os, sys
sys.path.insert(0, os.path.dirname(os.path.dirname(os.path.dirname(os.path.abspath(__file__)))))
from hv.asm import assemble, bind_argv


class Parser:
    def __init__(self, args=()):
        self.args = list(args)
        self.lines = []

    def parse_lines(self, lines):
        self.lines += list(lines)

    def get_program(self):
        return assemble(self.lines, bind_argv(self.lines, self.args))
