import sys
sys.path.insert(0, '/tmp/probe')
from vm2 import VM2
class Emulator:
    def __init__(self, prog, ctx=None):
        self.prog = prog; self.ctx = ctx; self._events = None; self._halted = False
    def _run(self):
        vm = VM2(self.prog, max_steps=3000000)
        res = vm.run()
        assert len(res) == 1, res
        kind, conds, ev, info = res[0]
        self._events = list(ev); self._kind = kind
    def step(self):
        if self._events is None: self._run()
        if self._events:
            k, v = self._events.pop(0)
            if k == 'out': self.ctx.output(bytes([v]))
            elif k == 'sleep': self.ctx.sleep(v)
            elif k == 'flag': self.ctx.on_flag(self.prog, v)
            return True
        if self._kind in ('halt',): return False
        if self._kind in ('done', 'diverge'): return True
        raise RuntimeError('VM result: %s' % self._kind)
