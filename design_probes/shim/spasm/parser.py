import sys
sys.path.insert(0, '/tmp/probe')
from svm import assemble
class Parser:
    def __init__(self, args=()):
        self.args = list(args); self.lines = []
    def parse_lines(self, lines):
        self.lines += list(lines)
    def get_program(self):
        # bind argv
        argv_spec = []
        for l in self.lines:
            if l.startswith(b'%argv'):
                argv_spec = [p.decode() for p in l.split()[1:]]
        fixed_before = []; fixed_after = []; var = None
        for p in argv_spec:
            if p.startswith('[<'): var = p[2:].split('>')[0]
            elif var is None: fixed_before.append(p[1:-1])
            else: fixed_after.append(p[1:-1])
        args = self.args
        nfix = len(fixed_before) + len(fixed_after)
        if (var is None and len(args) != nfix) or len(args) < nfix:
            raise ValueError('bad argument count')
        raw = {}
        for n, a in zip(fixed_before, args): raw[n] = [a]
        if fixed_after:
            for n, a in zip(fixed_after, args[len(args) - len(fixed_after):]): raw[n] = [a]
        if var is not None:
            raw[var] = args[len(fixed_before):len(args) - len(fixed_after)]
        # decide per .arg format
        fmts = {}
        for l in self.lines:
            l = l.strip()
            if l.startswith(b'.arg'):
                parts = l.decode().split(); fmts[parts[1]] = parts[2]
        spec = {}
        for n, vals in raw.items():
            f = fmts.get(n, 'word')
            if f in ('word', 'byte'): spec[n] = {'values': [int(v) for v in vals]}
            else: spec[n] = {'values': [v.encode('utf-8') for v in vals]}
        return assemble(self.lines, spec)
