"""Reconnaissance: for random programs, find the guard cells via symbolic AP0, re-run exactly at the tightest size, compare with generous stack."""
import sys, random, time, re
root = sys.argv[4] if len(sys.argv) > 4 else '/repo'
sys.path.insert(0, root); sys.path.insert(0, '/tmp/probe')
import z3
from hidc.lexer import SourceCode
from hidc.parser import parse
from hidc.ast import Environment
from hidc.codegen import CodeGen
from hidc.errors import CompilerError
from svm import assemble
from vm2 import VM2
import gen1, gen2
ws = 2; B = 16; BIG = 300
def build(src, names, stack):
    env = Environment.empty(); parse(SourceCode.from_string(src)).evaluate(env)
    return assemble(list(CodeGen(env, ws, stack, False).gen_lines()), {n: {} for n in names})
def norm(res):
    out = []
    for k, c, ev, i in res:
        out.append((k, tuple((a, b if isinstance(b, (int, str)) else b.sexpr()) for a, b in ev), tuple(sorted(x.sexpr() for x in c))))
    return sorted(out, key=str)
which = sys.argv[1]; seed0 = int(sys.argv[2]); count = int(sys.argv[3])
stats = dict(ok=0, bad=0, skipped=0); t0 = time.time()
for seed in range(seed0, seed0 + count):
    if which == 'seq': src = gen1.G(random.Random(seed)).program(); names = ['x', 'y', 'z']
    else: src = gen2.G(random.Random(seed)).program(); names = ['x', 'y']
    try: P = build(src, names, BIG)
    except CompilerError: stats['skipped'] += 1; continue
    L = P.labels; se = L['stack_end'][1]; ss = L['stack_start'][1]; entry = ws * (len(names) + 1)
    vm = VM2(P, max_steps=20000, addr_cap=4); AP0 = z3.BitVec('AP0', B); vm.AP0 = AP0
    vm.put(vm.state, L['ap'][1], AP0, ws)
    try: res = vm.run([z3.UGE(AP0, ss), z3.ULE(AP0, se - entry)])
    except Exception as e: stats['skipped'] += 1; continue
    sizes = set()
    for kind, conds, ev, info in res:
        o = z3.Optimize(); o.add(*conds); o.maximize(z3.BV2Int(AP0))
        if o.check() != z3.sat: continue
        mx = o.model().eval(AP0, True).as_long()
        sizes.add((se - entry - mx + ws - 1) // ws)
    vg = VM2(P, max_steps=20000); rg = vg.run()
    bad = []
    def Zv(v, n): return z3.BitVecVal(v, n) if isinstance(v, int) else v
    for sw in sorted(sizes):
        if sw >= BIG: continue
        for d in (0, 1):
            P2 = build(src, names, sw + d); v2 = VM2(P2, max_steps=20000); r2 = v2.run()
            sol = z3.Solver(); sol.set('timeout', 8000)
            for k2, c2, e2, i2 in r2:
                if any(a == 'flag' and b == 'stack_overflow' for a, b in e2): continue
                for k1, c1, e1, i1 in rg:
                    sol.push(); sol.add(*c1); sol.add(*c2)
                    if sol.check() == z3.sat:
                        shape = k1 == k2 and len(e1) == len(e2) and all(a[0] == b[0] and (a[0] != 'flag' or a[1] == b[1]) for a, b in zip(e1, e2))
                        if not shape: bad.append((sw + d, 'shape', k2, str(i2)[:40], [(a, str(b)[:16]) for a, b in e2][:8], [(a, str(b)[:16]) for a, b in e1][:8]))
                        else:
                            dd = [Zv(a[1], 8 if a[0] == 'out' else 16) != Zv(b[1], 8 if a[0] == 'out' else 16) for a, b in zip(e1, e2) if a[0] != 'flag' and not (isinstance(a[1], int) and isinstance(b[1], int) and a[1] == b[1]) and not (not isinstance(a[1], int) and not isinstance(b[1], int) and z3.eq(a[1], b[1]))]
                            if dd:
                                sol.add(z3.Or(*dd))
                                if sol.check() == z3.sat: bad.append((sw + d, 'value', str(sol.model())[:80]))
                    sol.pop()
    if bad:
        stats['bad'] += 1
        nested = bool(re.search(r'\[[^\]\[]*\[[^\]]*\][^\]]*\]', src.split('@is_you')[1]))
        print('=== TIGHT-STACK DIFF seed', seed, 'sizes', sorted(sizes), 'nested-literal' if nested else 'NO-NESTED-LITERAL', bad[:2]); print(src.split('@is_you')[1][:600])
    else: stats['ok'] += 1
print(which, stats, 'time', round(time.time() - t0, 1))
