import sys, itertools
sys.path.insert(0, '/repo')
from hidc.lexer import SourceCode
from hidc.parser import parse
from hidc.ast import Environment
from hidc.errors import CompilerError
SC = ['int', 'byte', 'bool', 'string']
TYPES = SC + [f'{t}[]' for t in SC] + [f'const {t}[]' for t in SC]
PRE = "const int K = 5; int iv = 1; byte bv = 2; bool ov = true; string sv = \"s\"; int[] ia = [1,2]; const int[] cia = [1,2]; byte[] ba = [1,2]; const byte[] cba = [1,2]; bool[] oa = [true]; const string[] csa = [\"a\"]; string[] sa = [\"a\"];"
# expression -> (type, flags)  flags: lit (shrinkable int), arrlit: element descriptors, var array
E = {
 '5': ('int', 'shrink'), '300': ('int', 'shrink'), "'c'": ('byte', ''), 'true': ('bool', ''), '"s"': ('string', ''),
 'iv': ('int', ''), 'bv': ('byte', ''), 'ov': ('bool', ''), 'sv': ('string', ''), 'K': ('int', ''),
 'iv + 1': ('int', ''), 'bv + 1': ('int', 'shrink'), '1 + 2': ('int', 'shrink'), '-bv': ('int', 'shrink'), 'K + 1': ('int', ''),
 'iv is byte': ('byte', ''), '5 is int': ('int', ''), '(5 is byte)': ('byte', ''), 'ov is int': ('int', ''), 'iv is bool': ('bool', ''), 'sv is bool': ('bool', ''),
 'iv < bv': ('bool', ''), 'ia.length': ('int', ''), 'ia[0]': ('int', ''), 'ba[0]': ('byte', ''), 'sv[0]': ('byte', ''), 'csa[0]': ('string', ''),
 'ia': ('int[]', 'var'), 'cia': ('const int[]', 'var'), 'ba': ('byte[]', 'var'), 'cba': ('const byte[]', 'var'), 'oa': ('bool[]', 'var'), 'csa': ('const string[]', 'var'), 'sa': ('string[]', 'var'),
 'sv is byte[]': ('const byte[]', 'var'),
 '[1, 2]': ('lit', ['5', '5']), '[bv, 1]': ('lit', ['bv', '5']), '[iv, bv]': ('lit', ['iv', 'bv']), '[iv, true]': ('lit', ['iv', 'true']),
 '[true, ov]': ('lit', ['true', 'ov']), '["a", sv]': ('lit', ['"s"', 'sv']), '[]': ('lit', []), "['a', 1]": ('lit', ["'c'", '5']),
 '[1, 2] is byte[]': ('locked', 'byte'), '[bv] is int[]': ('locked', 'int'),
}
def scal_coercible(e, t):
    et, fl = E[e]
    if et == t: return True
    if et == 'byte' and t == 'int': return True
    if et == 'int' and t == 'byte' and fl == 'shrink': return True
    if et == 'string' and t == 'const byte[]': return True
    return False
def decl_ok(t, e):
    et, fl = E[e]
    if et == 'lit':
        if not t.endswith('[]'): return False
        el = t.replace('const ', '')[:-2]
        # array literal must itself be resolvable: first type all elements coerce to
        if fl and not any(all(scal_coercible(x, E[c][0]) for x in fl) for c in fl): return None  # unresolvable literal: error regardless
        return all(scal_coercible(x, el) for x in fl)
    if et == 'locked':
        if not t.endswith('[]'): return False
        return t.replace('const ', '')[:-2] == fl
    if fl == 'var':
        if t == et: return True
        # non-const array var -> const array type: Volatile -> declaration error
        return False
    return scal_coercible(e, t)
bad = 0; n = 0
for t in TYPES:
    for e in E:
        src = PRE + f' empty @is_you() {{ {t} v = {e}; }}'
        try:
            parse(SourceCode.from_string(src)).evaluate(Environment.empty()); got = True
        except CompilerError as ex:
            got = False; msg = str(ex)
        exp = decl_ok(t, e)
        if exp is None: exp = False
        n += 1
        if got != exp:
            bad += 1; print(f'DECL  {t} v = {e};   got={got} exp={exp}', '' if got else msg)
print('checked', n, 'bad', bad)
