import sys
root = sys.argv[1]
sys.path.insert(0, root); sys.path.insert(0, '/tmp/probe')
from hidc.lexer import SourceCode
from hidc.parser import parse
from hidc.ast import Environment
from hidc.codegen import CodeGen
from svm import assemble, AsmError
from vm2 import VM2
def esc(b): return '\\x%02x' % b
allb = bytes(range(256))
src = 'const byte[] cb = [' + ', '.join(str(b) for b in allb) + '];\nconst bool[] bb = [' + ', '.join('true' if (i * 7) % 3 == 0 else 'false' for i in range(37)) + '];\n'
src += 'empty @is_you() { write("' + ''.join(esc(b) for b in allb) + '"); ' + ' '.join("write('%s');" % esc(b) for b in allb) + ' write(cb); for (int i = 0; i < bb.length; i += 1) { if (bb[i]) { write(\'1\'); } else { write(\'0\'); } } }'
env = Environment.empty(); parse(SourceCode.from_string(src)).evaluate(env)
lines = list(CodeGen(env, 2, 200, False).gen_lines())
try:
    P = assemble(lines, {})
except Exception as e:
    print(root, 'ASSEMBLY ERROR', type(e).__name__, e); sys.exit()
vm = VM2(P, max_steps=100000); (k, c, ev, i), = vm.run()
out = bytes(v for kk, v in ev if kk == 'out')
exp = allb * 3 + ''.join('1' if (i * 7) % 3 == 0 else '0' for i in range(37)).encode()
print(root, k, i, 'output ok:', out == exp, len(out), len(exp))
