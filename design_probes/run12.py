import sys, time
sys.path.insert(0,'/repo')
import z3
from comp import compile
from svm import assemble
from vm2 import VM2
src = "empty @is_you(int a, int b) { sleep(a + b - 7); if (a < b) { write('T'); } else { write('F'); } sleep(a / 3); }"
def run(ws):
    P = assemble(compile(src, word_size=ws, stack_size=40), {'a': {}, 'b': {}})
    vm = VM2(P); res = vm.run(); return vm, res
t = time.time()
vn, rn = run(2); vw, rw = run(4)
a, b = vn.inputs['a'][0], vn.inputs['b'][0]
A, Bw = vw.inputs['a'][0], vw.inputs['b'][0]
link = [A == z3.SignExt(16, a), Bw == z3.SignExt(16, b)]
noov = [z3.BVAddNoOverflow(a, b, True), z3.BVAddNoUnderflow(a, b), z3.BVSubNoOverflow(a+b, z3.BitVecVal(7,16)), z3.BVSubNoUnderflow(a+b, z3.BitVecVal(7,16), True)]
s = z3.Solver(); s.set('timeout', 120000)
nq = 0
for k1, c1, e1, i1 in rn:
    for k2, c2, e2, i2 in rw:
        s.push(); s.add(*c1); s.add(*c2); s.add(*link); s.add(*noov)
        if s.check() == z3.sat:
            assert len(e1) == len(e2), (e1, e2)
            diffs = []
            for x, y in zip(e1, e2):
                assert x[0] == y[0]
                if x[0] == 'flag': assert x[1] == y[1]; continue
                xv = z3.BitVecVal(x[1], 16 if x[0]=='sleep' else 8) if isinstance(x[1], int) else x[1]
                yv = z3.BitVecVal(y[1], 32 if y[0]=='sleep' else 8) if isinstance(y[1], int) else y[1]
                diffs.append(z3.SignExt(16, xv) != yv if x[0] == 'sleep' else xv != yv)
            s.add(z3.Or(*diffs)); r = s.check(); nq += 1
            print('pair', r, s.model() if r == z3.sat else '')
        s.pop()
print('time', round(time.time()-t, 2), 'queries', nq)
