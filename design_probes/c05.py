import sys
root = sys.argv[1]
sys.path.insert(0, root); sys.path.insert(0, '/tmp/probe')
import z3
from hidc.lexer import SourceCode
from hidc.parser import parse
from hidc.ast import Environment
from hidc.codegen import CodeGen
from svm import assemble
from vm2 import VM2
for T in ['int', 'byte', 'bool', 'string']:
  for ws in (2, 3):
    src = f"empty @is_you(int n) {{ {T} v[n]; sleep(v.length); write('k'); }}"
    env = Environment.empty(); parse(SourceCode.from_string(src)).evaluate(env)
    P = assemble(list(CodeGen(env, ws, 100, False).gen_lines()), {'n': {}})
    vm = VM2(P); n = vm.inputs['n'][0]; res = vm.run()
    s = z3.Solver(); bad = []
    for k, c, ev, i in res:
        flags = [v for kk, v in ev if kk == 'flag']
        s.push(); s.add(*c)
        if 'stack_overflow' in flags:
            s.add(n >= 0, n <= 10)          # must not overflow for tiny non-negative lengths
            if s.check() == z3.sat: bad.append(('spurious overflow', s.model()))
        else:
            s.add(n < 0)                    # negative length must be flagged
            if s.check() == z3.sat: bad.append(('negative accepted', k, i, s.model()))
        s.pop()
    print(root.split('/')[-1], T, 'w=%d' % ws, 'paths', len(res), 'BAD' if bad else 'ok', bad[:2])
