"""Prototype symbolic Sphinx VM (probe only)."""
import re, sys, time
import z3

class AsmError(Exception): pass

ESC = {'n': 10, 'r': 13, 't': 9, '0': 0, '\\': 92, "'": 39, '"': 34}

def unescape(body: bytes):
    out = bytearray(); i = 0
    while i < len(body):
        c = body[i]
        if c == 92:
            if i + 1 >= len(body): raise AsmError('dangling backslash')
            d = chr(body[i+1])
            if d == 'x':
                h = body[i+2:i+4]
                if len(h) != 2: raise AsmError('bad \\x')
                out.append(int(h, 16)); i += 4
            elif d in ESC:
                out.append(ESC[d]); i += 2
            else:
                raise AsmError(f'bad escape \\{d}')
        else:
            out.append(c); i += 1
    return bytes(out)

TOK = re.compile(rb"""\s*(?:
    (?P<num>0x[0-9a-fA-F]+|\d+)(?P<w>w)? |
    (?P<chr>'(?:[^'\\]|\\.|\\x..)') |
    (?P<name>\$?[A-Za-z_][A-Za-z_0-9]*) |
    (?P<op>[-+*&()\[\]{},])
)""", re.X)

def split_comment(line: bytes):
    # strip ; comments outside quotes
    out = bytearray(); q = None; i = 0
    while i < len(line):
        c = line[i:i+1]
        if q:
            out += c
            if c == b'\\':
                out += line[i+1:i+2]; i += 1
            elif c == q: q = None
        else:
            if c == b';': break
            if c in (b'"', b"'"): q = c
            out += c
        i += 1
    if q: raise AsmError('unterminated quote: %r' % line)
    return bytes(out).strip()

class Operand:
    # kind: 'imm' (value expr), 'state' (addr expr), 'const' (addr expr)
    def __init__(self, kind, toks): self.kind, self.toks = kind, toks
    def __repr__(self): return f'{self.kind}:{self.toks}'

class Instr:
    def __init__(self, op, args, src): self.op, self.args, self.src = op, args, src
    def __repr__(self): return self.src

def tokenize(b: bytes):
    toks = []; pos = 0
    b = b.strip()
    while pos < len(b):
        m = TOK.match(b, pos)
        if not m or m.end() == pos: raise AsmError('bad operand text %r' % b[pos:])
        pos = m.end()
        if m.group('num') is not None:
            toks.append(('num', int(m.group('num'), 0), bool(m.group('w'))))
        elif m.group('chr') is not None:
            v = unescape(m.group('chr')[1:-1])
            if len(v) != 1: raise AsmError('bad char')
            toks.append(('num', v[0], False))
        elif m.group('name') is not None:
            toks.append(('name', m.group('name').decode()))
        else:
            toks.append(('op', m.group('op').decode()))
    return toks

def split_args(toks):
    args = [[]]; depth = 0
    for t in toks:
        if t == ('op', ',') and depth == 0: args.append([]); continue
        if t[0] == 'op' and t[1] in '([{': depth += 1
        if t[0] == 'op' and t[1] in ')]}': depth -= 1
        args[-1].append(t)
    return [a for a in args if a]

def mk_operand(toks):
    if toks[0] == ('op', '['):
        assert toks[-1] == ('op', ']'); return Operand('state', toks[1:-1])
    if toks[0] == ('op', '{'):
        assert toks[-1] == ('op', '}'); return Operand('const', toks[1:-1])
    return Operand('imm', toks)

class Program:
    pass

def assemble(lines, argspec=None):
    """argspec: dict name -> dict(kind=..., ...) giving symbolic argument model."""
    P = Program(); P.word = 2; P.labels = {}; P.code = []; P.argv = []
    P.state = []  # list of ('c', int) | ('s', z3 bv8) | ('lw', toks) word items pending
    P.const = []
    items = {'state': [], 'const': []}  # (kind, payload)
    sec = None
    size = {'state': 0, 'const': 0}
    argspec = argspec or {}
    P.argc_extra = None
    for raw in lines:
        line = split_comment(raw)
        if not line: continue
        if line.startswith(b'%'):
            parts = line.split()
            if parts[0] == b'%argv': P.argv = [p.decode() for p in parts[1:]]
            elif parts[0] == b'%format':
                if parts[1] == b'word': P.word = int(parts[2])
            elif parts[0] == b'%section': sec = parts[1].decode()
            else: raise AsmError('unknown directive %r' % line)
            continue
        m = re.match(rb'([A-Za-z_][A-Za-z_0-9]*):\s*(.*)$', line)
        if m:
            name = m.group(1).decode()
            if name in P.labels: raise AsmError('dup label ' + name)
            P.labels[name] = (sec, len(P.code) if sec == 'code' else size[sec])
            line = m.group(2).strip()
            if not line: continue
        if sec == 'code':
            mm = re.match(rb'([a-z]+)\s*(.*)$', line)
            op = mm.group(1).decode()
            if op == 'flag':
                args = [mm.group(2).decode().strip()]
            else:
                args = [mk_operand(a) for a in split_args(tokenize(mm.group(2)))]
            P.code.append(Instr(op, args, line.decode()))
            continue
        # data
        mm = re.match(rb'\.([a-z]+)\s*(.*)$', line)
        if not mm: raise AsmError('bad data line %r' % line)
        d, rest = mm.group(1).decode(), mm.group(2)
        W = P.word
        if d == 'word':
            for a in split_args(tokenize(rest)):
                items[sec].append(('word', a)); size[sec] += W
        elif d == 'byte':
            for a in split_args(tokenize(rest)):
                items[sec].append(('byte', a)); size[sec] += 1
        elif d == 'zero':
            n = ('zero', tokenize(rest)); items[sec].append(n)
            size[sec] += const_eval(tokenize(rest), {}, W)
        elif d == 'ascii':
            rest = rest.strip()
            if not (rest.startswith(b'"') and rest.endswith(b'"') and len(rest) >= 2):
                raise AsmError('bad ascii %r' % rest)
            data = unescape(rest[1:-1])
            items[sec].append(('bytes', data)); size[sec] += len(data)
        elif d == 'arg':
            parts = rest.decode().split()
            name, fmt = parts[0], parts[1]
            spec = argspec[name]
            items[sec].append(('arg', name, fmt, parts[2:], spec))
            size[sec] += arg_size(fmt, parts[2:], spec, W)
        else:
            raise AsmError('unknown data directive ' + d)
    P.items = items; P.size = size
    return P

def arg_size(fmt, params, spec, W):
    if 'values' in spec:
        v = spec['values']
        if fmt == 'word': return W * len(v)
        if fmt == 'byte': return len(v)
        if fmt == 'asciip':
            if 'array' in params: return W * len(v) + sum(W + len(x) for x in v)
            return W + len(v[0])
    if fmt == 'word': return W * spec.get('cap', 1)
    if fmt == 'byte': return spec.get('cap', 1)
    if fmt == 'asciip':
        if 'array' in params:
            # array of pointers, then the strings
            return spec['cap'] * W + spec['cap'] * (W + spec['slen'])
        return W + spec['slen']
    raise AsmError(fmt)

def const_eval(toks, labels, W, special=None):
    """Evaluate immediate expression: sums of terms; supports unary -, +, -, &, parens."""
    pos = 0
    def atom():
        nonlocal pos
        t = toks[pos]
        if t[0] == 'num':
            pos += 1; return t[1] * (W if t[2] else 1)
        if t[0] == 'name':
            pos += 1
            if t[1].startswith('$'):
                return special[t[1]]
            if t[1] not in labels: raise AsmError('undefined label ' + t[1])
            return labels[t[1]][1]
        if t == ('op', '-'):
            pos += 1; return -atom()
        if t == ('op', '('):
            pos += 1; v = expr()
            assert toks[pos] == ('op', ')'); pos += 1; return v
        raise AsmError('bad expr %r' % (toks,))
    def expr():
        nonlocal pos
        v = atom()
        while pos < len(toks) and toks[pos][0] == 'op' and toks[pos][1] in '+-&*':
            o = toks[pos][1]; pos += 1; r = atom()
            v = v + r if o == '+' else v - r if o == '-' else v & r if o == '&' else v * r
        return v
    v = expr()
    if pos != len(toks): raise AsmError('trailing tokens %r' % (toks,))
    return v


class Halted(Exception): pass

class VM:
    def __init__(self, prog, max_steps=20000, symbolic_stack=False, timeout_ms=20000):
        self.P = prog; self.W = prog.word; self.B = 8 * self.W
        self.max_steps = max_steps
        self.solver = z3.Solver(); self.solver.set('timeout', timeout_ms)
        self.nq = 0; self.tq = 0.0
        self.assumptions = []
        self.build_images(symbolic_stack)

    def bv(self, v): return z3.BitVecVal(v, self.B)

    def build_images(self, symbolic_stack):
        P, W, B = self.P, self.W, self.B
        self.inputs = {}
        special = {}
        self.argc_count = None
        for sec in ('const','state'):
            for it in P.items[sec]:
                if it[0]=='arg' and 'count' in it[4]: self.argc_count = it[4]['count']
        for secname in ('const', 'state'):
            mem = z3.K(z3.BitVecSort(B), z3.BitVecVal(0, 8))
            if secname == 'state' and symbolic_stack:
                mem = z3.Array('stack0', z3.BitVecSort(B), z3.BitVecSort(8))
            addr = 0
            for it in P.items[secname]:
                if it[0] == 'word':
                    v = self.imm_toks(it[1], special)
                    for k in range(W):
                        mem = z3.Store(mem, self.bv(addr + k), z3.Extract(8*k+7, 8*k, v))
                    addr += W
                elif it[0] == 'byte':
                    v = self.imm_toks(it[1], special)
                    mem = z3.Store(mem, self.bv(addr), z3.Extract(7, 0, v)); addr += 1
                elif it[0] == 'zero':
                    n = const_eval(it[1], P.labels, W)
                    if secname == 'state' and symbolic_stack:
                        pass
                    addr += n
                elif it[0] == 'bytes':
                    for b in it[1]:
                        mem = z3.Store(mem, self.bv(addr), z3.BitVecVal(b, 8)); addr += 1
                elif it[0] == 'arg':
                    _, name, fmt, params, spec = it
                    cap = spec.get('cap', 1)
                    if fmt in ('word', 'byte'):
                        n = W if fmt == 'word' else 1
                        vals = []
                        for i in range(cap):
                            x = z3.BitVec(f'{name}_{i}', 8 * n); vals.append(x)
                            for k in range(n):
                                mem = z3.Store(mem, self.bv(addr + k), z3.Extract(8*k+7, 8*k, x))
                            addr += n
                        self.inputs[name] = vals
                    elif fmt == 'asciip':
                        raise NotImplementedError
                    if 'count' in spec:
                        special['$argc_arr'] = spec['count']
            setattr(self, secname + '0', mem)
            if secname == 'const':
                # need special $argc before state; handled lazily
                pass
        self.special = special

    def imm_toks(self, toks, special=None):
        # returns z3 BV of width B; $argc handled symbolically: "$argc - k" => array count
        names = [t[1] for t in toks if t[0] == 'name' and t[1].startswith('$')]
        if names:
            # only pattern: $argc - N  -> count of variadic array
            assert toks[0] == ('name', '$argc')
            return self.argc_count
        return self.bv(const_eval(toks, self.P.labels, self.W))

    # ---- execution
    def run(self, entry=0, extra_assumptions=()):
        W, B = self.W, self.B
        s = self.solver
        for a in extra_assumptions: s.add(a)
        init = dict(pc=entry, mem=self.state0, ev=(), choices=(), steps=0)
        results = []   # (kind, pathcond list, events, info)
        # DFS with explicit stack of (state, pathcond tuple)
        work = [(init, ())]
        while work:
            st, pc_ = work.pop()
            self.explore(st, pc_, work, results)
        return results

    def feasible(self, conds):
        t = time.time()
        self.solver.push()
        for c in conds: self.solver.add(c)
        r = self.solver.check()
        self.solver.pop()
        self.nq += 1; self.tq += time.time() - t
        if r == z3.unknown: raise RuntimeError('solver unknown')
        return r == z3.sat

    def load(self, mem, addr, n):
        bs = [z3.Select(mem, addr + k) if k else z3.Select(mem, addr) for k in range(n)]
        v = bs[0]
        for b in bs[1:]: v = z3.Concat(b, v)
        return z3.simplify(v)

    def store(self, mem, addr, val, n):
        for k in range(n):
            mem = z3.Store(mem, z3.simplify(addr + k), z3.Extract(8*k+7, 8*k, val))
        return mem

    def val(self, st, a):
        W, B = self.W, self.B
        if a.kind == 'imm': return self.imm_toks(a.toks)
        addr = self.imm_toks(a.toks)
        if a.kind == 'state': return self.load(st['mem'], addr, W)
        return self.load(self.const0, addr, W)

    def explore(self, st, conds, work, results):
        P = self.P; W = self.W; B = self.B
        conds = list(conds)
        st = dict(st)
        seen = {}
        while True:
            if st['steps'] > self.max_steps:
                results.append(('bound', conds, st['ev'], st['pc'])); return
            st['steps'] += 1
            pc = st['pc']
            if not (0 <= pc < len(P.code)):
                results.append(('pc_oob', conds, st['ev'], pc)); return
            ins = P.code[pc]; op = ins.op; A = ins.args
            if op == 'halt' or (op[0] == 'h' and op != 'halt'):
                if op == 'halt':
                    c = z3.BoolVal(True)
                else:
                    l, r = self.val(st, A[0]), self.val(st, A[1])
                    c = {'heq': l == r, 'hne': l != r, 'hlt': l < r, 'hgt': l > r, 'hle': l <= r, 'hge': l >= r,
                         'hltu': z3.ULT(l, r), 'hgtu': z3.UGT(l, r), 'hleu': z3.ULE(l, r), 'hgeu': z3.UGE(l, r)}[op]
                    c = z3.simplify(c)
                can_halt = (not z3.is_false(c)) and (z3.is_true(c) or self.feasible(conds + [c]))
                can_cont = (not z3.is_true(c)) and (z3.is_false(c) or self.feasible(conds + [z3.Not(c)]))
                if can_halt:
                    hconds = conds if z3.is_true(c) else conds + [c]
                    if not st['choices']:
                        results.append(('halt', hconds, st['ev'], pc))
                    else:
                        snap = st['choices'][-1]
                        ns = dict(snap); ns['steps'] = st['steps']
                        if can_cont:
                            work.append((ns, tuple(hconds)))
                        else:
                            st = ns; conds = hconds
                            continue
                if can_cont:
                    if not z3.is_false(c): conds = conds + [z3.Not(c)]
                    st['pc'] = pc + 1
                    continue
                return
            if op == 'j':
                tgt = z3.simplify(self.val(st, A[0]))
                if not z3.is_bv_value(tgt):
                    results.append(('symbolic_jump', conds, st['ev'], (pc, tgt))); return
                t = tgt.as_long()
                # loop detection: jump target with identical memory as a previous taken visit
                snap = dict(st); snap['pc'] = t; snap['choices'] = st['choices']
                # trivial terminal: j X; halt where X earlier and memory unchanged since -> infinite loop
                st['choices'] = st['choices'] + (snap,)
                st['pc'] = pc + 1
                # detect terminal loop: snapshot identical to one already on stack => cycle
                key = (t, st['mem'].hash(), len(st['ev']))
                if key in seen and seen[key]:
                    pass
                continue
            if op == 'flag':
                st['ev'] = st['ev'] + (('flag', A[0]),)
                if A[0] in ('win', 'error'):
                    results.append(('done', conds, st['ev'], A[0])); return
                st['pc'] = pc + 1; continue
            if op == 'yield':
                v = self.val(st, A[0]); st['ev'] = st['ev'] + (('out', z3.simplify(z3.Extract(7, 0, v))),)
                st['pc'] = pc + 1; continue
            if op == 'sleep':
                v = self.val(st, A[0]); st['ev'] = st['ev'] + (('sleep', z3.simplify(v)),)
                st['pc'] = pc + 1; continue
            if op == 'mov':
                st['mem'] = self.store(st['mem'], self.imm_toks(A[0].toks), self.val(st, A[1]), W)
                st['pc'] = pc + 1; continue
            if op in ('add', 'sub', 'mul', 'div', 'mod', 'and', 'or', 'xor', 'asl', 'asr'):
                l, r = self.val(st, A[1]), self.val(st, A[2])
                if op == 'add': v = l + r
                elif op == 'sub': v = l - r
                elif op == 'mul': v = l * r
                elif op in ('div', 'mod'):
                    if self.feasible(conds + [r == 0]):
                        results.append(('div0', conds + [r == 0], st['ev'], pc));
                        conds = conds + [r != 0]
                    # floor semantics
                    q = l / r  # bvsdiv truncating
                    rem = z3.SRem(l, r)
                    adj = z3.And(rem != 0, (rem < 0) != (r < 0))
                    v = z3.If(adj, q - 1, q) if op == 'div' else z3.If(adj, rem + r, rem)
                elif op == 'and': v = l & r
                elif op == 'or': v = l | r
                elif op == 'xor': v = l ^ r
                elif op == 'asl': v = l << r
                elif op == 'asr': v = l >> r
                st['mem'] = self.store(st['mem'], self.imm_toks(A[0].toks), z3.simplify(v), W)
                st['pc'] = pc + 1; continue
            if op in ('lws', 'lwc', 'lbs', 'lbc', 'lwso', 'lwco', 'lbso', 'lbco'):
                n = W if op[1] == 'w' else 1
                mem = st['mem'] if op[2] == 's' else self.const0
                addr = self.val(st, A[1])
                if len(op) == 4: addr = addr + self.val(st, A[2])
                v = self.load(mem, z3.simplify(addr), n)
                if n < W: v = z3.ZeroExt(B - 8, v)
                st['mem'] = self.store(st['mem'], self.imm_toks(A[0].toks), v, W)
                st['pc'] = pc + 1; continue
            if op in ('sws', 'sbs', 'swso', 'sbso'):
                n = W if op[1] == 'w' else 1
                addr = self.val(st, A[0])
                if len(op) == 4: addr = addr + self.val(st, A[1])
                v = self.val(st, A[-1])
                st['mem'] = self.store(st['mem'], z3.simplify(addr), v, n)
                st['pc'] = pc + 1; continue
            raise AsmError('unknown op ' + op)
