import sys, time
sys.path.insert(0,'/repo'); sys.path.insert(0,'/tmp/probe')
import z3
import run13 as R
t = time.time(); R.check(open('/repo/examples/sat.hid').read(), {}); print('sat.hid', round(time.time()-t,1))
t = time.time(); R.check(open('/repo/examples/optional_max.hid').read(), {'nums': {'cap': 3, 'count': 3}}, assume=lambda vm: [z3.ULE(v, 9) for v in vm.inputs['nums']]); print('optional_max (no range limit applied to runs)', round(time.time()-t,1))
