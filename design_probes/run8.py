import sys, time
sys.path.insert(0,'/repo')
import z3
from comp import compile
from svm import *
ws = int(sys.argv[1]); B = 8*ws
lines = compile('empty @is_you(int x) { write(x); }', word_size=ws, stack_size=60)
P = assemble(lines, {'x': {}})
vm = VM(P, max_steps=20000, timeout_ms=600000)
x = vm.inputs['x'][0]
t = time.time()
res = vm.run()
print('paths', len(res), 'vm time', round(time.time()-t, 2), 'queries', vm.nq, round(vm.tq,2))
# reference: decimal digits of signed x
maxd = len(str(2**(B-1)))
ux = z3.If(x < 0, -x, x)   # as unsigned magnitude (MIN maps to itself = 2^(B-1) unsigned)
def ref_events(nd, neg):
    evs = []
    if neg: evs.append(z3.BitVecVal(45, 8))
    for k in reversed(range(nd)):
        d = z3.URem(z3.UDiv(ux, z3.BitVecVal(10**k, B)), z3.BitVecVal(10, B))
        evs.append(z3.Extract(7, 0, d) + 48)
    return evs
def ndigits_cond(nd):
    lo = z3.BitVecVal(10**(nd-1) if nd > 1 else 0, B)
    c = z3.UGE(ux, lo)
    if 10**nd < 2**B: c = z3.And(c, z3.ULT(ux, z3.BitVecVal(10**nd, B)))
    return c
s = z3.Solver(); s.set('timeout', 600000)
t = time.time(); nq = 0; bad = 0
cover = []
for kind, conds, ev, info in res:
    assert kind == 'done' and info == 'win', (kind, info)
    outs = [v for k, v in ev if k == 'out']
    cover.append(z3.And(*conds))
    for neg in (False, True):
        for nd in range(1, maxd + 1):
            g = z3.And(ndigits_cond(nd), (x < 0) == neg)
            exp = ref_events(nd, neg)
            s.push(); s.add(*conds); s.add(g)
            if len(exp) != len(outs):
                r = s.check(); nq += 1
                if r != z3.unsat: bad += 1; print('len mismatch', r, nd, neg, len(outs))
            else:
                s.add(z3.Or(*[a != b for a, b in zip(outs, exp)]))
                r = s.check(); nq += 1
                if r != z3.unsat: bad += 1; print('value mismatch', r, nd, neg, s.model() if r == z3.sat else '')
            s.pop()
s.push(); s.add(z3.Not(z3.Or(*cover))); r = s.check(); s.pop()
print('coverage complete:', r == z3.unsat, 'equiv queries', nq, 'bad', bad, 'time', round(time.time()-t, 2))
