import sys
sys.path.insert(0, '/repo')
from tcref import *
L = {'iv': ('int', False), 'bv': ('byte', False), 'ov': ('bool', False), 'sv': ('string', False), 'K': ('int', True), 'ia': ('int[]', True),
     'ia[0]': ('int', False), 'cia[0]': ('int', True), 'ba[0]': ('byte', False), 'cba[0]': ('byte', True), 'sv[0]': ('byte', True), 'csa[0]': ('string', True), 'sa[0]': ('string', False), 'oa[0]': ('bool', False)}
bad = 0; n = 0
for l, (lt, const) in L.items():
    for e in E:
        for op in ['=', '+=', '/=']:
            src = PRE + f' empty @is_you() {{ {l} {op} {e}; }}'
            try:
                prog = parse(SourceCode.from_string(src)).evaluate(Environment.empty()); got = True
            except CompilerError as ex:
                got = False
            et, fl = E[e]
            if const: exp = False
            elif op == '=':
                exp = decl_ok(lt, e) is True if et not in ('lit', 'locked') and fl != 'var' else False
            else:
                # x op= e  ==  x = x op e : both operands coercible to int; result int, coercible to byte iff both operands coercible to byte
                if lt not in ('int', 'byte') or not (scal_coercible(e, 'int')): exp = False
                else:
                    exp = True if lt == 'int' else scal_coercible(e, 'byte')
                if exp and op == '/=' and e in ('5 is int',) : pass
            n += 1
            if got != exp:
                bad += 1; print(f'ASSIGN {l} {op} {e};  got={got} exp={exp}')
print('checked', n, 'bad', bad)
