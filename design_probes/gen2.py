"""Probe: random time-travel HiD programs, RI vs VM.  usage: gen2.py seed0 count [repo_root]"""
import sys, random, time, traceback, io, contextlib
root = sys.argv[3] if len(sys.argv) > 3 else '/repo'
sys.path.insert(0, root); sys.path.insert(0, '/tmp/probe')
import z3
import run13 as R
from hidc.errors import CompilerError

PRELUDE = """
int g = 0;
int ord(int a) { g += 1; return a + g; }
empty !d0(int a) { write('d'); !truth_is_defeat(a > 2); write('e'); }
empty !d1(int a) { write('p'); !d0(a + 1); write('q'); }
int !dv(int a) { !truth_is_defeat(a == 0); return a * 2; }
empty !pd(int a) {
    write('<');
    bool t = false;
    preempt { t = true; write('!'); }
    !truth_is_defeat(not t and a > 1);
    write('>');
}
"""
class G:
    def __init__(s, rnd): s.r = rnd; s.n = 0
    def v(s): return s.r.choice(['x', 'y', 'x', 'y', 'g'])
    def ie(s, d=1):
        r = s.r; c = r.random()
        if d <= 0 or c < 0.4: return r.choice(['x', 'y', 'g', '0', '1', '2', '3'])
        if c < 0.7: return f'({s.ie(d-1)} {r.choice("+-")} {s.ie(d-1)})'
        if c < 0.85: return f'ord({s.ie(d-1)})'
        return f'({s.ie(d-1)} % 4)'
    def be(s):
        return f'({s.ie()} {s.r.choice(["==", "!=", "<", ">", "<=", ">="])} {s.ie()})'
    def mark(s):
        s.n += 1; return f"write('{chr(65 + s.n % 26)}');"
    def try_stmt(s, d, loop):
        r = s.r; c = r.random()
        if c < 0.2: return s.mark()
        if c < 0.3: return f'!truth_is_defeat({s.be()});'
        if c < 0.36: return '!is_defeat();'
        if c < 0.46: return f'!d0({s.ie()});'
        if c < 0.52: return f'!d1({s.ie()});'
        if c < 0.58: return f'sleep(!dv({s.ie()}));'
        if c < 0.66: return f'!pd({s.ie()});'
        if c < 0.76: return 'preempt ' + s.try_block(d - 1, loop, pre=True)
        if c < 0.84 and d > 0: return f'if ({s.be()}) ' + s.try_block(d - 1, loop) + ' else ' + s.try_block(d - 1, loop)
        if c < 0.88: return f'{r.choice(["x", "y", "g"])} {r.choice(["=", "+=", "-="])} {s.ie()};'
        if c < 0.92 and loop: return r.choice(['break;', 'continue;'])
        if c < 0.95: return 'return;'
        if d > 0:
            s.n += 1; k = f'k{s.n}'
            return f'for (int {k} = 0; {k} < 2; {k} += 1) ' + s.try_block(d - 1, True)
        return s.mark()
    def try_block(s, d, loop, pre=False):
        out = []
        for _ in range(s.r.randrange(1, 4)):
            st = s.try_stmt(d, loop); out.append(st)
            if st in ('break;', 'continue;', 'return;', '!is_defeat();'): break
        return '{ ' + ' '.join(out) + ' }'
    def you_stmt(s, d, loop):
        r = s.r; c = r.random()
        if c < 0.2: return s.mark()
        if c < 0.55:
            h = r.choice(['undo', 'stop'])
            return f'try {s.try_block(2, loop)} {h} {{ {s.mark()} {s.you_stmt(0, loop) if r.random() < 0.3 else ""} }}'
        if c < 0.65: return f'sleep({s.ie()} ?? {s.ie()});'
        if c < 0.72: return f'sleep(ord({s.ie()}) ?? {r.choice(["1", "2", "x"])});'
        if c < 0.8: return f'{r.choice(["x", "y", "g"])} {r.choice(["=", "+=", "-="])} {s.ie()};'
        if c < 0.88 and d > 0: return f'if ({s.be()}) {s.you_block(d-1, loop)} else {s.you_block(d-1, loop)}'
        if c < 0.94 and d > 0:
            s.n += 1; k = f'k{s.n}'
            return f'for (int {k} = 0; {k} < 2; {k} += 1) {s.you_block(d-1, True)}'
        if loop and c < 0.97: return r.choice(['break;', 'continue;'])
        return f'@sub({s.ie()});' if d > 0 else s.mark()
    def you_block(s, d, loop):
        out = []
        for _ in range(s.r.randrange(1, 4)):
            st = s.you_stmt(d, loop); out.append(st)
            if st in ('break;', 'continue;'): break
        return '{ ' + ' '.join(out) + ' }'
    def program(s):
        sub = f'empty @sub(int x) {{ int y = 1; {s.you_stmt(0, False)} {s.you_stmt(0, False)} }}\n'
        body = [s.you_stmt(2, False) for _ in range(s.r.randrange(2, 5))]
        return PRELUDE + sub + 'empty @is_you(int x, int y) {\n  ' + '\n  '.join(body) + "\n  sleep(g); write('.');\n}\n"

if __name__ == '__main__':
    seed0 = int(sys.argv[1]); count = int(sys.argv[2])
    stats = dict(ok=0, mismatch=0, compile_err=0, crash=0); t0 = time.time()
    for seed in range(seed0, seed0 + count):
        src = G(random.Random(seed)).program()
        try:
            buf = io.StringIO()
            with contextlib.redirect_stdout(buf):
                bad = R.check(src, {'x': {}, 'y': {}})
            if bad:
                stats['mismatch'] += 1; print('=== MISMATCH seed', seed); print(src[len(PRELUDE):]); print(buf.getvalue()[:900])
            else: stats['ok'] += 1
        except CompilerError as e:
            stats['compile_err'] += 1
            if stats['compile_err'] <= 3: print('compile error', seed, e)
        except Exception as e:
            stats['crash'] += 1; print('=== CRASH seed', seed, type(e).__name__, str(e)[:300]); print(src[len(PRELUDE):]); traceback.print_exc(limit=4)
    print(stats, 'time', round(time.time() - t0, 1))
