import sys
if not any(p.endswith('fixed') for p in sys.path): sys.path.insert(0,'/repo')
from hidc.lexer import SourceCode
from hidc.parser import parse
from hidc.ast import Environment
from hidc.codegen import CodeGen
def compile(source, word_size=2, stack_size=500, unchecked=False, **options):
    env = Environment.empty(**options)
    parse(SourceCode.from_string(source)).evaluate(env)
    cg = CodeGen(env, word_size=word_size, stack_size=stack_size, unchecked=unchecked)
    return list(cg.gen_lines())
if __name__=='__main__':
    src=open(sys.argv[1]).read()
    for l in compile(src): print(l.decode())
