import sys, itertools
sys.path.insert(0, '/repo')
from hidc.lexer import SourceCode
from hidc.parser import parse
from hidc.parser.grammar import ps_expr, BlockContext
from hidc import ast as A
from hidc.errors import CompilerError
BIN = {'*': 4, '/': 4, '%': 4, '+': 5, '-': 5, '==': 6, '!=': 6, '<': 6, '>': 6, '<=': 6, '>=': 6, 'and': 7, 'or': 8}
def shape(e):
    if isinstance(e, A.Speculation): return ('??', shape(e.left), shape(e.right))
    if isinstance(e, A.Binary): return (str(e.token), shape(e.left), shape(e.right))
    if isinstance(e, A.Unary): return ('u' + str(e.token), shape(e.arg))
    if isinstance(e, A.Is): return ('is', shape(e.expr), str(e.type))
    if isinstance(e, A.VariableLookup): return e.var.name
    if isinstance(e, A.ArrayLookup): return ('idx', shape(e.source), shape(e.index))
    if isinstance(e, A.LengthLookup): return ('len', shape(e.source))
    if isinstance(e, A.IntValue): return e.data
    return repr(e)
def P(s):
    return shape(parse(SourceCode.from_string(s), rule=ps_expr(BlockContext.YOU)))
bad = 0
ops = list(BIN)
for o1, o2 in itertools.product(ops, ops):
    got = P(f'a {o1} b {o2} c')
    exp = (o2, (o1, 'a', 'b'), 'c') if BIN[o1] <= BIN[o2] else (o1, 'a', (o2, 'b', 'c'))
    if got != exp: bad += 1; print('PAIR', o1, o2, got, exp)
for o1, o2, o3 in itertools.product(ops, ops, ops):
    got = P(f'a {o1} b {o2} c {o3} d')
    # reference: precedence climbing
    toks = ['a', o1, 'b', o2, 'c', o3, 'd']
    def climb(pos, minlvl):
        left = toks[pos]; pos += 1
        return left, pos
    def parse_level(pos, lvl):
        if lvl == 3:
            return toks[pos], pos + 1
        left, pos = parse_level(pos, lvl - 1)
        while pos < len(toks) and BIN[toks[pos]] == lvl:
            op = toks[pos]; right, pos = parse_level(pos + 1, lvl - 1); left = (op, left, right)
        return left, pos
    exp, _ = parse_level(0, 8)
    if got != exp: bad += 1; print('TRIPLE', o1, o2, o3, got, exp)
# unary, is, postfix
for u in ['-', '+', 'not']:
    for o in ops:
        got = P(f'{u} a {o} b'); exp = (o, ('u' + u, 'a'), 'b')
        if got != exp: bad += 1; print('UNARY', u, o, got, exp)
        got = P(f'a {o} {u} b'); exp = (o, 'a', ('u' + u, 'b'))
        if got != exp: bad += 1; print('UNARY-R', u, o, got, exp)
    got = P(f'{u} a is int'); exp = ('is', ('u' + u, 'a'), 'int')
    if got != exp: bad += 1; print('UNARY-IS', u, got, exp)
    got = P(f'{u} a[1]'); exp = ('u' + u, ('idx', 'a', 1))
    if got != exp: bad += 1; print('UNARY-IDX', u, got, exp)
    got = P(f'{u} a.length'); exp = ('u' + u, ('len', 'a'))
    if got != exp: bad += 1; print('UNARY-LEN', u, got, exp)
    got = P(f'{u} {u} a'); exp = ('u' + u, ('u' + u, 'a'))
    if got != exp: bad += 1; print('UNARY-UNARY', u, got, exp)
for o in ops:
    got = P(f'a is int {o} b'); exp = (o, ('is', 'a', 'int'), 'b')
    if got != exp: bad += 1; print('IS-L', o, got, exp)
    got = P(f'a {o} b is byte'); exp = (o, 'a', ('is', 'b', 'byte'))
    if got != exp: bad += 1; print('IS-R', o, got, exp)
    got = P(f'a {o} b ?? c'); exp = ('??', (o, 'a', 'b'), 'c')
    if got != exp: bad += 1; print('SPEC-L', o, got, exp)
    got = P(f'a ?? b {o} c'); exp = ('??', 'a', (o, 'b', 'c'))
    if got != exp: bad += 1; print('SPEC-R', o, got, exp)
    got = P(f'a[1] {o} b.length'); exp = (o, ('idx', 'a', 1), ('len', 'b'))
    if got != exp: bad += 1; print('POSTFIX', o, got, exp)
print('bad', bad)
