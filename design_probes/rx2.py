import sys, time
sys.path.insert(0, '/repo')
import z3
from hidc.lexer import readers
syms = [str(t) for t in readers.symbol_tokens]
print(syms)
s = z3.String('s')
t0 = time.time()
# impl choice: first symbol in list order that prefixes s; spec: longest symbol (from the set) that prefixes s
def first_idx_is(i):
    return z3.And(z3.PrefixOf(z3.StringVal(syms[i]), s), *[z3.Not(z3.PrefixOf(z3.StringVal(syms[j]), s)) for j in range(i)])
sol = z3.Solver(); sol.set('timeout', 60000)
bad = z3.Or(*[z3.And(first_idx_is(i), z3.Or(*[z3.And(z3.PrefixOf(z3.StringVal(syms[j]), s)) for j in range(len(syms)) if len(syms[j]) > len(syms[i])] or [z3.BoolVal(False)])) for i in range(len(syms))])
sol.add(bad)
r = sol.check(); print('longest-match obligation:', r, round(time.time()-t0, 3))
# mutation: unsorted order
syms2 = sorted(syms)
def first_idx_is2(i):
    return z3.And(z3.PrefixOf(z3.StringVal(syms2[i]), s), *[z3.Not(z3.PrefixOf(z3.StringVal(syms2[j]), s)) for j in range(i)])
sol = z3.Solver()
sol.add(z3.Or(*[z3.And(first_idx_is2(i), z3.Or(*[z3.PrefixOf(z3.StringVal(syms2[j]), s) for j in range(len(syms2)) if len(syms2[j]) > len(syms2[i])] or [z3.BoolVal(False)])) for i in range(len(syms2))]))
r = sol.check(); print('mutated order:', r, sol.model() if r == z3.sat else '')
