import sys, random, hashlib
sys.path.insert(0, '/repo'); sys.path.insert(0, '/tmp/probe')
import gen1, gen2
from hidc.lexer import SourceCode
from hidc.parser import parse
from hidc.ast import Environment
from hidc.codegen import CodeGen
from hidc.errors import CompilerError
def comp(src, lint):
    env = Environment.empty(unreachable_error=lint)
    parse(SourceCode.from_string(src)).evaluate(env)
    return list(CodeGen(env, 2, 200, False).gen_lines())
h = hashlib.sha256(); nl = 0; rej = 0
for seed in range(150):
    for G in (gen1.G, gen2.G):
        src = G(random.Random(seed)).program()
        try: a = comp(src, False)
        except CompilerError: continue
        h.update(b'\n'.join(a))
        try:
            b = comp(src, True)
            if a != b: nl += 1; print('LINT CHANGES CODE seed', seed)
        except CompilerError: rej += 1
print('digest', h.hexdigest()[:16], 'lint-changed', nl, 'lint-rejected', rej)
