import sys, time
sys.path.insert(0,'/repo')
import z3
from comp import compile
from svm import *
ws = int(sys.argv[1])
B = 8*ws
def floordiv(l, r):
    q = l / r; rem = z3.SRem(l, r)
    adj = z3.And(rem != 0, (rem < 0) != (r < 0))
    return z3.If(adj, q - 1, q)
def floormod(l, r):
    rem = z3.SRem(l, r)
    adj = z3.And(rem != 0, (rem < 0) != (r < 0))
    return z3.If(adj, rem + r, rem)
arith = {'+': lambda a,b: a+b, '-': lambda a,b: a-b, '*': lambda a,b: a*b, '/': floordiv, '%': floormod}
cmpo = {'==': lambda a,b: a==b, '!=': lambda a,b: a!=b, '<': lambda a,b: a<b, '<=': lambda a,b: a<=b, '>': lambda a,b: a>b, '>=': lambda a,b: a>=b}
def check(src, expect):
    t = time.time()
    lines = compile(src, word_size=ws, stack_size=40)
    P = assemble(lines, {'a': {}, 'b': {}})
    vm = VM(P, timeout_ms=120000)
    a = vm.inputs['a'][0]; b = vm.inputs['b'][0]
    res = vm.run()
    s = z3.Solver(); s.set('timeout', 120000)
    verdict = 'ok'
    for kind, conds, ev, info in res:
        exp = expect(a, b)   # list of (guard, events)
        for g, evs in exp:
            s.push(); s.add(*conds); s.add(g)
            bad = []
            if kind != 'done' or len(ev) != len(evs) or any(x[0] != y[0] for x, y in zip(ev, evs)):
                r = s.check()
                if r == z3.sat: verdict = ('BAD-shape', kind, info, s.model())
            else:
                diffs = [x[1] != y[1] for x, y in zip(ev, evs) if not isinstance(x[1], str)] + [z3.BoolVal(x[1] != y[1]) for x, y in zip(ev, evs) if isinstance(x[1], str)]
                s.add(z3.Or(*diffs))
                r = s.check()
                if r == z3.sat: verdict = ('BAD-val', s.model())
                elif r == z3.unknown: verdict = 'unknown'
            s.pop()
    return verdict, len(res), round(time.time()-t, 2), vm.nq
for op, f in arith.items():
    src = 'empty @is_you(int a, int b) { sleep(a %s b); }' % op
    def expect(a, b, f=f, op=op):
        if op in '/%':
            return [(b == 0, [('flag','division_by_zero'), ('flag','error')]), (b != 0, [('sleep', f(a,b)), ('flag','win')])]
        return [(z3.BoolVal(True), [('sleep', f(a,b)), ('flag','win')])]
    print(ws, op, 'value', check(src, expect), flush=True)
for op, f in cmpo.items():
    T, F = z3.BitVecVal(ord('T'), 8), z3.BitVecVal(ord('F'), 8)
    def expect(a, b, f=f):
        return [(f(a,b), [('out', T), ('flag','win')]), (z3.Not(f(a,b)), [('out', F), ('flag','win')])]
    src = 'empty @is_you(int a, int b) { bool r = a %s b; if (r) { write(\'T\'); } else { write(\'F\'); } }' % op
    print(ws, op, 'value', check(src, expect), flush=True)
    src = 'empty @is_you(int a, int b) { if (a %s b) { write(\'T\'); } else { write(\'F\'); } }' % op
    print(ws, op, 'branch', check(src, expect), flush=True)
    src = 'empty @is_you(int a, int b) { try { !truth_is_defeat(a %s b); write(\'F\'); } undo { write(\'T\'); } }' % op
    print(ws, op, 'defeat', check(src, expect), flush=True)
