"""Probe: reference interpreter for HiD over the typed AST, symbolic values, decision-vector DFS."""
import sys
if not any(p.endswith('fixed') for p in sys.path): sys.path.insert(0, '/repo')
import z3
from hidc import ast as A
from hidc.ast import DataType as D, ArrayType
from hidc.lexer.tokens import Ident, Flavor

def isc(v): return isinstance(v, int)

class ReturnEx(Exception):
    def __init__(self, v): self.v = v
class BreakEx(Exception): pass
class ContinueEx(Exception): pass
class DefeatEx(Exception): pass      # virtual defeat -> stop handler
class HaltEx(Exception): pass        # machine halt -> backtrack
class EndEx(Exception):              # terminal non-halting state
    def __init__(self, kind): self.kind = kind

class Arr:
    def __init__(self, el, cells, length=None):
        self.el = el; self.cells = cells; self.length = len(cells) if length is None else length

class Str:
    def __init__(self, data): self.data = list(data)   # list of byte values (int or BV8 zero-extended word)

class RI:
    def __init__(self, prog, env, ws, args, checked=True, timeout_ms=30000, max_loop=64):
        self.prog = prog; self.env = env; self.W = ws; self.B = 8 * ws; self.M = (1 << self.B) - 1
        self.args = args; self.checked = checked
        self.solver = z3.Solver(); self.solver.set('timeout', timeout_ms)
        self.nq = 0; self.fresh = 0

    # ---- value helpers (words: python int masked, or z3 BV(B))
    def Z(self, v): return z3.BitVecVal(v, self.B) if isc(v) else v
    def simp(self, t):
        t = z3.simplify(t)
        if z3.is_bv_value(t): return t.as_long()
        return t
    def sgn(self, v): return v - (1 << self.B) if v >> (self.B - 1) else v
    def arith(self, op, l, r):
        if isc(l) and isc(r):
            sl, sr = self.sgn(l), self.sgn(r)
            return {'add': l + r, 'sub': l - r, 'mul': l * r, 'div': (sl // sr) if op == 'div' else 0, 'mod': (sl % sr) if op == 'mod' else 0}[op] & self.M
        l, r = self.Z(l), self.Z(r)
        if op in ('div', 'mod'):
            q = l / r; rem = z3.SRem(l, r); adj = z3.And(rem != 0, (rem < 0) != (r < 0))
            return self.simp(z3.If(adj, q - 1, q) if op == 'div' else z3.If(adj, rem + r, rem))
        return self.simp({'add': l + r, 'sub': l - r, 'mul': l * r}[op])
    def cmp(self, op, l, r):
        """returns python bool or z3 Bool"""
        if isc(l) and isc(r):
            sl, sr = self.sgn(l), self.sgn(r)
            return {'eq': l == r, 'ne': l != r, 'lt': sl < sr, 'gt': sl > sr, 'le': sl <= sr, 'ge': sl >= sr, 'ltu': l < r}[op]
        l, r = self.Z(l), self.Z(r)
        c = z3.simplify({'eq': l == r, 'ne': l != r, 'lt': l < r, 'gt': l > r, 'le': l <= r, 'ge': l >= r, 'ltu': z3.ULT(l, r)}[op])
        if z3.is_true(c): return True
        if z3.is_false(c): return False
        return c
    def b2w(self, c):
        if isinstance(c, bool): return int(c)
        return self.simp(z3.If(c, self.Z(1), self.Z(0)))

    # ---- decisions
    def feasible(self, extra):
        self.solver.push(); self.solver.add(*self.conds); self.solver.add(extra)
        r = self.solver.check(); self.solver.pop(); self.nq += 1
        if r == z3.unknown: raise RuntimeError('unknown')
        return r == z3.sat
    def branch(self, c):
        if isinstance(c, bool): return c
        import inspect
        lab = inspect.stack()[1].lineno
        self.labels.append(('b', lab, str(c)[:60]))
        if self.pos < len(self.prefix):
            k, v = self.prefix[self.pos]
            if k != 'b':
                print('MISALIGN at', self.pos, 'expected', self.prefix[self.pos], 'labels now', self.labels[-6:], 'prefix labels', self.prefix_labels[max(0,self.pos-5):self.pos+2])
                raise AssertionError
        else:
            t, f = self.feasible(c), self.feasible(z3.Not(c))
            if t and f:
                self.work.append((self.trace + [('b', False)], list(self.carried), list(self.labels)))
                v = True
            elif t: v = True
            elif f: v = False
            else: raise EndEx('infeasible')
        self.trace.append(('b', v)); self.pos += 1
        self.conds.append(c if v else z3.Not(c))
        return v
    def concretize(self, e):
        if isc(e): return e
        self.labels.append(('v', str(e)[:40]))
        if self.pos < len(self.prefix):
            k, v = self.prefix[self.pos]; assert k == 'v', (k, v)
        else:
            vals = []
            self.solver.push(); self.solver.add(*self.conds)
            while len(vals) <= 16 and self.solver.check() == z3.sat:
                self.nq += 1
                x = self.solver.model().eval(self.Z(e), True).as_long(); vals.append(x); self.solver.add(self.Z(e) != x)
            self.solver.pop()
            if not vals: raise EndEx('infeasible')
            if len(vals) > 16: raise EndEx('bound')
            for x in vals[1:]:
                self.work.append((self.trace + [('v', x)], list(self.carried), list(self.labels)))
            v = vals[0]
        self.trace.append(('v', v)); self.pos += 1
        self.conds.append(self.Z(e) == v)
        return v

    def choice(self, label):
        self.labels.append(('c', label))
        if self.pos < len(self.prefix):
            k, v = self.prefix[self.pos]
            if k != 'c':
                print('MISALIGN at', self.pos, 'expected', self.prefix[self.pos], 'labels now', self.labels[-6:], 'prefix labels', self.prefix_labels[max(0,self.pos-5):self.pos+2])
                raise AssertionError
        else: v = 0
        self.trace.append(('c', v)); self.pos += 1
        return v

    # ---- driver
    def run_all(self, assumptions=()):
        self.work = [([], list(assumptions), [])]
        results = []
        while self.work:
            self.prefix, self.carried, self.prefix_labels = self.work.pop(); self.labels = []
            self.pos = 0; self.trace = []; self.conds = list(self.carried); self.events = []
            self.mode = 'real'
            try:
                self.run_program()
                kind = 'win'; self.events.append(('flag', 'win'))
            except EndEx as e:
                kind = e.kind
                if kind == 'infeasible': continue
            except HaltEx:
                idx = [i for i, (k, v) in enumerate(self.trace) if k == 'c' and v == 0]
                if not idx:
                    results.append(('halt', list(self.conds), list(self.events))); continue
                i = idx[-1]
                self.work.append((self.trace[:i] + [('c', 1)], list(self.conds), list(self.labels)))
                continue
            results.append((kind, list(self.conds), list(self.events)))
        return results

    def fault(self, kind):
        self.events += [('flag', kind), ('flag', 'error')]
        raise EndEx('error')

    def run_program(self):
        self.globals = {}
        self.scopes = [self.globals]
        for d in self.prog.var_decls:
            self.globals[d.var.name] = self.init_value(d.init)
        f = self.env.funcs[Ident.you('is_you')]
        (decl,) = f.values()
        import copy
        def fresh(v):
            if isinstance(v, Arr): return Arr(v.el, list(v.cells), v.length)
            if isinstance(v, Str): return Str(list(v.data))
            return v
        self.call_decl(decl, [fresh(self.args[p.var.name]) for p in decl.params])

    # ---- functions
    def call_decl(self, decl, argvals):
        saved = self.scopes
        self.scopes = [self.globals, {p.var.name: v for p, v in zip(decl.params, argvals)}]
        try:
            try:
                self.block(decl.body); ret = None
            except ReturnEx as r:
                ret = r.v
            if self.checked and decl.name.flavor == Flavor.DEFEAT and decl.body.preemptive:
                if self.choice('retprot') == 1:
                    self.fault('nonlocal_preempt')
            return ret
        finally:
            self.scopes = saved

    def defeat(self):
        if self.mode == 'virtual': raise DefeatEx()
        raise HaltEx()

    # ---- statements
    def block(self, b):
        if isinstance(b, A.CodeBlock):
            self.scopes = self.scopes + [{}]
            try:
                for s in b.stmts: self.stmt(s)
            finally:
                self.scopes = self.scopes[:-1]
        elif isinstance(b, A.IfBlock):
            if self.branch(self.truth(b.cond)): self.block(b.body)
            else: self.block(b.else_block)
        elif isinstance(b, A.LoopBlock):
            n = 0
            while self.branch(self.truth(b.cond)):
                n += 1
                if n > int(__import__('os').environ.get('RILOOP', '200')): raise EndEx('bound')
                try: self.block(b.body)
                except BreakEx: break
                except ContinueEx: pass
                self.block(b.cont)
        elif isinstance(b, A.TryBlock):
            if isinstance(b.handler, A.UndoBlock):
                if self.choice('undo') == 0: self.block(b.body)
                else: self.block(b.handler.body)
            else:
                scopes = self.scopes
                if self.choice('stop') == 0:
                    self.block(b.body)
                else:
                    self.mode = 'virtual'
                    try:
                        try: self.block(b.body)
                        finally: self.mode = 'real'
                    except DefeatEx:
                        self.scopes = scopes
                        self.block(b.handler.body)
        elif isinstance(b, A.PreemptBlock):
            if self.mode == 'virtual' or self.choice('preempt') == 1: self.block(b.body)
        else: raise NotImplementedError(b)

    def stmt(self, s):
        if isinstance(s, A.Block): return self.block(s)
        if isinstance(s, A.Declaration):
            self.scopes[-1][s.var.name] = self.init_value(s.init); return
        if isinstance(s, A.IncAssignment):
            ops = {A.Add: 'add', A.Sub: 'sub', A.Mul: 'mul', A.Div: 'div', A.Mod: 'mod'}
            ref = self.lvalue(s.lookup)
            old = ref[0]()
            rhs = self.expr(s.expr)
            ref[1](self.binop(ops[s.bin_op], old, rhs)); return
        if isinstance(s, A.Assignment):
            ref = self.lvalue(s.lookup)
            ref[1](self.expr(s.expr)); return
        if isinstance(s, A.ReturnStatement):
            raise ReturnEx(None if s.value is None else self.expr(s.value))
        if isinstance(s, A.BreakStatement): raise BreakEx()
        if isinstance(s, A.ContinueStatement): raise ContinueEx()
        if isinstance(s, A.Expression): self.expr(s); return
        raise NotImplementedError(s)

    def find_scope(self, name):
        for sc in reversed(self.scopes[1:]):
            if name in sc: return sc
        return self.globals

    def lvalue(self, e):
        if isinstance(e, A.VariableLookup):
            sc = self.find_scope(e.var.name); name = e.var.name
            trunc = (lambda v: self.trunc(v, e.type))
            return (lambda: sc[name]), (lambda v: sc.__setitem__(name, trunc(v)))
        if isinstance(e, A.ArrayLookup):
            arr = self.expr(e.source); idx = self.expr(e.index)
            self.check_index(idx, arr.length)
            return (lambda: self.select(arr, idx)), (lambda v: self.store(arr, idx, self.trunc(v, e.type)))
        raise NotImplementedError(e)

    def trunc(self, v, t):
        if t == D.BYTE: return v & 0xFF if isc(v) else self.simp(self.Z(v) & 0xFF)
        return v

    def check_index(self, idx, length):
        if self.checked:
            if not self.branch(self.cmp('ltu', idx, length)): self.fault('out_of_bounds')

    def select(self, arr, idx):
        idx = self.concretize(idx)
        if isc(idx): return arr.cells[idx]
        v = arr.cells[-1]
        for k in range(len(arr.cells) - 2, -1, -1):
            v = z3.If(self.Z(idx) == k, self.Z(arr.cells[k]), self.Z(v))
        return self.simp(v)
    def store(self, arr, idx, v):
        idx = self.concretize(idx)
        if isc(idx): arr.cells[idx] = v; return
        for k in range(len(arr.cells)):
            arr.cells[k] = self.simp(z3.If(self.Z(idx) == k, self.Z(v), self.Z(arr.cells[k])))

    def init_value(self, e):
        v = self.expr(e)
        return v

    # ---- expressions
    def truth(self, e):
        v = self.expr(e)
        return self.cmp('ne', v, 0)

    def binop(self, op, l, r):
        if op in ('div', 'mod') and self.checked:
            if self.branch(self.cmp('eq', r, 0)): self.fault('division_by_zero')
        return self.arith(op, l, r)

    def expr(self, e):
        if isinstance(e, A.IntValue): return e.data & self.M       # includes ByteValue
        if isinstance(e, A.BoolValue): return int(e.data)
        if isinstance(e, A.StringValue): return Str(e.data)
        if isinstance(e, (A.ByteToInt, A.BoolToByte, A.Volatile)): return self.expr(e.expr)
        if isinstance(e, A.IntToByte): return self.trunc(self.expr(e.expr), D.BYTE)
        if isinstance(e, A.IntToBool): return self.b2w(self.cmp('ne', self.expr(e.expr), 0))
        if isinstance(e, A.StringToByteArray):
            s = self.expr(e.expr); return Arr(D.BYTE, list(s.data))
        if isinstance(e, A.VariableLookup):
            return self.find_scope(e.var.name)[e.var.name]
        if isinstance(e, A.ArrayLookup):
            src = self.expr(e.source); idx = self.expr(e.index)
            if isinstance(src, Str): src = Arr(D.BYTE, src.data)
            self.check_index(idx, src.length)
            return self.select(src, idx)
        if isinstance(e, A.LengthLookup):
            src = self.expr(e.source)
            return len(src.data) if isinstance(src, Str) else src.length
        if isinstance(e, A.ArrayLiteral):
            return Arr(e.type.el_type, [self.expr(v) for v in e.values])
        if isinstance(e, A.ArrayInitializer):
            n = self.expr(e.length)
            if not isc(n): raise NotImplementedError('symbolic VLA length in probe')
            if self.checked and self.sgn(n) < 0: self.fault('stack_overflow')
            cells = []
            for _ in range(n):
                self.fresh += 1; cells.append(z3.BitVec(f'uninit{self.fresh}', self.B) if e.type.el_type == D.INT else 0)
            return Arr(e.type.el_type, cells)
        if isinstance(e, A.BinaryArithmeticOp):
            l = self.expr(e.left); r = self.expr(e.right)
            return self.binop({A.Add: 'add', A.Sub: 'sub', A.Mul: 'mul', A.Div: 'div', A.Mod: 'mod'}[type(e)], l, r)
        if isinstance(e, A.Pos): return self.expr(e.arg)
        if isinstance(e, A.Neg): return self.arith('sub', 0, self.expr(e.arg))
        if isinstance(e, A.Not): return self.arith('sub', 1, self.expr(e.arg))
        if isinstance(e, (A.CompareOp, A.EqualityOp)):
            l = self.expr(e.left); r = self.expr(e.right)
            return self.b2w(self.cmp({A.Eq: 'eq', A.Ne: 'ne', A.Lt: 'lt', A.Gt: 'gt', A.Le: 'le', A.Ge: 'ge'}[type(e)], l, r))
        if isinstance(e, A.And):
            if not self.branch(self.truth(e.left)): return 0
            return self.b2w(self.truth(e.right))
        if isinstance(e, A.Or):
            if self.branch(self.truth(e.left)): return 1
            return self.b2w(self.truth(e.right))
        if isinstance(e, A.Speculation):
            r = self.expr(e.right)
            if self.choice('spec') == 1: return r
            l = self.expr(e.left)
            if self.branch(self.cmp('eq', l, r)): raise HaltEx()
            return l
        if isinstance(e, A.FuncCall): return self.call(e)
        raise NotImplementedError(type(e))

    def out(self, v):
        self.events.append(('out', v & 0xFF if isc(v) else self.simp(z3.Extract(7, 0, self.Z(v)))))

    def call(self, e):
        name = e.func
        args = [self.expr(a) for a in e.args]
        sig = tuple(a.type for a in e.args)
        decl = self.env.funcs[name][sig]
        if isinstance(decl, A.FuncDeclaration):
            return self.call_decl(decl, args)
        n = name.name
        if n in ('write', 'writeln'):
            if args:
                (v,) = args; t = sig[0]
                if t == D.BYTE: self.out(v)
                elif t == D.STRING:
                    for b in v.data: self.out(b)
                elif isinstance(t, ArrayType):
                    for b in v.cells: self.out(b)
                elif t == D.BOOL:
                    for ch in (b'true' if self.branch(self.cmp('ne', v, 0)) else b'false'): self.out(ch)
                elif t == D.INT: self.write_int(v)
            if n == 'writeln': self.out(10)
            return None
        if n == '!is_defeat': self.defeat()
        if n == '!truth_is_defeat':
            if self.branch(self.cmp('ne', args[0], 0)): self.defeat()
            return None
        if n == 'sleep': self.events.append(('sleep', args[0])); return None
        if n == 'all_is_win': self.events.append(('flag', 'win')); raise EndEx('win')
        if n == 'all_is_broken': self.events.append(('flag', 'error')); raise EndEx('error')
        if n in ('debug', 'progress'): self.events.append(('flag', n)); return None
        raise NotImplementedError(n)

    def write_int(self, v):
        if isc(v):
            for ch in str(self.sgn(v)).encode(): self.out(ch)
            return
        x = self.Z(v)
        neg = self.branch(x < 0)
        if neg: self.out(45)
        ux = z3.If(x < 0, -x, x)
        maxd = len(str(1 << (self.B - 1)))
        nd = 1
        while nd < maxd and self.branch(z3.UGE(ux, z3.BitVecVal(10 ** nd, self.B))): nd += 1
        for k in reversed(range(nd)):
            d = z3.URem(z3.UDiv(ux, z3.BitVecVal(10 ** k, self.B)), z3.BitVecVal(10, self.B))
            self.out(self.simp(d + 48))
