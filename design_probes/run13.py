import sys, time
sys.path.insert(0,'/tmp/probe')
if not any(p.endswith('fixed') for p in sys.path): sys.path.insert(0,'/repo')
import z3
from hidc.lexer import SourceCode
from hidc.parser import parse
from hidc.ast import Environment
from hidc.codegen import CodeGen
from svm import assemble
from vm2 import VM2
from ri import RI, Arr
def check(src, argspec, ws=2, stack=200, checked=True, verbose=False, assume=None):
    env = Environment.empty()
    prog = parse(SourceCode.from_string(src)).evaluate(env)
    lines = list(CodeGen(env, ws, stack, not checked).gen_lines())
    P = assemble(lines, argspec)
    vm = VM2(P, max_steps=int(__import__('os').environ.get('VMSTEPS', '200000'))); t = time.time(); vres = vm.run(); tv = time.time() - t
    # RI args from VM inputs
    args = {}
    for name, vals in vm.inputs.items():
        spec = argspec[name]
        if 'cap' in spec or ('values' in spec and spec.get('array')):
            args[name] = Arr(None, [v if isinstance(v, int) else (z3.ZeroExt(8*ws - v.size(), v) if v.size() < 8*ws else v) for v in vals])
        else:
            v = vals[0]; args[name] = v if isinstance(v, int) else (z3.ZeroExt(8*ws - v.size(), v) if v.size() < 8*ws else v)
    ri = RI(prog, env, ws, args, checked=checked); t = time.time(); rres = ri.run_all(); tr = time.time() - t
    s = z3.Solver(); s.set('timeout', 8000)
    bad = 0; nq = 0
    def Zv(v, n): return z3.BitVecVal(v, n) if isinstance(v, int) else v
    for vk, vc, vev, vinfo in vres:
        for rk, rc, rev in rres:
            s.push(); s.add(*vc); s.add(*rc)
            if s.check() == z3.sat:
                shape_ok = vk in ('done',) and len(vev) == len(rev) and all(a[0] == b[0] and (a[0] != 'flag' or a[1] == b[1]) for a, b in zip(vev, rev))
                if not shape_ok:
                    bad += 1; m = s.model()
                    print('  SHAPE MISMATCH vm=', vk, vinfo, [(k, str(v)[:20]) for k, v in vev][:12], ' ri=', rk, [(k, str(v)[:20]) for k, v in rev][:12], 'model', m)
                else:
                    diffs = [Zv(a[1], 8 if a[0] == 'out' else 8*ws) != Zv(b[1], 8 if a[0] == 'out' else 8*ws) for a, b in zip(vev, rev) if a[0] != 'flag' and not (isinstance(a[1], int) and isinstance(b[1], int) and a[1] == b[1])]
                    if diffs:
                        import uf; uf._cache.clear()
                        fns = {}
                        s2 = z3.Solver(); s2.set('timeout', 8000)
                        for c in list(vc) + list(rc): s2.add(uf.uf_abstract(c, fns))
                        s2.add(uf.uf_abstract(z3.Or(*diffs), fns))
                        r = s2.check(); nq += 1
                        if r != z3.unsat:
                            s.add(z3.Or(*diffs)); r = s.check()
                        if r != z3.unsat:
                            bad += 1; print('  VALUE MISMATCH', r, s.model() if r == z3.sat else '')
            s.pop()
    # coverage: every input is covered by some VM path
    s.push(); s.add(z3.Not(z3.Or(*[z3.And(*vc) if vc else z3.BoolVal(True) for _, vc, _, _ in vres])))
    if assume: s.add(*assume(vm))
    cov = s.check(); s.pop()
    print(f'vm paths {len(vres)} ({tv:.2f}s, {vm.nq}q, {vm.nsteps} instr)  ri paths {len(rres)} ({tr:.2f}s, {ri.nq}q)  equiv queries {nq}  coverage {"complete" if cov == z3.unsat else cov}  mismatches {bad}')
    if verbose:
        for rk, rc, rev in rres: print('   ri', rk, ''.join(chr(v) if k == 'out' and isinstance(v, int) and 32 <= v < 127 else f'<{k}:{str(v)[:12]}>' for k, v in rev))
    return bad
if __name__ == '__main__':
    src = open(sys.argv[1]).read()
    spec = {}
    for a in sys.argv[2:]:
        if ':' in a: n, c = a.split(':'); spec[n] = {'cap': int(c), 'count': int(c)}
        else: spec[a] = {}
    check(src, spec, verbose=True)
