from hidc.codegen.asm import _escape_bytes
ESC = {110: 10, 114: 13, 116: 9, 48: 0, 92: 92, 39: 39, 34: 34}
HEX = b'0123456789abcdefABCDEF'
def unescape(body: bytes):
    out = []; i = 0; n = len(body)
    while i < n:
        c = body[i]
        if c == 92:
            if i + 1 >= n: return None
            d = body[i+1]
            if d == 120:
                if i + 3 >= n: return None
                h1, h2 = body[i+2], body[i+3]
                if h1 not in HEX or h2 not in HEX: return None
                out.append(int(bytes([h1, h2]), 16)); i += 4
            elif d in ESC:
                out.append(ESC[d]); i += 2
            else:
                return None
        elif c == 34 or c == 10 or c == 13:
            return None   # unescaped quote / newline terminates the literal
        else:
            out.append(c); i += 1
    return bytes(out)

def roundtrip(data: bytes) -> bool:
    """
    pre: len(data) <= 2
    post: _
    """
    e = _escape_bytes(data, b'"')
    return unescape(e) == data
