from hidc.lexer import lex, SourceCode
from hidc.lexer import tokens as T
from hidc.errors import LexerError
from hidc.lexer.scanner import Scanner
_orig_bool = Scanner.__bool__
def _b(self):
    return True if _orig_bool(self) else False
Scanner.__bool__ = _b
from crosshair.libimpl import relib as _relib
def _groups(self, default=None):
    out = []
    for i in range(1, len(self._groups)):
        g = self.group(i)
        out.append(default if g is None else g)
    return tuple(out)
_relib._Match.groups = _groups

def lex_all(s: str):
    out = []
    try:
        for lx in lex(SourceCode.from_string(s)):
            out.append((lx.token, lx.span.start.line, lx.span.start.col, lx.span.end.line, lx.span.end.col))
    except LexerError:
        return None
    return out

DIG = '0123456789'
def ref_int(s: str):
    """reference for strings over digits/_/x: returns list of (value, start, end) or None (error)"""
    out = []; i = 0; n = len(s)
    while i < n:
        c = s[i]
        if c == ' ':
            i += 1; continue
        if c in DIG:
            j = i; val = 0
            # decimal: digit (_? digit)*
            while True:
                val = val * 10 + (ord(s[j]) - 48); j += 1
                if j < n and s[j] in DIG: continue
                if j + 1 < n and s[j] == '_' and s[j+1] in DIG:
                    j += 1; continue
                break
            out.append((val, i, j)); i = j
        elif c == '_':
            j = i
            while j < n and (s[j] in DIG or s[j] == '_'): j += 1
            out.append((s[i:j], i, j)); i = j
        else:
            return None
    return out

def check_dec(s: str) -> bool:
    """
    pre: len(s) <= 4
    pre: all(c in '0123456789_ ' for c in s)
    post: _
    """
    r = lex_all(s)
    e = ref_int(s)
    if e is None:
        return r is None
    if r is None:
        return False
    if len(r) != len(e): return False
    for (tok, l0, c0, l1, c1), (v, a, b) in zip(r, e):
        if isinstance(v, str):
            if not isinstance(tok, T.Ident) or tok.base_name != v or c0 != a or c1 != b: return False
            continue
        if not isinstance(tok, T.IntToken): return False
        if tok.data != v or c0 != a or c1 != b or l0 != 0 or l1 != 0: return False
    return True
