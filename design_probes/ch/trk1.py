from typing import List, Tuple
from hidc.codegen.tracker import Tracker

def tracker_ok(ops: List[Tuple[int, int]]) -> bool:
    """
    pre: len(ops) <= 5
    pre: all(0 <= k <= 3 and 0 <= v <= 40 for k, v in ops)
    post: _
    """
    t = Tracker()
    # model: stack of levels; each guard = [dyn, max_seen]
    levels = [[]]
    done = []
    for k, v in ops:
        if k == 0:
            t.push_level(); levels.append([])
        elif k == 1:
            d = t.add(v); levels[-1].append([d, v])
        elif k == 2:
            t.update(v)
            for lv in levels:
                for g in lv:
                    if v > g[1]: g[1] = v
        else:
            if len(levels) <= 1: continue
            t.pop_level()
            for g in levels.pop(): done.append(g)
    for d, m in done:
        if not d._finalized or d._data != m: return False
    return True
