import lex2  # patches
from hidc.lexer import readers, tokens as T
from hidc.lexer.scanner import Scanner, SourceCode
from hidc.errors import LexerError

def int3(s: str) -> bool:
    """
    pre: len(s) <= 3
    post: _
    """
    scan = Scanner(SourceCode('f', [s]), 0, 0)
    tok = readers.read_int_token(scan)
    if tok is None:
        return scan.col == 0 and not ('0' <= s[:1] <= '9')
    return 0 < scan.col <= len(s) and tok.data >= 0

def int4(s: str) -> bool:
    """
    pre: len(s) <= 4
    post: _
    """
    scan = Scanner(SourceCode('f', [s]), 0, 0)
    tok = readers.read_int_token(scan)
    if tok is None:
        return scan.col == 0 and not ('0' <= s[:1] <= '9')
    return 0 < scan.col <= len(s) and tok.data >= 0
