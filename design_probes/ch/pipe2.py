from hidc import ast as A
from hidc.ast import DataType as D, ArrayType, Environment
from hidc.lexer import Span, Cursor
from hidc.lexer.tokens import Ident
from hidc.codegen import CodeGen
from hidc.errors import CompilerError
C0 = Cursor(0, 0); SP = Span(C0, Cursor(0, 1))
def U(n): return A.VariableLookup(A.UnresolvedName(n), SP)
DECLS = [
 (D.INT, False, lambda: A.IntValue(1, SP)), (D.BYTE, False, lambda: A.IntValue(2, SP)), (D.BOOL, False, lambda: A.BoolValue(True, SP)),
 (D.STRING, False, lambda: A.StringValue(b'ab', SP)),
 (ArrayType(D.INT, False), True, lambda: A.ArrayLiteral((A.IntValue(1, SP), A.IntValue(2, SP)), SP)),
 (ArrayType(D.INT, True), True, lambda: A.ArrayLiteral((A.IntValue(1, SP), A.IntValue(2, SP)), SP)),
 (ArrayType(D.BYTE, False), True, lambda: A.ArrayLiteral((A.IntValue(1, SP), A.IntValue(2, SP)), SP)),
 (ArrayType(D.BOOL, False), True, lambda: A.ArrayLiteral((A.BoolValue(True, SP), A.BoolValue(False, SP)), SP)),
 (ArrayType(D.STRING, True), True, lambda: A.ArrayLiteral((A.StringValue(b'a', SP),), SP)),
 (ArrayType(D.STRING, False), True, lambda: A.ArrayLiteral((A.StringValue(b'a', SP),), SP)),
]
LHS = [lambda: U('v'), lambda: A.ArrayLookup(U('v'), A.IntValue(0, SP), C0), lambda: A.ArrayLookup(U('v'), U('x'), C0)]
RHS = [lambda: A.IntValue(1, SP), lambda: U('x'), lambda: A.ByteValue(99, SP, is_char=True), lambda: A.BoolValue(True, SP),
       lambda: A.StringValue(b's', SP), lambda: U('v'), lambda: A.ArrayLookup(U('v'), A.IntValue(1, SP), C0), lambda: A.Is(SP, U('x'), D.BYTE)]
OPS = [None, A.Add, A.Div]

def total(d: int, l: int, o: int, r: int) -> bool:
    """
    pre: 0 <= d < 10 and 0 <= l < 3 and 0 <= o < 3 and 0 <= r < 8
    post: _
    """
    t, c, init = DECLS[d]
    decl = A.Declaration(A.Variable('v', t, c), init(), C0)
    if OPS[o] is None: st = A.Assignment(LHS[l](), RHS[r]())
    else: st = A.IncAssignment(LHS[l](), RHS[r](), OPS[o], SP)
    body = A.CodeBlock((decl, st), SP, False)
    f = A.FuncDeclaration(SP, D.EMPTY, Ident.you('is_you'), (A.Parameter(A.Variable('x', D.INT, False), SP),), body)
    prog = A.Program((), (f,))
    try:
        env = Environment.empty()
        prog.evaluate(env)
        cg = CodeGen(env, word_size=2, stack_size=50, unchecked=False)
        lines = list(cg.gen_lines())
    except CompilerError:
        return True
    return len(lines) > 0
