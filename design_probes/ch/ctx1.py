from hidc.lexer import Lexeme, Span, Cursor
from hidc.lexer import tokens as T
from hidc.parser import rules
from hidc.parser.grammar import ps_block, ps_expr, BlockContext as BC
from hidc.utils.lazylist import lazy_list
from hidc.errors import ParserError

def lexemes(toks):
    for i, t in enumerate(toks):
        yield Lexeme(t, Span(Cursor(0, i), Cursor(0, i + 1)))
    return Cursor(0, len(toks))

LP, RP, LC, RC, SC = T.BracToken.LPAREN, T.BracToken.RPAREN, T.BracToken.LCURLY, T.BracToken.RCURLY, T.SepToken.SEMICOLON
def call(fl): return [T.Ident('f', fl), LP, RP, SC]
PROBES = [call(T.Flavor.NONE), call(T.Flavor.YOU), call(T.Flavor.DEFEAT),
          [T.BlockToken.TRY, LC, RC, T.BlockToken.UNDO, LC, RC],
          [T.BlockToken.PREEMPT, LC, RC],
          [T.Ident('a'), T.OpToken.SPECULATION, T.Ident('b'), SC],
          [T.StmtToken.BREAK, SC], [T.StmtToken.CONTINUE, SC]]
def allowed(ctx, p):
    FUNC, YOU, DEF, LOOP = BC.FUNC in ctx, BC.YOU in ctx, BC.DEFEAT in ctx, BC.LOOP in ctx
    return [FUNC, YOU, DEF, YOU, DEF, YOU, LOOP, LOOP][p]
# constructs: wrapper tokens around the probe, and the spec'd child context
def wrap(c, probe):
    if c == 0: return [LC] + probe + [RC]
    if c == 1: return [T.BlockToken.IF, LP, T.Ident('x'), RP, LC] + probe + [RC]
    if c == 2: return [T.BlockToken.WHILE, LP, T.Ident('x'), RP, LC] + probe + [RC]
    if c == 3: return [T.BlockToken.TRY, LC] + probe + [RC, T.BlockToken.UNDO, LC, RC]
    if c == 4: return [T.BlockToken.TRY, LC, RC, T.BlockToken.STOP, LC] + probe + [RC]
    if c == 5: return [T.BlockToken.PREEMPT, LC] + probe + [RC]
def child(ctx, c):
    """returns (construct itself allowed, child ctx) per README"""
    if c in (0, 1): return True, ctx
    if c == 2: return True, ctx | BC.LOOP
    if c == 3: return BC.YOU in ctx, (ctx & ~BC.YOU) | BC.TRY
    if c == 4: return BC.YOU in ctx, ctx
    if c == 5: return BC.DEFEAT in ctx, ctx
VALID = [b for b in range(32) if (b & 6) != 6 and (not (b & 8) or (b & 5) == 5) and (not (b & 6) or (b & 1))]
CTXS = [BC(v) for v in VALID]

def step(k: int, c: int, p: int) -> bool:
    """
    pre: 0 <= k < len(VALID) and 0 <= c < 6 and 0 <= p < 8
    post: _
    """
    ctx = CTXS[k]
    toks = wrap(c, PROBES[p])
    ok_c, cctx = child(ctx, c)
    exp = ok_c and allowed(cctx, p)
    rule = rules.Parser(ps_block(ctx).consume, backtrack=False)
    try:
        res, rem = rule.process(lazy_list(lexemes(toks)))
        got = res is not None and not rem
    except ParserError:
        got = False
    return got == exp

# warm every cache that the real code fills lazily (BlockContext.flavors is a cached_property,
# IntFlag pseudo-members are created on demand) so that CrossHair sees deterministic paths
for _k in range(len(VALID)):
    for _c in range(6):
        for _p in range(8):
            _ctx = BC(VALID[_k]); _ = _ctx.flavors
            try:
                rules.Parser(ps_block(_ctx).consume, backtrack=False).process(lazy_list(lexemes(wrap(_c, PROBES[_p]))))
            except ParserError:
                pass
