from hidc.lexer import Lexeme, Span, Cursor
from hidc.lexer import tokens as T
from hidc.parser import rules, grammar
from hidc.parser.grammar import ps_expr, BlockContext
from hidc.utils.lazylist import lazy_list
from hidc import ast as A
from hidc.errors import ParserError

BIN = [T.OpToken.ADD, T.OpToken.SUB, T.OpToken.MUL, T.OpToken.DIV, T.OpToken.MOD,
       T.OpToken.EQ, T.OpToken.NE, T.OpToken.LT, T.OpToken.GT, T.OpToken.LE, T.OpToken.GE,
       T.OpToken.OR, T.OpToken.AND]
LEVEL = {T.OpToken.MUL: 4, T.OpToken.DIV: 4, T.OpToken.MOD: 4, T.OpToken.ADD: 5, T.OpToken.SUB: 5,
         T.OpToken.EQ: 6, T.OpToken.NE: 6, T.OpToken.LT: 6, T.OpToken.GT: 6, T.OpToken.LE: 6, T.OpToken.GE: 6,
         T.OpToken.AND: 7, T.OpToken.OR: 8}

def lexemes(toks):
    for i, t in enumerate(toks):
        yield Lexeme(t, Span(Cursor(0, i), Cursor(0, i + 1)))
    return Cursor(0, len(toks))

def shape(e):
    if isinstance(e, A.Binary):
        return (e.token, shape(e.left), shape(e.right))
    if isinstance(e, A.VariableLookup):
        return e.var.name
    return repr(e)

def triple(i: int, j: int) -> bool:
    """
    pre: 0 <= i < 13 and 0 <= j < 13
    post: _
    """
    o1, o2 = BIN[i], BIN[j]
    toks = [T.Ident('a'), o1, T.Ident('b'), o2, T.Ident('c')]
    rule = rules.Parser(ps_expr(BlockContext.FUNC).consume, backtrack=False)
    res, rem = rule.process(lazy_list(lexemes(toks)))
    if rem: return False
    if LEVEL[o1] <= LEVEL[o2]:
        exp = (o2, (o1, 'a', 'b'), 'c')
    else:
        exp = (o1, 'a', (o2, 'b', 'c'))
    return shape(res) == exp
