from esc1 import unescape
def _escape_bytes(data, quote):
    result = b''
    for byte in data:
        if byte in b'\\':
            result += b'\\\\'
        elif byte in quote:
            result += b'\\' + bytes([byte])
        elif byte in b'\n':
            result += b'\\n'
        elif byte in b'\r':
            result += b'\\r'
        elif 0x20 <= byte <= 0x7e:
            result += bytes([byte])
        else:
            result += b'\\x' + f'{byte:02x}'.encode('utf-8')
    return result

def roundtrip1(data: bytes) -> bool:
    """
    pre: len(data) <= 1
    post: _
    """
    e = _escape_bytes(data, b'"')
    return unescape(e) == data

def roundtrip2(data: bytes) -> bool:
    """
    pre: len(data) <= 2
    post: _
    """
    e = _escape_bytes(data, b'"')
    return unescape(e) == data
