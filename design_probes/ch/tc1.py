from hidc import ast as A
from hidc.ast import DataType as D, ArrayType
from hidc.lexer import Span, Cursor
from hidc.errors import TypeCheckError
SP = Span(Cursor(0,0), Cursor(0,1))
SCAL = [D.INT, D.BYTE, D.BOOL, D.STRING]
TYPES = SCAL + [ArrayType(t, c) for t in SCAL for c in (False, True)]
def var(t): return A.VariableLookup(A.Variable('v', t, False), SP)
SRC = [lambda: var(t) for t in TYPES]
SRC = [ (lambda t=t: var(t)) for t in TYPES ] + [lambda: A.IntValue(5, SP), lambda: A.IntValue(300, SP), lambda: A.ByteValue(65, SP, is_char=True), lambda: A.BoolValue(True, SP), lambda: A.StringValue(b'x', SP)]

def spec_coercible(st, tt, lit_int):
    if st == tt: return True
    if isinstance(st, ArrayType):
        return isinstance(tt, ArrayType) and tt.el_type == st.el_type and tt.const
    if st == D.BYTE and tt == D.INT: return True
    if st == D.STRING and tt == ArrayType(D.BYTE, True): return True
    if lit_int and st == D.INT and tt == D.BYTE: return True
    return False

def coerc(i: int, j: int) -> bool:
    """
    pre: 0 <= i < 17 and 0 <= j < 12
    post: _
    """
    e = SRC[i](); tt = TYPES[j]
    got = e.coercible(tt)
    exp = spec_coercible(e.type, tt, i in (12, 13))
    if got != exp: return False
    try:
        r = e.coerce(tt)
        ok = True
    except TypeCheckError:
        ok = False
    return ok == exp and (not ok or r.type == tt)
