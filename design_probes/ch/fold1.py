from hidc import ast as A
from hidc.ast import DataType as D, Environment
from hidc.lexer import Span, Cursor
from hidc.errors import TypeCheckError
SP = Span(Cursor(0,0), Cursor(0,1))
W = 16
def wrap(v): 
    v = v % (1 << W)
    return v - (1 << W) if v >= (1 << (W-1)) else v
def fold(cls, a, b):
    e = cls(SP, A.IntValue(a, SP), A.IntValue(b, SP)).evaluate(Environment.empty())
    return e
def add_ok(a: int, b: int) -> bool:
    """
    pre: -40000 <= a <= 70000 and -40000 <= b <= 70000
    post: _
    """
    e = fold(A.Add, a, b)
    return isinstance(e, A.IntValue) and wrap(e.data) == wrap(wrap(a) + wrap(b))
def div_ok(a: int, b: int) -> bool:
    """
    pre: -32768 <= a <= 32767 and -32768 <= b <= 32767 and b != 0
    post: _
    """
    e = fold(A.Div, a, b)
    return isinstance(e, A.IntValue) and wrap(e.data) == wrap(wrap(a) // wrap(b))
def div_big(a: int, b: int) -> bool:
    """
    pre: 0 <= a <= 65535 and 0 < b <= 65535
    post: _
    """
    e = fold(A.Div, a, b)
    return isinstance(e, A.IntValue) and wrap(e.data) == wrap(wrap(a) // wrap(b))
def lt_sum(a: int, b: int, c: int) -> bool:
    """
    pre: -32768 <= a <= 32767 and -32768 <= b <= 32767 and -32768 <= c <= 32767
    post: _
    """
    e = A.Lt(SP, A.Add(SP, A.IntValue(a, SP), A.IntValue(b, SP)), A.IntValue(c, SP)).evaluate(Environment.empty())
    return isinstance(e, A.BoolValue) and e.data == (wrap(a + b) < c)
