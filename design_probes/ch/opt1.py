from hidc.lexer import SourceCode
from hidc.parser import parse
from hidc.ast import Environment
from hidc.codegen import CodeGen
from hidc.errors import CompilerError
ENV = Environment.empty()
parse(SourceCode.from_string('empty @is_you() { }')).evaluate(ENV)
CodeGen(ENV, 2, 10, False)  # warm

def options(ws: int, ss: int) -> bool:
    """
    pre: -2 <= ws <= 9 and -5 <= ss <= 70000
    post: _
    """
    try:
        cg = CodeGen(ENV, ws, ss, False)
    except CompilerError:
        return True
    # accepted: the assembler needs a non-negative stack and addresses that fit a signed word
    return ws >= 2 and ss >= 0 and (ss + 5) * ws <= (1 << (8 * ws - 1)) - 1
