import sys, os, itertools
sys.path.insert(0, os.environ.get('HIDC_ROOT', '/repo')); sys.path.insert(0, '/tmp/probe')
from hidc.lexer import SourceCode
from hidc.parser import parse
from hidc.ast import Environment
from hidc.codegen import CodeGen
from hidc.errors import CompilerError
from svm import assemble
from vm2 import VM2
V = [-32768, -32767, -256, -255, -129, -128, -3, -1, 0, 1, 2, 3, 127, 128, 255, 256, 32767]
OPS = ['+', '-', '*', '/', '%', '==', '!=', '<', '<=', '>', '>=']
def lit(v): return f'({v})' if v >= 0 else f'(-{-v})'
def run(src, args=()):
    env = Environment.empty(); parse(SourceCode.from_string(src)).evaluate(env)
    P = assemble(list(CodeGen(env, 2, 50, False).gen_lines()), {n: {'values': [v]} for n, v in args})
    (k, c, ev, i), = VM2(P).run(); return k, ev
inrange = lambda x: -32768 <= x <= 32767
bad = 0; n = 0; skipped = 0
for op in OPS:
    for a, b in itertools.product(V, V):
        if op in '/%' and b == 0: continue
        pyres = {'+': a + b, '-': a - b, '*': a * b, '/': a // b if b else 0, '%': a % b if b else 0}.get(op, 0)
        if not inrange(pyres) or (a == -32768) or (b == -32768):   # -32768 is not writable as an in-range literal (-(32768)): known-finding class
            skipped += 1; continue
        body = 'sleep(%s);' if op in '+-*/%' else "if (%s) { write('T'); } else { write('F'); }"
        try:
            c = run('empty @is_you() { ' + body % f'{lit(a)} {op} {lit(b)}' + ' }')
            v = run('empty @is_you(int a, int b) { ' + body % f'a {op} b' + ' }', [('a', a), ('b', b)])
        except CompilerError as e:
            bad += 1; print('compile error', a, op, b, e); continue
        n += 1
        if c != v: bad += 1; print('DIFF', a, op, b, c, v)
print('twin pairs', n, 'skipped(out of range)', skipped, 'bad', bad)
# casts
for a in V + [300, 65535, 70000]:
    for cast in ['is byte', 'is bool', 'is int']:
        try:
            c = run('empty @is_you() { sleep((%s %s) is int); }' % (lit(a), cast) if cast != 'is int' else 'empty @is_you() { sleep(%s); }' % lit(a))
            v = run('empty @is_you(int a) { sleep((a %s) is int); }' % cast if cast != 'is int' else 'empty @is_you(int a) { sleep(a); }', [('a', a)])
        except CompilerError as e: print('compile error', a, cast, e); continue
        if c != v: print('CAST DIFF', a, cast, c[1], v[1])
