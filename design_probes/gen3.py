"""Probe: control-flow skeletons; fall-through monitor + RI-vs-VM"""
import sys, random, time, io, contextlib, traceback
root = sys.argv[3] if len(sys.argv) > 3 else '/repo'
sys.path.insert(0, root); sys.path.insert(0, '/tmp/probe')
import z3, run13 as R, vm2
from hidc.errors import CompilerError
# install func_of on every VM2 instance
orig_init = vm2.VM2.__init__
TOP = ('func_', 'all_is_win', 'all_is_broken', 'stack_overflow', 'division_by_zero', 'out_of_bounds', 'nonlocal_preempt', 'write_const_byte_array', 'write_string', 'write_state_byte_array', 'write_bool', 'write_int')
def init(self, prog, *a, **k):
    orig_init(self, prog, *a, **k)
    starts = sorted(idx for name, (sec, idx) in prog.labels.items() if sec == 'code' and (name.startswith('func_') or name in TOP))
    fo = []; cur = -1; j = 0
    for i in range(len(prog.code)):
        while j < len(starts) and starts[j] <= i: cur = starts[j]; j += 1
        fo.append(cur)
    self.func_of = fo
vm2.VM2.__init__ = init
class G:
    def __init__(s, r): s.r = r; s.n = 0
    def c(s): return s.r.choice(['a > 0', 'b > 0', 'a == b', 'a < b', 'true', 'false', 'a != 1'])
    def m(s): s.n += 1; return f"write('{chr(65 + s.n % 26)}');"
    def stmt(s, d, kind, loop, intry):
        r = s.r; x = r.random()
        if x < 0.2: return s.m()
        if x < 0.35: return 'return a + 1;' if kind != 'empty' else 'return;'
        if x < 0.42 and loop: return r.choice(['break;', 'continue;'])
        if x < 0.48 and intry: return '!is_defeat();'
        if x < 0.52 and intry: return f'!truth_is_defeat({s.c()});'
        if x < 0.55: return r.choice(['all_is_win();', 'all_is_broken();'])
        if d > 0 and x < 0.7: return f'if ({s.c()}) {s.block(d-1, kind, loop, intry)} else {s.block(d-1, kind, loop, intry)}'
        if d > 0 and x < 0.75: return f'if ({s.c()}) {s.block(d-1, kind, loop, intry)}'
        if d > 0 and x < 0.85:
            cond = r.choice(['true', 'true', s.c(), 'a > 0'])
            return f'while ({cond}) {s.block(d-1, kind, True, intry)}' + ('' if cond == 'true' else '')
        if d > 0 and x < 0.93 and s.flavor == 'you' and not intry:
            return f'try {s.block(d-1, kind, loop, True)} {r.choice(["undo", "stop"])} {s.block(d-1, kind, loop, False)}'
        if d > 0 and x < 0.97 and intry: return f'preempt {s.block(d-1, kind, loop, intry)}'
        return 'a -= 1;'
    def block(s, d, kind, loop, intry):
        out = []
        for _ in range(s.r.randrange(1, 4)):
            out.append(s.stmt(d, kind, loop, intry))
        return '{ ' + ' '.join(out) + ' }'
    def program(s):
        s.flavor = s.r.choice(['you', 'you', 'ord'])
        name = '@f' if s.flavor == 'you' else 'f'
        kind = s.r.choice(['int', 'int', 'empty'])
        body = s.block(3, kind, False, False)
        call = f'sleep({name}(a, b));' if kind == 'int' else f'{name}(a, b);'
        return f"{kind} {name}(int a, int b) {body}\nempty sentinel() {{ write('#'); write('#'); }}\nempty @is_you(int a, int b) {{ {call} write('.'); }}\n"
if __name__ == '__main__':
    seed0 = int(sys.argv[1]); count = int(sys.argv[2])
    stats = dict(ok=0, mismatch=0, rejected=0, crash=0); t0 = time.time(); rej = {}
    for seed in range(seed0, seed0 + count):
        src = G(random.Random(seed)).program()
        try:
            buf = io.StringIO()
            with contextlib.redirect_stdout(buf):
                bad = R.check(src, {'a': {}, 'b': {}})
            if bad: stats['mismatch'] += 1; print('=== MISMATCH seed', seed); print(src); print(buf.getvalue()[:700])
            else: stats['ok'] += 1
        except CompilerError as e:
            stats['rejected'] += 1; rej[str(e)[:30]] = rej.get(str(e)[:30], 0) + 1
        except Exception as e:
            stats['crash'] += 1; print('=== CRASH seed', seed, type(e).__name__, str(e)[:200]); print(src); traceback.print_exc(limit=3)
    print(stats, rej, flush=True) if False else print(stats, rej, 'time', round(time.time() - t0, 1))
