import z3, time
for B in (16, 24, 32, 64):
    r2 = z3.BitVec('r2', B); ten = z3.BitVecVal(10, B)
    q = r2 / ten; rem = z3.SRem(r2, ten); adj = z3.And(rem != 0, (rem < 0) != (ten < 0))
    fdiv = z3.If(adj, q - 1, q); fmod = z3.If(adj, rem + ten, rem)
    for name, goal in [('digit in 0..9 and = urem', z3.And(z3.ULE(fmod, 9), fmod == z3.URem(r2, ten))),
                       ('quotient = udiv and decreases', z3.And(fdiv == z3.UDiv(r2, ten), z3.Or(r2 == 0, z3.ULT(fdiv, r2)))),
                       ('reconstruction r2 = 10*q + d', r2 == ten * fdiv + fmod)]:
        s = z3.Solver(); s.set('timeout', 120000); s.add(r2 >= 0, z3.Not(goal)); t = time.time(); r = s.check()
        print(B, name, r, round(time.time() - t, 2))
    # MIN special case: x = MIN: after 'sub r2, r2, 10; mod; div; add 1'
    MIN = z3.BitVecVal(1 << (B - 1), B); y = MIN - 10
    d = z3.simplify(z3.URem(y, ten)); qq = z3.simplify(z3.UDiv(y, ten) + 1)
    import math
    print(B, 'MIN path: last digit', d, 'rest', qq, 'expected', (1 << (B - 1)) % 10, (1 << (B - 1)) // 10)
