#!/bin/bash
# usage: mut.sh name 'python-replace-old' 'new' file
name=$1; old=$2; new=$3; file=$4
rm -rf /tmp/probe/mut_$name; mkdir -p /tmp/probe/mut_$name; cp -r /tmp/probe/fixed/hidc /tmp/probe/mut_$name/
python3 - "$old" "$new" "/tmp/probe/mut_$name/hidc/$file" <<'PY'
import sys
old, new, path = sys.argv[1:4]
s = open(path).read()
assert s.count(old) >= 1, ('pattern not found', old)
s = s.replace(old, new, 1)
open(path, 'w').write(s)
PY
cd /repo && PYTHONPATH=/tmp/probe/mut_$name /venv/bin/python -c "
import sys; sys.path.insert(0,'/tmp/probe/mut_$name')
import pytest; sys.exit(pytest.main(['-q','-p','no:cacheprovider','tests/test_lexer.py','tests/test_parser.py','tests/test_typecheck.py']))" 2>&1 | tail -1
cd /tmp/probe
(HIDC_ROOT=/tmp/probe/mut_$name VMSTEPS=20000 timeout 600 python3-vt gen1.py 7000 60 2>&1 | tail -1 | sed "s/^/  seq: /") &
(HIDC_ROOT=/tmp/probe/mut_$name VMSTEPS=20000 timeout 600 python3-vt gen2.py 7000 150 2>&1 | tail -1 | sed "s/^/  tt : /") &
wait
