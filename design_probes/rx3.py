import sys, time
sys.path.insert(0, '/repo')
import z3
import re._parser as sp
from re._constants import *
from hidc.lexer import readers
ALLC = z3.AllChar(z3.ReSort(z3.StringSort()))
def cls_ascii(cat):
    D = z3.Range('0', '9')
    if cat == CATEGORY_DIGIT: return D
    if cat == CATEGORY_SPACE: return z3.Union(*[z3.Re(c) for c in ' \t\n\r\x0b\x0c'])
    if cat == CATEGORY_WORD: return z3.Union(D, z3.Range('a', 'z'), z3.Range('A', 'Z'), z3.Re('_'))
    raise NotImplementedError(cat)
def neg(r): return z3.Intersect(ALLC, z3.Complement(r))
def tr(items):
    parts = []
    for op, av in items:
        if op == LITERAL: parts.append(z3.Re(chr(av)))
        elif op == NOT_LITERAL: parts.append(neg(z3.Re(chr(av))))
        elif op is ANY: parts.append(neg(z3.Re('\n')))
        elif op == IN:
            n = False; alts = []
            for o, a in av:
                if o == NEGATE: n = True
                elif o == LITERAL: alts.append(z3.Re(chr(a)))
                elif o == RANGE: alts.append(z3.Range(chr(a[0]), chr(a[1])))
                elif o == CATEGORY: alts.append(cls_ascii(a))
                else: raise NotImplementedError(o)
            u = alts[0] if len(alts) == 1 else z3.Union(*alts)
            parts.append(neg(u) if n else u)
        elif op in (MAX_REPEAT, MIN_REPEAT):
            lo, hi, sub = av; r = tr(sub)
            if hi == MAXREPEAT: parts.append(z3.Star(r) if lo == 0 else z3.Plus(r) if lo == 1 else z3.Concat(*([r] * lo + [z3.Star(r)])))
            elif lo == hi: parts.append(r if lo == 1 else z3.Concat(*([r] * lo)))
            else: parts.append(z3.Loop(r, lo, hi))
        elif op == SUBPATTERN: parts.append(tr(av[3]))
        elif op == BRANCH: parts.append(z3.Union(*[tr(b) for b in av[1]]))
        else: raise NotImplementedError(op)
    if not parts: return z3.Re('')
    return parts[0] if len(parts) == 1 else z3.Concat(*parts)
def pat(p): return tr(list(sp.parse(p.pattern)))
D = z3.Range('0', '9'); AL = z3.Union(z3.Range('a', 'z'), z3.Range('A', 'Z'), z3.Re('_')); H = z3.Union(D, z3.Range('a', 'f'), z3.Range('A', 'F'))
WS = z3.Union(*[z3.Re(c) for c in ' \t\n\r\x0b\x0c'])
spec = {
 'ident_pattern': z3.Concat(AL, z3.Star(z3.Union(AL, D))),
 'string_text': z3.Plus(neg(z3.Union(z3.Re('\\'), z3.Re('"')))),
 'byte_escape': z3.Concat(z3.Re('\\x'), H, H),
 'unicode_escape': z3.Concat(z3.Re('\\u{'), z3.Plus(H), z3.Re('}')),
 'ignore': z3.Union(z3.Concat(z3.Star(WS), z3.Re('//'), z3.Star(neg(z3.Re('\n')))), z3.Plus(WS)),
}
s = z3.String('s')
for name, sre in spec.items():
    t = time.time(); impl = pat(getattr(readers, name))
    sol = z3.Solver(); sol.set('timeout', 60000); sol.add(z3.InRe(s, impl) != z3.InRe(s, sre))
    r = sol.check(); print(name, r, sol.model() if r == z3.sat else '', round(time.time() - t, 3))
# reader-order obligation: a hex literal is never shadowed: if s has a prefix in L(hex) then dec's longest match is shorter ("0")
hexr, decr = pat(readers.hex_literal), pat(readers.dec_literal)
p = z3.String('p'); q = z3.String('q'); t = time.time()
sol = z3.Solver(); sol.set('timeout', 60000)
# exists s with prefixes p in L(hex), q in L(dec), |q| >= |p|  -> would mean reading order matters
sol.add(z3.PrefixOf(p, s), z3.PrefixOf(q, s), z3.InRe(p, hexr), z3.InRe(q, decr), z3.Length(q) >= z3.Length(p))
print('hex shadowed by dec:', sol.check(), round(time.time() - t, 3))
# keyword vs identifier: an identifier match that is a keyword is the whole maximal identifier (no keyword is split): for all s, if ident-prefix m is maximal and m in KW -> token is KW (by table); check no symbol token is a prefix of an identifier start
idr = pat(readers.ident_pattern)
syms = [str(x) for x in readers.symbol_tokens]
sol = z3.Solver(); sol.add(z3.InRe(p, idr), z3.Or(*[z3.PrefixOf(z3.StringVal(y), p) for y in syms]))
print('symbol is prefix of an identifier:', sol.check())
