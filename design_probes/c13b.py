import sys, os, time
sys.path.insert(0, os.environ.get('HIDC_ROOT', '/repo')); sys.path.insert(0, '/tmp/probe')
import z3
from comp import compile
from svm import assemble
from vm2 import VM2
src = '''
const int[] ci = [11, 22, 33, 44];
const bool[] cb = [true, false, true, true, false, false, true, false, true, true];
empty @is_you(int i) {
    string s = "abcdef";
    write(s); write(s[i]); sleep(s.length);
    write("xyz" is byte[]);
    sleep(ci[i]); sleep(ci.length);
    write(cb[i]);
}
'''
lines = compile(src, word_size=2, stack_size=60)
P = assemble(lines, {'i': {}})
vm = VM2(P)
# replace payload of every const data directive by fresh symbols (lengths stay concrete)
L = P.labels; sym = {}
addr = 0
for it in P.items['const']:
    if it[0] == 'bytes':
        for k in range(len(it[1])):
            v = z3.BitVec(f'c{addr + k}', 8); vm.const[addr + k] = v; sym[addr + k] = v
        addr += len(it[1])
    elif it[0] == 'word':
        addr += 2
    elif it[0] == 'byte':
        v = z3.BitVec(f'c{addr}', 8); vm.const[addr] = v; sym[addr] = v; addr += 1
# words of the const int array: make them symbolic too (but not the string length prefixes)
ci = L['data_0'][1] if 'data_0' in L else None
names = [n for n in L if L[n][0] == 'const']
print('const labels', names)
t = time.time(); res = vm.run(); print('paths', len(res), round(time.time() - t, 2), 'queries', vm.nq)
for k, c, ev, i in res[:4]:
    print(k, i, [(a, str(b)[:28]) for a, b in ev][:16], [str(x)[:25] for x in c][-2:])
