import sys
sys.path.insert(0,'/repo')
from comp import compile
progs = {
 'str_elem_assign': 'empty @is_you() { string s = "abc"; s[0] = \'x\'; }',
 'str_elem_inc': 'empty @is_you() { string s = "abc"; s[0] += 1; }',
 'const_arr_assign': 'empty @is_you() { const int[] a = [1,2]; a[0] = 3; }',
 'bslash': 'empty @is_you() { writeln("a\\\\b"); write(\'\\\\\'); }',
 'global_call': 'int f() { return 1; } int g = f(); empty @is_you() { write(g); }',
 'global_nonconst_expr': 'int a = 1; int b = a + 1; empty @is_you() { write(b); }',
 'global_arr_var_len': 'int n = 3; int a[n]; empty @is_you() { write(a[0]); }',
 'global_arr_elem': 'int[] a = [1,2]; int b = a[0]; empty @is_you() { write(b); }',
 'empty_arr': 'empty @is_you() { int[] a = []; write(a.length); }',
 'empty_arr_untyped': 'empty @is_you() { write([].length); }',
 'ret_in_global': 'return 1;',
 'byte_big': 'empty @is_you() { byte b = 300; write(b); }',
 'neg_byte': 'empty @is_you() { byte b = -1; write(b); }',
 'spec_str': 'empty @is_you() { string s = "a" ?? "b"; }',
 'write_arr_lit': 'empty @is_you() { write([1,2,3]); }',
 'write_byte_lit': 'empty @is_you() { write([\'a\',\'b\']); }',
 'cast_arr': 'empty @is_you() { int[] a = [1,2]; write(a is byte[]); }',
 'is_you_bool': 'empty @is_you(bool b) { }',
 'huge_stack': 'empty @is_you() { }',
}
for name, src in progs.items():
    try:
        lines = compile(src, stack_size=(40000 if name=='huge_stack' else 500))
        print(name, 'OK', len(lines))
    except Exception as e:
        print(name, type(e).__name__, e)
