import sys, os
sys.path.insert(0, os.environ.get('HIDC_ROOT', '/repo')); sys.path.insert(0, '/tmp/probe')
import z3
from hidc.lexer import SourceCode
from hidc.parser import parse
from hidc.ast import Environment
from hidc.codegen import CodeGen
from svm import assemble
from vm2 import VM2
src = """
empty @is_you(int n, int c) {
    for (int i = 0; i < 3; i += 1) {
        int[] a = [i, n, i + n];
        if (c == i) { continue; }
        if (n == i) { break; }
        int b[2];
        b[0] = a[2];
        sleep(b[0]);
    }
    write('.');
}
"""
env = Environment.empty(); parse(SourceCode.from_string(src)).evaluate(env)
P = assemble(list(CodeGen(env, 2, 100, False).gen_lines()), {'n': {}, 'c': {}})
vm = VM2(P)
L = P.labels; apa, fpa = L['ap'][1], L['fp'][1]
loops = {idx: name for name, (sec, idx) in L.items() if sec == 'code' and name.startswith('loop_')}
viol = []
def on_pc(st, pc, conds, res):
    if pc in loops:
        ap = vm.get(st['mem'], apa, 2, vm.sizes['state']); fp = vm.get(st['mem'], fpa, 2, vm.sizes['state'])
        seen = dict(st.get('loopap', ()))
        key = (pc, fp)
        if key in seen:
            if seen[key] != ap: viol.append((loops[pc], seen[key], ap, [str(c)[:30] for c in conds][-3:]))
        else:
            seen[key] = ap; st['loopap'] = tuple(seen.items())
vm.on_pc = on_pc
res = vm.run()
print(os.environ.get('HIDC_ROOT', '/repo'), 'paths', len(res), 'ap-at-loop-head violations:', len(viol), viol[:2])
