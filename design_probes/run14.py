import sys, time
sys.path.insert(0,'/repo'); sys.path.insert(0,'/tmp/probe')
import z3
import vm2, ri
import run13 as R
src = open(sys.argv[1]).read(); name = sys.argv[2]; n = int(sys.argv[3]); ws = 2
orig_run = vm2.VM2.run
def run(self, a=()):
    return orig_run(self, tuple(a) + tuple(z3.ULE(v, 9) for v in self.inputs[name]))
vm2.VM2.run = run
orig_all = ri.RI.run_all
def run_all(self, a=()):
    return orig_all(self, [z3.ULE(v, 9) for v in self.args[name].cells])
ri.RI.run_all = run_all
t = time.time()
R.check(src, {name: {'cap': n, 'count': n}}, assume=lambda vm: [z3.ULE(v, 9) for v in vm.inputs[name]])
print('total', round(time.time() - t, 1))
