import sys
root = sys.argv[1]
sys.path.insert(0, root); sys.path.insert(0, '/tmp/probe')
import z3
from hidc.lexer import SourceCode
from hidc.parser import parse
from hidc.ast import Environment
from hidc.codegen import CodeGen
from svm import assemble
from vm2 import VM2
def build(src, names, stack):
    env = Environment.empty(); parse(SourceCode.from_string(src)).evaluate(env)
    return assemble(list(CodeGen(env, 2, stack, False).gen_lines()), {n: {} for n in names})
def run(src, names, vals, stack):
    P = build(src, names, stack); vm = VM2(P, max_steps=50000)
    res = vm.run([vm.inputs[n][0] == v for n, v in zip(names, vals)])
    out = []
    for k, c, ev, i in res:
        s = z3.Solver(); s.add(*c); s.add(*[vm.inputs[n][0] == v for n, v in zip(names, vals)])
        if s.check() != z3.sat: continue
        m = s.model(); out.append((k, tuple((a, b if isinstance(b, (int, str)) else m.eval(b, True).as_long()) for a, b in ev)))
    return out
for f, names, vals in [('t2.hid', ['x'], [12345]), ('t8.hid', ['x', 'y', 'i'], [65, 66, 3]), ('t9.hid', ['x', 'y', 'i'], [65, 66, 3])]:
    src = open('/tmp/probe/' + f).read()
    gen = run(src, names, vals, 200)
    bad = []; first_ok = None
    for st in range(0, 60):
        r = run(src, names, vals, st)
        if any(any(a == 'flag' and b == 'stack_overflow' for a, b in ev) for k, ev in r): continue
        if first_ok is None: first_ok = st
        if r != gen: bad.append(st)
    print(root.split('/')[-1], f, 'first non-overflow size', first_ok, 'sizes with wrong behaviour:', bad)
