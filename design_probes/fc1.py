import sys, os, time
sys.path.insert(0, os.environ.get('HIDC_ROOT', '/repo')); sys.path.insert(0, '/tmp/probe')
import z3
from comp import compile
from svm import assemble, Instr
from vm2 import VM2
src = '''
int g(int x) { return x + 1; }
int f(int a, int b) { int[] t = [a, b, a + b]; write(t[0] is byte); return t[2] * g(a); }
empty @is_you() { sleep(f(1, 2)); }
'''
ws = 2; B = 16
P = assemble(compile(src, word_size=ws, stack_size=100), {})
P.code.append(Instr('flag', ['win'], 'RETURN-SENTINEL'))
L = P.labels; ss, se = L['stack_start'][1], L['stack_end'][1]
vm = VM2(P); AP0 = z3.BitVec('AP0', B); vm.AP0 = AP0
F = se - 40                                   # arbitrary mid-stack frame pointer: the code is fp-relative
a, b = z3.BitVec('a', B), z3.BitVec('b', B)
vm.put(vm.state, L['ap'][1], AP0, ws); vm.put(vm.state, L['fp'][1], F, ws)
vm.put(vm.state, F - ws, len(P.code) - 1, ws); vm.put(vm.state, F - 2 * ws, a, ws); vm.put(vm.state, F - 3 * ws, b, ws)
for addr in range(F, se): vm.state[addr] = z3.BitVec(f'caller{addr}', 8)      # caller frames: arbitrary, must not be read/written
pre = [z3.UGE(AP0, ss), z3.ULE(AP0, F - 3 * ws)]
t = time.time(); res = vm.run(pre, entry=L['func_f_0'][1]); print('paths', len(res), round(time.time() - t, 2), 'queries', vm.nq)
for k, c, ev, i in res:
    o = z3.Optimize(); o.add(*c); o.maximize(z3.BV2Int(AP0)); o.check(); mx = o.model().eval(AP0, True).as_long()
    print(' ', k, i, [(x, str(y)[:30]) for x, y in ev], 'min free bytes (fp-ap):', F - mx)
