import z3
_cache = {}
def uf_abstract(e, fns):
    """replace nonlinear bv ops (mul/div/rem with 2 non-constant args) by uninterpreted functions"""
    key = e.get_id()
    if key in _cache: return _cache[key]
    if z3.is_app(e) and e.num_args() > 0:
        args = [uf_abstract(a, fns) for a in e.children()]
        k = e.decl().kind()
        NL = {z3.Z3_OP_BMUL: 'mul', z3.Z3_OP_BSDIV: 'sdiv', z3.Z3_OP_BSREM: 'srem', z3.Z3_OP_BUDIV: 'udiv', z3.Z3_OP_BUREM: 'urem', z3.Z3_OP_BSMOD: 'smod',
              z3.Z3_OP_BSDIV_I: 'sdiv', z3.Z3_OP_BSREM_I: 'srem', z3.Z3_OP_BUDIV_I: 'udiv', z3.Z3_OP_BUREM_I: 'urem', z3.Z3_OP_BSMOD_I: 'smod'}
        if k in NL and len(args) == 2 and not any(z3.is_bv_value(a) for a in args):
            name = NL[k]; sz = e.size()
            f = fns.setdefault((name, sz), z3.Function(f'uf_{name}_{sz}', z3.BitVecSort(sz), z3.BitVecSort(sz), z3.BitVecSort(sz)))
            if name == 'mul': args = sorted(args, key=lambda a: a.get_id())
            r = f(*args)
        elif k in NL and len(args) > 2 and name_is_mul(k):
            r = e.decl()(*args)
        else:
            r = e.decl()(*args)
    else:
        r = e
    _cache[key] = r
    return r
def name_is_mul(k): return k == z3.Z3_OP_BMUL
