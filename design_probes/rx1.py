import sys, time
sys.path.insert(0, '/repo')
import re, z3
import re._parser as sp
from re._constants import *
from hidc.lexer import readers

def cls_ascii(cat):
    D = z3.Range('0', '9')
    if cat == CATEGORY_DIGIT: return D
    if cat == CATEGORY_SPACE: return z3.Union(*[z3.Re(c) for c in ' \t\n\r\x0b\x0c'])
    if cat == CATEGORY_WORD: return z3.Union(D, z3.Range('a','z'), z3.Range('A','Z'), z3.Re('_'))
    raise NotImplementedError(cat)
ALLC = z3.AllChar(z3.ReSort(z3.StringSort()))
def tr(items):
    parts = []
    for op, av in items:
        if op == LITERAL: parts.append(z3.Re(chr(av)))
        elif op == NOT_LITERAL: parts.append(z3.Intersect(ALLC, z3.Complement(z3.Re(chr(av)))))
        elif op is ANY: parts.append(z3.Intersect(ALLC, z3.Complement(z3.Re('\n'))))
        elif op == IN:
            neg = False; alts = []
            for o, a in av:
                if o == NEGATE: neg = True
                elif o == LITERAL: alts.append(z3.Re(chr(a)))
                elif o == RANGE: alts.append(z3.Range(chr(a[0]), chr(a[1])))
                elif o == CATEGORY: alts.append(cls_ascii(a))
                else: raise NotImplementedError(o)
            u = alts[0] if len(alts) == 1 else z3.Union(*alts)
            parts.append(z3.Intersect(ALLC, z3.Complement(u)) if neg else u)
        elif op in (MAX_REPEAT, MIN_REPEAT):
            lo, hi, sub = av; r = tr(sub)
            if hi == MAXREPEAT:
                parts.append(z3.Star(r) if lo == 0 else z3.Plus(r) if lo == 1 else z3.Concat(*([r]*lo + [z3.Star(r)])))
            else: parts.append(z3.Loop(r, lo, hi))
        elif op == SUBPATTERN:
            parts.append(tr(av[3]))
        elif op == BRANCH:
            parts.append(z3.Union(*[tr(b) for b in av[1]]))
        else: raise NotImplementedError(op)
    if not parts: return z3.Re('')
    return parts[0] if len(parts) == 1 else z3.Concat(*parts)

def pat(p): return tr(list(sp.parse(p.pattern)))
D = z3.Range('0','9'); H = z3.Union(D, z3.Range('a','f'), z3.Range('A','F'))
def lit(prefix, dig):
    body = z3.Concat(dig, z3.Star(z3.Concat(z3.Option(z3.Re('_')), dig)))
    return z3.Concat(z3.Re(prefix), body) if prefix else body
spec = {'dec_literal': lit('', D), 'hex_literal': lit('0x', H), 'oct_literal': lit('0o', z3.Range('0','7')), 'bin_literal': lit('0b', z3.Range('0','1'))}
s = z3.String('s')
for name, sre in spec.items():
    t = time.time()
    impl = pat(getattr(readers, name))
    sol = z3.Solver(); sol.set('timeout', 60000)
    sol.add(z3.InRe(s, impl) != z3.InRe(s, sre))
    r = sol.check()
    print(name, r, sol.model() if r == z3.sat else '', round(time.time()-t, 2))
