import sys, random, time
root = sys.argv[4] if len(sys.argv) > 4 else '/repo'
sys.path.insert(0, root); sys.path.insert(0, '/tmp/probe')
import z3
from hidc.lexer import SourceCode
from hidc.parser import parse
from hidc.ast import Environment
from hidc.codegen import CodeGen
from hidc.errors import CompilerError
from svm import assemble
from vm2 import VM2
import gen1, gen2
FAULTS = {'out_of_bounds', 'division_by_zero', 'stack_overflow', 'nonlocal_preempt'}
def Zv(v, n): return z3.BitVecVal(v, n) if isinstance(v, int) else v
def run(src, names, unchecked):
    env = Environment.empty(); parse(SourceCode.from_string(src)).evaluate(env)
    P = assemble(list(CodeGen(env, 2, 200, unchecked).gen_lines()), {n: {} for n in names})
    vm = VM2(P, max_steps=20000); return vm, vm.run()
which = sys.argv[1]; seed0 = int(sys.argv[2]); count = int(sys.argv[3])
stats = dict(ok=0, bad=0, skipped=0); t0 = time.time()
for seed in range(seed0, seed0 + count):
    if which == 'seq': src = gen1.G(random.Random(seed)).program(); names = ['x', 'y', 'z']
    else: src = gen2.G(random.Random(seed)).program(); names = ['x', 'y']
    try:
        vc, rc = run(src, names, False); vu, ru = run(src, names, True)
    except CompilerError: stats['skipped'] += 1; continue
    s = z3.Solver(); s.set('timeout', 8000); bad = 0
    link = [a == b for n in names for a, b in zip(vc.inputs[n], vu.inputs[n])]   # same symbols by name anyway
    for k1, c1, e1, i1 in rc:
        if k1 != 'done' or any(k == 'flag' and v in FAULTS for k, v in e1): continue
        for k2, c2, e2, i2 in ru:
            s.push(); s.add(*c1); s.add(*c2)
            if s.check() == z3.sat:
                same_shape = k2 == 'done' and len(e1) == len(e2) and all(a[0] == b[0] and (a[0] != 'flag' or a[1] == b[1]) for a, b in zip(e1, e2))
                if not same_shape: bad += 1; print('  shape', k2, i2, s.model())
                else:
                    d = [Zv(a[1], 8 if a[0] == 'out' else 16) != Zv(b[1], 8 if a[0] == 'out' else 16) for a, b in zip(e1, e2) if a[0] != 'flag' and not (isinstance(a[1], int) and isinstance(b[1], int) and a[1] == b[1]) and not (not isinstance(a[1], int) and not isinstance(b[1], int) and z3.eq(a[1], b[1]))]
                    if d:
                        s.add(z3.Or(*d)); r = s.check()
                        if r == z3.sat: bad += 1; print('  value', s.model())
            s.pop()
    if bad: stats['bad'] += 1; print('=== C15 DIFF seed', seed); print(src[-900:])
    else: stats['ok'] += 1
print(which, stats, 'time', round(time.time() - t0, 1))
