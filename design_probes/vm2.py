"""Probe VM v2: dict memory, int fast path, symbolic values as z3 BV, Turing-jump backtracking.
Concrete-address memory only; symbolic addresses are concretised by forking (cap)."""
import time
import z3
from svm import assemble, const_eval, AsmError

def isc(v): return isinstance(v, int)

class Unspecified(Exception): pass

class VM2:
    def __init__(self, prog, argvals=None, max_steps=200000, timeout_ms=30000, addr_cap=16):
        self.P = prog; self.W = prog.word; self.B = 8 * self.W; self.M = (1 << self.B) - 1
        self.max_steps = max_steps; self.addr_cap = addr_cap
        self.solver = z3.Solver(); self.solver.set('timeout', timeout_ms)
        self.nq = 0; self.tq = 0.0; self.nsteps = 0
        self.inputs = {}
        self.argvals = argvals or {}
        self.argc_array = 0
        for p in prog.argv:
            if p.startswith('[<'):
                name = p[2:].split('>')[0]
                for sec in ('const', 'state'):
                    for it in prog.items[sec]:
                        if it[0] == 'arg' and it[1] == name:
                            spec = it[4]
                            self.argc_array = spec['count'] if 'count' in spec else len(spec['values'])
        self.layout()

    # ---------- values
    def Z(self, v, bits=None):
        bits = bits or self.B
        return z3.BitVecVal(v, bits) if isc(v) else v
    def signed(self, v):
        return v - (1 << self.B) if v >> (self.B - 1) else v
    def simp(self, t):
        t = z3.simplify(t)
        return t.as_long() if z3.is_bv_value(t) else t

    # ---------- images
    def layout(self):
        P, W = self.P, self.W
        self.const = {}; self.state = {}
        self.sizes = {}
        for sec, mem in (('const', self.const), ('state', self.state)):
            addr = 0
            for it in P.items[sec]:
                k = it[0]
                if k == 'word':
                    v = self.imm(it[1]); self.put(mem, addr, v, W); addr += W
                elif k == 'byte':
                    v = self.imm(it[1]); self.put(mem, addr, v, 1); addr += 1
                elif k == 'zero':
                    addr += const_eval(it[1], P.labels, W)
                elif k == 'bytes':
                    for b in it[1]: mem[addr] = b; addr += 1
                elif k == 'arg':
                    _, name, fmt, params, spec = it
                    addr = self.bind_arg(mem, addr, name, fmt, params, spec)
            self.sizes[sec] = addr

    def bind_arg(self, mem, addr, name, fmt, params, spec):
        W = self.W
        if fmt in ('word', 'byte'):
            n = W if fmt == 'word' else 1
            vals = spec.get('values')
            cap = spec.get('cap', 1) if vals is None else len(vals)
            out = []
            for i in range(cap):
                v = vals[i] & ((1 << (8*n)) - 1) if vals is not None else z3.BitVec(f'{name}_{i}', 8 * n)
                out.append(v); self.put(mem, addr, v, n); addr += n
            self.inputs[name] = out
            return addr
        if fmt == 'asciip':
            strs = spec['values']  # list of bytes (concrete only in this probe)
            if 'array' in params:
                base = addr; addr += W * len(strs)
                for i, s in enumerate(strs):
                    self.put(mem, base + i * W, addr, W)
                    self.put(mem, addr, len(s), W); addr += W
                    for b in s: mem[addr] = b; addr += 1
                return addr
            s = strs[0]
            self.put(mem, addr, len(s), W); addr += W
            for b in s: mem[addr] = b; addr += 1
            return addr
        raise AsmError(fmt)

    def put(self, mem, addr, v, n):
        if isinstance(addr, tuple):
            base = addr[1]
            for k in range(n):
                mem[('r', base + k)] = ((v >> (8 * k)) & 0xFF) if isc(v) else (('w', v, k) if n > 1 else (self.simp(z3.Extract(7, 0, v)) if v.size() > 8 else v))
            return
        if isc(v):
            v &= (1 << (8 * n)) - 1
            for k in range(n): mem[addr + k] = (v >> (8 * k)) & 0xFF
        elif n == 1:
            mem[addr] = self.simp(z3.Extract(7, 0, v)) if v.size() > 8 else v
        else:
            for k in range(n): mem[addr + k] = ('w', v, k)

    def get(self, mem, addr, n, size):
        if isinstance(addr, tuple):
            bs = [mem.get(('r', addr[1] + k), 0) for k in range(n)]
        else:
            if addr < 0 or addr + n > size: raise Unspecified(f'access outside section at {addr}')
            bs = [mem.get(addr + k, 0) for k in range(n)]
        if all(isc(b) for b in bs):
            return sum(b << (8 * k) for k, b in enumerate(bs))
        if n > 1 and all(isinstance(b, tuple) and b[0] == 'w' and b[2] == k and b[1] is bs[0][1] for k, b in enumerate(bs)) and bs[0][1].size() == 8 * n:
            return bs[0][1]
        bs = [self.simp(z3.Extract(8 * b[2] + 7, 8 * b[2], b[1])) if isinstance(b, tuple) else b for b in bs]
        if all(isc(b) for b in bs):
            return sum(b << (8 * k) for k, b in enumerate(bs))
        t = self.Z(bs[0], 8)
        for b in bs[1:]: t = z3.Concat(self.Z(b, 8), t)
        return self.simp(t)

    def imm(self, toks):
        if toks and toks[0] == ('name', '$argc'):
            return self.argc_array & self.M if isc(self.argc_array) else self.argc_array
        return const_eval(toks, self.P.labels, self.W) & self.M

    # ---------- solver
    def feasible(self, conds):
        t = time.time(); self.solver.push()
        for c in conds: self.solver.add(c)
        r = self.solver.check(); self.solver.pop()
        self.nq += 1; self.tq += time.time() - t
        if r == z3.unknown: raise RuntimeError('unknown')
        return r == z3.sat

    def values_of(self, expr, conds):
        """enumerate feasible concrete values of expr under conds (cap)"""
        out = []; self.solver.push()
        for c in conds: self.solver.add(c)
        while len(out) <= self.addr_cap:
            self.nq += 1
            if self.solver.check() != z3.sat: break
            v = self.solver.model().eval(expr, True).as_long(); out.append(v)
            self.solver.add(expr != v)
        self.solver.pop()
        return out

    # ---------- run
    def run(self, assumptions=(), entry=0):
        init = dict(pc=entry, mem=dict(self.state), ev=(), choices=(), steps=0, seen=frozenset())
        self.results = []
        work = [(init, tuple(assumptions))]
        while work:
            st, conds = work.pop()
            try:
                self.explore(st, list(conds), work)
            except Unspecified as e:
                self.results.append(('unspecified', list(conds), st['ev'], str(e)))
        return self.results

    def opval(self, st, a):
        if a.kind == 'imm': return self.imm(a.toks)
        addr = self.imm(a.toks)
        if a.kind == 'state': return self.get(st['mem'], addr, self.W, self.sizes['state'])
        return self.get(self.const, addr, self.W, self.sizes['const'])

    AP0 = None
    def resolve_addr(self, st, conds, addr, work):
        """return concrete address; fork on other feasible values"""
        if isc(addr): return addr, conds
        if self.AP0 is not None:
            off = self.simp(addr - self.AP0)
            if isc(off):
                if off >> (self.B - 1): off -= (1 << self.B)
                return ('r', off), conds
        vals = self.values_of(addr, conds)
        if not vals: raise Unspecified('infeasible path at address resolution')
        if len(vals) > self.addr_cap: raise Unspecified(f'address has > {self.addr_cap} values: {addr}')
        for v in vals[1:]:
            s2 = dict(st); s2['mem'] = dict(st['mem'])
            work.append((s2, tuple(conds + [addr == v])))
        return vals[0], conds + [addr == vals[0]]

    def explore(self, st, conds, work):
        P, W, B, M = self.P, self.W, self.B, self.M
        st = dict(st); st['mem'] = dict(st['mem'])
        res = self.results
        while True:
            if st['steps'] > self.max_steps:
                res.append(('bound', conds, st['ev'], st['pc'])); return
            st['steps'] += 1; self.nsteps += 1
            pc = st['pc']
            if not (0 <= pc < len(P.code)): raise Unspecified(f'pc {pc} outside code')
            hook = getattr(self, 'on_pc', None)
            if hook is not None: hook(st, pc, conds, res)
            fo = getattr(self, 'func_of', None)
            if fo is not None:
                pp = st.get('prev_pc')
                if pp is not None and pc == pp + 1 and fo[pc] != fo[pp]:
                    res.append(('falloff', conds, st['ev'], (pp, pc))); return
                st['prev_pc'] = pc
            ins = P.code[pc]; op = ins.op; A = ins.args
            if op[0] == 'h':
                if op == 'halt': c = True
                else:
                    l, r = self.opval(st, A[0]), self.opval(st, A[1])
                    if isc(l) and isc(r):
                        sl, sr = self.signed(l), self.signed(r)
                        c = {'heq': l == r, 'hne': l != r, 'hlt': sl < sr, 'hgt': sl > sr, 'hle': sl <= sr, 'hge': sl >= sr,
                             'hltu': l < r, 'hgtu': l > r, 'hleu': l <= r, 'hgeu': l >= r}[op]
                    else:
                        l, r = self.Z(l), self.Z(r)
                        c = {'heq': l == r, 'hne': l != r, 'hlt': l < r, 'hgt': l > r, 'hle': l <= r, 'hge': l >= r,
                             'hltu': z3.ULT(l, r), 'hgtu': z3.UGT(l, r), 'hleu': z3.ULE(l, r), 'hgeu': z3.UGE(l, r)}[op]
                        c = z3.simplify(c)
                        if z3.is_true(c): c = True
                        elif z3.is_false(c): c = False
                if c is True: can_halt, can_cont = True, False
                elif c is False: can_halt, can_cont = False, True
                else:
                    can_halt = self.feasible(conds + [c]); can_cont = self.feasible(conds + [z3.Not(c)])
                if can_halt:
                    hconds = conds if c is True else conds + [c]
                    if not st['choices']:
                        res.append(('halt', hconds, st['ev'], pc))
                    else:
                        snap = st['choices'][-1]
                        ns = dict(snap); ns['steps'] = st['steps']; ns['mem'] = dict(snap['mem'])
                        if can_cont: work.append((ns, tuple(hconds)))
                        else:
                            st = ns; conds = hconds; continue
                if can_cont:
                    if c is not False: conds = conds + [z3.Not(c)]
                    st['pc'] = pc + 1; continue
                return
            if op == 'j':
                tgt = self.opval(st, A[0])
                tgt, conds = self.resolve_addr(st, conds, tgt, work)
                if not (0 <= tgt < len(P.code)): raise Unspecified(f'jump to {tgt}')
                snap = dict(st); snap['pc'] = tgt; snap['mem'] = dict(st['mem'])
                # cycle detection: same target, same memory, same events => runs forever
                if tgt <= pc:
                    key = (tgt, hash(frozenset((k, v if isc(v) else (v[1].hash(), v[2]) if isinstance(v, tuple) else v.hash()) for k, v in st['mem'].items())), len(st['ev']))
                    if key in st['seen']:
                        res.append(('diverge', conds, st['ev'], tgt)); return
                    st['seen'] = st['seen'] | {key}
                    snap['seen'] = st['seen']
                st['choices'] = st['choices'] + (snap,)
                st['pc'] = pc + 1; continue
            if op == 'flag':
                st['ev'] = st['ev'] + (('flag', A[0]),)
                if A[0] in ('win', 'error'):
                    res.append(('done', conds, st['ev'], A[0])); return
                st['pc'] = pc + 1; continue
            if op == 'yield':
                v = self.opval(st, A[0])
                v = v & 0xFF if isc(v) else self.simp(z3.Extract(7, 0, v))
                st['ev'] = st['ev'] + (('out', v),); st['pc'] = pc + 1; continue
            if op == 'sleep':
                st['ev'] = st['ev'] + (('sleep', self.opval(st, A[0])),); st['pc'] = pc + 1; continue
            if op == 'mov':
                self.put(st['mem'], self.imm(A[0].toks), self.opval(st, A[1]), W); st['pc'] = pc + 1; continue
            if op in ('add', 'sub', 'mul', 'div', 'mod', 'and', 'or', 'xor', 'asl', 'asr'):
                l, r = self.opval(st, A[1]), self.opval(st, A[2])
                if op in ('div', 'mod'):
                    if isc(r):
                        if r == 0: raise Unspecified('division by zero')
                    elif self.feasible(conds + [r == 0]): raise Unspecified('division by zero feasible')
                if op in ('asl', 'asr'):
                    if isc(r):
                        if r >= B: raise Unspecified('shift amount')
                    elif self.feasible(conds + [z3.UGE(r, B)]): raise Unspecified('shift amount feasible')
                if isc(l) and isc(r):
                    sl, sr = self.signed(l), self.signed(r)
                    v = {'add': lambda: l + r, 'sub': lambda: l - r, 'mul': lambda: l * r, 'div': lambda: sl // sr, 'mod': lambda: sl % sr,
                         'and': lambda: l & r, 'or': lambda: l | r, 'xor': lambda: l ^ r, 'asl': lambda: l << r, 'asr': lambda: sl >> r}[op]() & M
                else:
                    l, r = self.Z(l), self.Z(r)
                    if op in ('div', 'mod'):
                        q = l / r; rem = z3.SRem(l, r); adj = z3.And(rem != 0, (rem < 0) != (r < 0))
                        v = z3.If(adj, q - 1, q) if op == 'div' else z3.If(adj, rem + r, rem)
                    else:
                        v = {'add': lambda: l + r, 'sub': lambda: l - r, 'mul': lambda: l * r, 'and': lambda: l & r, 'or': lambda: l | r,
                             'xor': lambda: l ^ r, 'asl': lambda: l << r, 'asr': lambda: l >> r}[op]()
                    v = self.simp(v)
                self.put(st['mem'], self.imm(A[0].toks), v, W); st['pc'] = pc + 1; continue
            if op[0] == 'l':
                n = W if op[1] == 'w' else 1
                addr = self.opval(st, A[1])
                if len(op) == 4:
                    o = self.opval(st, A[2])
                    addr = (addr + o) & M if isc(addr) and isc(o) else self.simp(self.Z(addr) + self.Z(o))
                addr, conds = self.resolve_addr(st, conds, addr, work)
                if op[2] == 's': v = self.get(st['mem'], addr, n, self.sizes['state'])
                else: v = self.get(self.const, addr, n, self.sizes['const'])
                self.put(st['mem'], self.imm(A[0].toks), v if isc(v) or n == W else z3.ZeroExt(B - 8, v), W)
                st['pc'] = pc + 1; continue
            if op[0] == 's' and op != 'sleep':
                n = W if op[1] == 'w' else 1
                addr = self.opval(st, A[0])
                if len(op) == 4:
                    o = self.opval(st, A[1])
                    addr = (addr + o) & M if isc(addr) and isc(o) else self.simp(self.Z(addr) + self.Z(o))
                addr, conds = self.resolve_addr(st, conds, addr, work)
                if not isinstance(addr, tuple) and (addr < 0 or addr + n > self.sizes['state']): raise Unspecified(f'store outside state at {addr}')
                v = self.opval(st, A[-1])
                self.put(st['mem'], addr, v, n); st['pc'] = pc + 1; continue
            raise AsmError('unknown op ' + op)
