import sys, time
sys.path.insert(0,'/repo'); sys.path.insert(0,'/tmp/probe')
import z3
from comp import compile
from svm import assemble
from vm2 import VM2
src = open(sys.argv[1]).read(); names = sys.argv[2].split(',') if sys.argv[2] != '-' else []
ws = 2; B = 16; BIG = 200
P = assemble(compile(src, word_size=ws, stack_size=BIG), {n: {} for n in names})
L = P.labels; ss, se = L['stack_start'][1], L['stack_end'][1]
entry = ws * (len(names) + 1)
vm = VM2(P); AP0 = z3.BitVec('AP0', B); vm.AP0 = AP0
vm.put(vm.state, L['ap'][1], AP0, ws)
pre = [z3.UGE(AP0, ss), z3.ULE(AP0, se - entry)]
t = time.time(); res = vm.run(pre)
print('guard partition: paths', len(res), 'time', round(time.time() - t, 2), 'queries', vm.nq)
opt_cells = []
for kind, conds, ev, info in res:
    o = z3.Optimize(); o.add(*conds)
    h = o.maximize(z3.BV2Int(AP0)); assert o.check() == z3.sat
    mx = o.model().eval(AP0).as_long()
    o2 = z3.Optimize(); o2.add(*conds); o2.minimize(z3.BV2Int(AP0)); o2.check(); mn = o2.model().eval(AP0).as_long()
    words_min = (se - entry - mx) // ws; words_max = (se - entry - mn) // ws
    flags = [v for k, v in ev if k == 'flag']
    print(f'  cell kind={kind} flags={flags} free stack words in [{words_min}, {words_max}]  ({(se-entry-mx)} .. {(se-entry-mn)} bytes)')
    opt_cells.append((kind, flags, se - entry - mx, se - entry - mn))
# decide each cell at its tightest size with exact memory: compile at that stack size (bytes must be multiple of ws -> round)
def run_at(stack_words):
    P2 = assemble(compile(src, word_size=ws, stack_size=stack_words), {n: {} for n in names})
    v2 = VM2(P2); return v2, v2.run()
vg, rg = run_at(BIG)
def norm(v): return v if isinstance(v, int) else str(v)
gen = [(k, [(a, norm(b)) for a, b in ev]) for k, c, ev, i in rg]
for kind, flags, bmin, bmax in opt_cells:
    if 'stack_overflow' in flags: continue
    total_words = (bmin + ws - 1) // ws + (entry // ws)   # stack_size counts words below the entry frame? (.zero Nw precedes the args)
    sw = (bmin + ws - 1) // ws
    v2, r2 = run_at(sw)
    got = [(k, [(a, norm(b)) for a, b in ev]) for k, c, ev, i in r2]
    print(f'  tightest size {sw} words: same events as generous stack: {got == gen}')
    if got != gen:
        print('     generous:', gen[:2]); print('     tight   :', got[:2])
