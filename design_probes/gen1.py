"""Probe: tiny random generator of sequential HiD programs, RI vs VM."""
import sys, random, time, traceback
sys.path.insert(0, '/repo'); sys.path.insert(0, '/tmp/probe')
import z3
import run13 as R
from hidc.errors import CompilerError

PRELUDE = """
int g = 3;
byte gb = 7;
bool gf = true;
int[] ga = [1, 2, 3];
const int[] gc = [4, 5, 6];
byte[] gba = [10, 20, 30];
int f(int p) { g += p; return g * 2; }
int h(int a, int b) { return a - b; }
byte bf(byte b) { gb = b; return b; }
bool pf(int a) { sleep(a); return a > 0; }
empty m(int[] a, int i, int v) { a[i] = v; }
int sum(const int[] a) { int s = 0; for (int i = 0; i < a.length; i += 1) { s += a[i]; } return s; }
"""

class G:
    def __init__(self, rnd):
        self.r = rnd; self.n = 0
        self.ints = ['x', 'y', 'g']; self.bytes = ['z', 'gb']; self.bools = ['gf']
        self.iarrs = ['ga', 'gc']; self.marrs = ['ga']; self.barrs = ['gba']
    def fresh(self, p):
        self.n += 1; return f'{p}{self.n}'
    def idx(self, d):
        r = self.r.random()
        if r < 0.6: return str(self.r.randrange(3))
        if r < 0.8: return f'({self.int_e(d-1)}) % 3'   # may be negative -> fault
        return self.int_e(d - 1)
    def int_e(self, d):
        r = self.r
        if d <= 0 or r.random() < 0.25:
            c = r.random()
            if c < 0.45: return r.choice(self.ints)
            if c < 0.6: return r.choice(self.bytes)
            return str(r.choice([0, 1, 2, 3, 7, 255, 256, 32767, 1000]))
        c = r.random()
        if c < 0.35:
            op = r.choice(['+', '-', '*', '/', '%'])
            return f'({self.int_e(d-1)} {op} {self.int_e(d-1)})'
        if c < 0.45: return f'(-{self.int_e(d-1)})'
        if c < 0.55: return f'{r.choice(self.iarrs)}[{self.idx(d)}]'
        if c < 0.6: return f'{r.choice(self.barrs)}[{self.idx(d)}]'
        if c < 0.7: return f'f({self.int_e(d-1)})'
        if c < 0.78: return f'h({self.int_e(d-1)}, {self.int_e(d-1)})'
        if c < 0.83: return f'sum({r.choice(self.iarrs)})'
        if c < 0.88: return f'({self.bool_e(d-1)} is int)'
        if c < 0.93: return f'(({self.int_e(d-1)}) is byte)'
        if c < 0.96: return f'{r.choice(self.iarrs)}.length'
        return f'[{self.int_e(d-1)}, {self.int_e(d-1)}, 5][{self.idx(d)}]'
    def byte_e(self, d):
        r = self.r; c = r.random()
        if c < 0.4: return r.choice(self.bytes)
        if c < 0.6: return f'(({self.int_e(d-1)}) is byte)'
        if c < 0.8: return f'bf({self.byte_e(d-1)})' if d > 0 else r.choice(self.bytes)
        return f'{r.choice(self.barrs)}[{self.idx(d)}]'
    def bool_e(self, d):
        r = self.r
        if d <= 0 or r.random() < 0.2:
            return r.choice(self.bools + ['true', 'false'])
        c = r.random()
        if c < 0.45:
            op = r.choice(['==', '!=', '<', '<=', '>', '>='])
            return f'({self.int_e(d-1)} {op} {self.int_e(d-1)})'
        if c < 0.6: return f'({self.bool_e(d-1)} and {self.bool_e(d-1)})'
        if c < 0.75: return f'({self.bool_e(d-1)} or {self.bool_e(d-1)})'
        if c < 0.85: return f'(not {self.bool_e(d-1)})'
        if c < 0.92: return f'pf({self.int_e(d-1)})'
        if c < 0.96: return f'(({self.int_e(d-1)}) is bool)'
        return f'({self.bool_e(d-1)} == {self.bool_e(d-1)})'
    def stmt(self, d, loop=False):
        r = self.r; c = r.random()
        if c < 0.15:
            v = self.fresh('i'); s = f'int {v} = {self.int_e(2)};'; self.ints = self.ints + [v]; return s
        if c < 0.2:
            v = self.fresh('b'); s = f'byte {v} = {self.byte_e(2)};'; self.bytes = self.bytes + [v]; return s
        if c < 0.25:
            v = self.fresh('o'); s = f'bool {v} = {self.bool_e(2)};'; self.bools = self.bools + [v]; return s
        if c < 0.32:
            v = self.fresh('a'); s = f'int[] {v} = [{self.int_e(1)}, {self.int_e(1)}, {self.int_e(1)}];'
            self.iarrs = self.iarrs + [v]; self.marrs = self.marrs + [v]; return s
        if c < 0.42: return f'{r.choice(self.ints)} {r.choice(["=", "+=", "-=", "*=", "/=", "%="])} {self.int_e(2)};'
        if c < 0.5: return f'{r.choice(self.marrs)}[{self.idx(2)}] {r.choice(["=", "+=", "-=", "*="])} {self.int_e(2)};'
        if c < 0.55: return f'{r.choice(self.barrs)}[{self.idx(2)}] {r.choice(["=", "+="])} {self.byte_e(1)};'
        if c < 0.62: return f'sleep({self.int_e(3)});'
        if c < 0.68: return f'write({self.byte_e(2)});'
        if c < 0.72: return f'write({self.bool_e(2)});'
        if c < 0.76: return f'm({r.choice(self.marrs)}, {self.idx(2)}, {self.int_e(1)});'
        if d > 0 and c < 0.86:
            return f'if ({self.bool_e(2)}) {self.block(d-1, loop)} else {self.block(d-1, loop)}'
        if d > 0 and c < 0.92:
            v = self.fresh('k')
            body = self.block(d-1, True)
            return f'for (int {v} = 0; {v} < {r.choice(["2", "3", "(x % 3)"])}; {v} += 1) {body}'
        if loop and c < 0.95: return r.choice(['break;', 'continue;'])
        if d > 0: return self.block(d-1, loop)
        return f'sleep({self.int_e(1)});'
    def block(self, d, loop=False):
        saved = (self.ints, self.bytes, self.bools, self.iarrs, self.marrs, self.barrs)
        n = self.r.randrange(1, 4)
        out = []
        for _ in range(n):
            s = self.stmt(d, loop); out.append(s)
            if s in ('break;', 'continue;'): break
        (self.ints, self.bytes, self.bools, self.iarrs, self.marrs, self.barrs) = saved
        return '{ ' + ' '.join(out) + ' }'
    def program(self):
        body = []
        for _ in range(self.r.randrange(2, 6)): body.append(self.stmt(2))
        body.append('sleep(g); write(gb); sleep(ga[0] + ga[1] + ga[2]);')
        return PRELUDE + 'empty @is_you(int x, int y, byte z) {\n  ' + '\n  '.join(body) + '\n}\n'

if __name__ == '__main__':
    seed0 = int(sys.argv[1]); count = int(sys.argv[2]); ws = int(sys.argv[3]) if len(sys.argv) > 3 else 2
    stats = dict(ok=0, mismatch=0, compile_err=0, crash=0)
    t0 = time.time()
    for seed in range(seed0, seed0 + count):
        src = G(random.Random(seed)).program()
        try:
            import io, contextlib
            buf = io.StringIO()
            with contextlib.redirect_stdout(buf):
                bad = R.check(src, {'x': {}, 'y': {}, 'z': {}}, ws=ws)
            if bad:
                stats['mismatch'] += 1
                print('=== MISMATCH seed', seed); print(src); print(buf.getvalue()[:1500])
            else: stats['ok'] += 1
        except CompilerError as e:
            stats['compile_err'] += 1
        except Exception as e:
            stats['crash'] += 1
            print('=== CRASH seed', seed, type(e).__name__, str(e)[:200]); print(src)
            traceback.print_exc(limit=3)
    print(stats, 'time', round(time.time() - t0, 1))
